import Abmarl.Props.Examples
import Abmarl.Spec.Pacman
import Abmarl.Lemmas.Pacman
import Abmarl.Lemmas.PacmanFloat
import Abmarl.Lemmas.PacmanObs
import Abmarl.Lemmas.PacmanStep
/-!
# `PacmanSim` / `PacmanSimSimple` (`abmarl/examples/sim/pacman.py`): what is proved

Model: `Model/Pacman.lean`, tied to the real classes by `gexample` / `mgrx` with configuration `(pacman …)`
(harness/p_pacman.py; the object is dumped and compared after every call, raised or not).

Proved here, for EVERY configuration (either class, any grid, agent mix, overlap table, reward scheme, ids), history and tape:

* **C01 / C07** `PM.pm_lawful`, `PM.pm_WF`, `C01_Pacman`, `C07_Pacman`, `C07_Pacman_every_call_returns`: the getters are
  frame-correct, `get_reward` is read-and-reset, so the manager theorems hold under the all-step and the turn-based manager;
* **C03 / C08, reset** `pacman_reset_establishes`: `reset` (placement, `HealthState`, `OrientationState` in any order) from
  ANY world with the constructed static part and legal ammunition fields — whatever agent floats outside every cell after a
  refused teleport, whoever is dead, whatever a raising `step` left — gives a world satisfying the whole `WInv`, everybody
  alive; `pacman_reset_forgets`, `pacman_fresh_twin`: the state after `reset` (including `step_count = 0`) does not depend
  on cells, positions, health, activity, orientation, the reward dict or `step_count` before it;
* **C03 after steps** `pacman_reachable_inv`, `pacman_simIface_reachable`: every state reached by any history of resets,
  steps with ANY action dict (returned or RAISED: the model carries the state a raising step leaves), observations, reward
  reads and done queries has the constructed static part and legal vitals (`PM.VitC`: health in [0,1], active exactly when
  health is positive, ammunition untouched, orientation one of the four directions) — and so the next `reset` re-establishes
  `WInv` (`pacman_reset_after_anything`);
* witnesses (`decide`): the three things the brief asked to decide — see the section "Witnesses" and MERGE_NOTES.md.

Proved since (round 6, workstream PAC2 — nothing of the former block "Stated, not proved" is left):

* **C03** `pacman_reachable_WInvFloat`, `pacman_simIface_WInvFloat`, `pacman_reachable_positions_in_grid`: the cell structure
  `PM.WInvFloat` and "every stored position is a grid cell" in EVERY reachable state, raising steps included
  (Lemmas/PacmanFloat.lean: `grid.remove`, unchecked `grid.place`, the `DriftMoveActor` for ANY mover, the teleport);
* **C02** `pacman_observations_in_space`: `get_obs` of every agent returns exactly the declared keys with values in the declared
  spaces in every reachable state (Lemmas/PacmanObs.lean: the observer theorems from `WInvFloat` — no transport exists);
* **C02 / C03** `pacman_step_keeps_WInv`, `pacman_step_noRaise`: a step from a `PM.stepPre` state returns and leaves `WInv` and
  `teleSafe` (Lemmas/PacmanStep.lean: the invariant `PM.Mid` of the middle of a step);
* **C02** `pacman_hist` (Props/PacmanHist.lean): under `PM.pmPre` the model's trace satisfies the judge `PM.specPM`;
* `pacman_example_grid_cfgWF_teleSafe` (Props/PacmanGrid.lean): the packaged `example_grid`, all 366 agents, by `decide +kernel`.
-/
namespace Abmarl
open World

/-! ## C01, C07 -/

theorem C01_Pacman (cfg : PM.Cfg) (n : Nat) (k : MKind) (hk : k ≠ .dynamic)
    (hl : k = .turnBased → ∃ a < n, cfg.isLearning a = true) (m0 : MState PM.St) (ops : List (Op Int)) :
    specC01 k n cfg.isLearning m0.shuffle (runOps (PM.toSimIface cfg n) k m0 ops) = true :=
  C01_managers_honour_done_protocol (PM.toSimIface cfg n) k (PM.pm_WF cfg n k hk hl) m0 ops

theorem C07_Pacman (cfg : PM.Cfg) (n : Nat) (k : MKind) (hk : k ≠ .dynamic)
    (hl : k = .turnBased → ∃ a < n, cfg.isLearning a = true) (m0 : MState PM.St) (ops : List (Op Int)) :
    specC07 k n cfg.isLearning (runOps (PM.toSimIface cfg n) k m0 ops) = true :=
  C07_fair_turns_and_progress (PM.toSimIface cfg n) k (PM.pm_WF cfg n k hk hl) m0 ops

theorem C07_Pacman_every_call_returns (cfg : PM.Cfg) (n : Nat) (k : MKind) (hk : k ≠ .dynamic)
    (hl : k = .turnBased → ∃ a < n, cfg.isLearning a = true) (m0 : MState PM.St) (ops : List (Op Int))
    (i : Nat) (e : Entry Int Ex.ObsOut Unit) (hi : (runOps (PM.toSimIface cfg n) k m0 ops)[i]? = some e)
    (hp : ProtocolOK {} (runOps (PM.toSimIface cfg n) k m0 ops) i) :
    ∀ er, e.res = .err er → er = .rejected :=
  C07_every_call_returns (PM.toSimIface cfg n) k (PM.pm_WF cfg n k hk hl) m0 ops i e hi hp

/-! ## reset: C03 / C08 -/

/-- a reset the class can make: a covered placement state, `HealthState` and `OrientationState`, in any order -/
structure PM.ResetOK (cfg : PM.Cfg) (w0 : World) (order : List StateComp) : Prop where
  ex : Ex.ResetOK cfg.toEx w0 order
  orient : StateComp.orient ∈ order

/-- **`reset` establishes the whole invariant** from ANY world with the constructed static part whose ammunition fields
are legal (no component of the class writes them): floating agents, dead agents, a dead pacman left in its cell by a step
that raised, any orientation. -/
theorem pacman_reset_establishes (cfg : PM.Cfg) (w0 w w' : World) (order : List StateComp) (t t' : Tape)
    (hcfg : CfgOK w0) (hR : PM.ResetOK cfg w0 order) (hF : SFrame w0 w) (hA : AmmoC w) (hN : NoAmmoC w)
    (h : applyComps order w t = .ok (w', t')) : w'.WInv = true ∧ SFrame w0 w' ∧ HealthC w' := by
  obtain ⟨k0, o0, hm0⟩ := hR.ex.pos
  have hH : StateComp.health ∈ order := hR.ex.health (Or.inl rfl)
  have hwf : ∀ kind o, StateComp.position kind o ∈ order → wfPlacement kind o w = true :=
    fun k o hm => by rw [wfPlacement_of_sframe hF]; exact hR.ex.wf k o hm
  have hwf0 := hwf k0 o0 hm0
  have hlen : w.st.length = w.cfg.length := by
    simp only [wfPlacement, Bool.and_eq_true, beq_iff_eq] at hwf0
    exact hwf0.1.1.1.2
  have hsym : w.wOverlapSym = true := by
    simp only [wfPlacement, Bool.and_eq_true] at hwf0
    exact hwf0.1.1.2
  obtain ⟨hS, hN', hP', hH', hA', hO'⟩ :=
    applyComps_spec order w t w' t' hwf (cfgOK_of_sframe hF hcfg) hR.ex.noClosed hlen h
  have hsym' : w'.wOverlapSym = true := by
    have hpk : w'.pairOK = w.pairOK := by funext a b; simp [pairOK, hS.overlap]
    simp only [wOverlapSym, hS.overlap, hpk] at hsym ⊢
    exact hsym
  have hHw' := hH' (Or.inl hH)
  exact ⟨WInv_of_clauses (hP' (Or.inl ⟨k0, o0, hm0⟩)) hHw' (hA' (Or.inr hA)) (hO' (Or.inl hR.orient)) (hN' hN) hsym',
    hF.trans hS, hHw'⟩

/-- **`reset` forgets**: two objects whose worlds agree on what the reset components do not overwrite (`Ex.SameBut`) and
whose oracle tapes agree are in the SAME state after `reset` — whatever their reward dicts and `step_count`s were -/
theorem pacman_reset_forgets (cfg : PM.Cfg) (order : List StateComp) (s1 s2 : PM.St)
    (hw : Ex.SameBut order s1.ex.w s2.ex.w) (ht : s1.ex.tape = s2.ex.tape) (hp : order.any StateComp.resetsPos = true) :
    PM.reset cfg order s1 = PM.reset cfg order s2 := by
  unfold PM.reset
  rw [Ex.reset_forgets cfg.toEx order s1.ex s2.ex hw ht hp]

/-- **C08, used versus fresh twin, under every manager** -/
theorem pacman_fresh_twin (cfg : PM.Cfg) (n : Nat) (k : MKind)
    (hl : k = .turnBased → (PM.toSimIface cfg n).learners ≠ []) (m1 m2 : MState PM.St)
    (hw : Ex.SameBut cfg.comps m1.sim.ex.w m2.sim.ex.w) (hp : cfg.comps.any StateComp.resetsPos = true)
    (hseed : m1.sim.ex.tape = m2.sim.ex.tape) (hok : ∃ s', PM.reset cfg cfg.comps m2.sim = .ok s')
    (hsh : m1.shuffle = m2.shuffle) (ht : m1.tape = m2.tape) (follow : List (Op Int)) :
    runOps (PM.toSimIface cfg n) k m1 (.reset :: follow) = runOps (PM.toSimIface cfg n) k m2 (.reset :: follow) := by
  apply runOps_reset_eq_of (PM.toSimIface cfg n) k hl m1 m2 ?_ hsh ht
  obtain ⟨s', hs'⟩ := hok
  have := pacman_reset_forgets cfg cfg.comps m1.sim m2.sim hw hseed hp
  simp only [PM.toSimIface, this, hs']

/-! ## C03 after steps: static part and vitals in every reachable state -/

namespace PM

/-- health within [0,1] and "active exactly when health is positive" -/
def HealthV (w : World) : Prop :=
  ∀ a < w.n, 0 ≤ (w.stOf a).health ∧ (w.stOf a).health ≤ 1 ∧ (w.stOf a).active = decide (0 < (w.stOf a).health)

/-- the vitals clauses of the C03 invariant -/
structure VitC (w : World) : Prop where
  health : HealthV w
  ammo : AmmoC w
  noAmmo : NoAmmoC w
  orient : OrientC w

theorem vitC_of_WInv {w : World} (hI : w.WInv = true) : VitC w := by
  refine ⟨?_, Ex.ammoC_of_WInv hI, noAmmoC_of_WInv hI, Ex.orientC_of_WInv hI⟩
  intro a ha
  have h := (wAgent_reading w a).mp (((WInv_parts_iff w).mp hI).2.2.1 a ha)
  exact ⟨h.2.1, h.2.2.1, h.2.2.2.1⟩

theorem vitC_of_vsame {w w' : World} (hV : VSame w w') (h : VitC w) : VitC w' := by
  have hn : w'.n = w.n := by simp only [World.n, hV.cfg]
  have hc : ∀ b, w'.cfgOf b = w.cfgOf b := by intro b; simp only [cfgOf, hV.cfg]
  refine ⟨?_, ?_, ?_, ?_⟩
  · intro a ha
    rw [hn] at ha
    obtain ⟨h0, h1, h2⟩ := h.health a ha
    rcases (hV.st a).2.1 with ⟨e1, e2⟩ | ⟨e1, e2⟩
    · rw [e1, e2]; exact ⟨h0, h1, h2⟩
    · rw [e1, e2]; exact ⟨le_refl _, by decide, by decide⟩
  · intro a ha hA
    rw [hn] at ha; rw [hc] at hA ⊢
    rw [(hV.st a).1]; exact h.ammo a ha hA
  · intro a ha hA
    rw [hn] at ha; rw [hc] at hA
    rw [(hV.st a).1]; exact h.noAmmo a ha hA
  · intro a ha hO
    rw [hn] at ha; rw [hc] at hO
    rcases (hV.st a).2.2 with e | e
    · rw [e]; exact h.orient a ha hO
    · exact e

/-- the state of a live object: nothing happened yet, or the static part is the constructed one and the vitals are legal -/
def GoodV (w0 : World) (s : St) : Prop :=
  match s.ex.rewards with
  | none => s.ex.w = w0
  | some _ => SFrame w0 s.ex.w ∧ VitC s.ex.w

def OpOK (cfg : Cfg) (w0 : World) : Op → Prop
  | .reset order _ => PM.ResetOK cfg w0 order
  | _ => True

theorem reset_goodV {cfg : Cfg} {w0 : World} (hcfg : CfgOK w0) (hA0 : AmmoC w0) (hN0 : NoAmmoC w0)
    {order : List StateComp} (hR : PM.ResetOK cfg w0 order) {s s' : St} (hG : GoodV w0 s)
    (h : reset cfg order s = .ok s') : s'.ex.rewards.isSome = true ∧ s'.ex.w.WInv = true ∧ SFrame w0 s'.ex.w ∧ s'.count = 0 := by
  unfold reset at h
  cases he : Ex.reset cfg.toEx order s.ex with
  | error e => rw [he] at h; cases h
  | ok e =>
    rw [he] at h
    simp only [Except.ok.injEq] at h
    subst h
    have hsh := Ex.reset_shape he
    unfold Ex.reset at he
    split at he
    · cases he
    · split at he
      · cases he
      · rename_i w' t' ha
        simp only [Except.ok.injEq] at he
        subst he
        refine ⟨rfl, ?_, ?_, rfl⟩
        all_goals
          unfold GoodV at hG
          cases hr : s.ex.rewards with
          | none =>
            rw [hr] at hG
            simp only at hG
            rw [hG] at ha
            have := pacman_reset_establishes cfg w0 w0 w' order _ t' hcfg hR (SFrame.refl w0) hA0 hN0 ha
            first | exact this.1 | exact this.2.1
          | some r =>
            rw [hr] at hG
            simp only at hG
            have := pacman_reset_establishes cfg w0 s.ex.w w' order _ t' hcfg hR hG.1 hG.2.ammo hG.2.noAmmo ha
            first | exact this.1 | exact this.2.1

theorem reset_inG {cfg : Cfg} {w0 : World} (hcfg : CfgOK w0) (hA0 : AmmoC w0) (hN0 : NoAmmoC w0)
    {order : List StateComp} (hR : PM.ResetOK cfg w0 order) {s s' : St} (hG : GoodV w0 s)
    (h : reset cfg order s = .ok s') : Ex.AllInGrid s'.ex.w := by
  unfold reset at h
  cases he : Ex.reset cfg.toEx order s.ex with
  | error e => rw [he] at h; cases h
  | ok e =>
    rw [he] at h
    simp only [Except.ok.injEq] at h
    subst h
    have hsh := Ex.reset_shape he
    unfold Ex.reset at he
    split at he
    · cases he
    · split at he
      · cases he
      · rename_i w' t' ha
        simp only [Except.ok.injEq] at he
        subst he
        all_goals
          unfold GoodV at hG
          cases hr : s.ex.rewards with
          | none =>
            rw [hr] at hG
            simp only at hG
            rw [hG] at ha
            have := pacman_reset_establishes cfg w0 w0 w' order _ t' hcfg hR (SFrame.refl w0) hA0 hN0 ha
            exact Ex.allInGrid_of_alive this.1 this.2.2
          | some r =>
            rw [hr] at hG
            simp only at hG
            have := pacman_reset_establishes cfg w0 s.ex.w w' order _ t' hcfg hR hG.1 hG.2.ammo hG.2.noAmmo ha
            exact Ex.allInGrid_of_alive this.1 this.2.2

theorem runOp_goodV {cfg : Cfg} {w0 : World} (hcfg : CfgOK w0) (hA0 : AmmoC w0) (hN0 : NoAmmoC w0)
    (s : St) (op : Op) (hop : OpOK cfg w0 op) (hG : GoodV w0 s) : GoodV w0 (runOp cfg s op).2 := by
  have hT : ∀ t, GoodV w0 (s.withTape t) := fun t => hG
  cases op with
  | reset order tape =>
    simp only [runOp]
    cases h : reset cfg order (s.withTape tape) with
    | error e => exact hG
    | ok s' =>
      obtain ⟨hs, hI, hF, _⟩ := reset_goodV hcfg hA0 hN0 hop (hT tape) h
      simp only
      unfold GoodV
      cases hr : s'.ex.rewards with
      | none => rw [hr] at hs; cases hs
      | some r => exact ⟨hF, vitC_of_WInv hI⟩
  | step acts tape =>
    simp only [runOp]
    have hV := step_vsame cfg (s.withTape tape) acts
    have hS := step_rewards_isSome cfg (s.withTape tape) acts
    have hG' := hT tape
    unfold GoodV at hG' ⊢
    cases hr : (s.withTape tape).ex.rewards with
    | none =>
      have : step cfg (s.withTape tape) acts = (s.withTape tape, some .other) := by
        unfold step; rw [hr]
      rw [this, hr]
      rw [hr] at hG'
      exact hG'
    | some r =>
      rw [hr] at hG' hS
      cases hr' : (step cfg (s.withTape tape) acts).1.ex.rewards with
      | none => rw [hr'] at hS; cases hS
      | some r' => exact ⟨hG'.1.trans hV.sframe, vitC_of_vsame hV hG'.2⟩
  | obs a tape =>
    simp only [runOp]
    cases h : getObs cfg (s.withTape tape) a with
    | error e => exact hG
    | ok r =>
      obtain ⟨o, s'⟩ := r
      unfold getObs at h
      cases he : Ex.getObs cfg.toEx (s.withTape tape).ex a with
      | error e => rw [he] at h; cases h
      | ok r2 =>
        obtain ⟨o2, e2⟩ := r2
        rw [he] at h
        simp only [Except.ok.injEq, Prod.mk.injEq] at h
        obtain ⟨t', rfl⟩ := Ex.getObs_shape he
        rw [← h.2]
        exact hG
  | rew a =>
    simp only [runOp]
    cases h : getReward cfg s a with
    | error e => exact hG
    | ok r =>
      obtain ⟨x, s'⟩ := r
      unfold getReward at h
      cases he : Ex.getReward cfg.toEx s.ex a with
      | error e => rw [he] at h; cases h
      | ok r2 =>
        obtain ⟨x2, e2⟩ := r2
        rw [he] at h
        simp only [Except.ok.injEq, Prod.mk.injEq] at h
        obtain ⟨r0, hr0, _, rfl⟩ := Ex.getReward_shape he
        rw [← h.2]
        unfold GoodV at hG ⊢
        rw [hr0] at hG
        exact hG
  | done a => exact hG
  | allDone => exact hG

theorem runOps_goodV {cfg : Cfg} {w0 : World} (hcfg : CfgOK w0) (hA0 : AmmoC w0) (hN0 : NoAmmoC w0) (ops : List Op) :
    ∀ (s : St), (∀ op ∈ ops, OpOK cfg w0 op) → GoodV w0 s → GoodV w0 (runOps cfg s ops).2 := by
  induction ops with
  | nil => intro s _ h; exact h
  | cons op ops ih =>
    intro s hops hG
    have h1 := runOp_goodV hcfg hA0 hN0 s op (hops op List.mem_cons_self) hG
    simp only [runOps]
    split
    · exact h1
    · exact ih _ (fun o ho => hops o (List.mem_cons_of_mem _ ho)) h1

end PM

/-- **C03 for `PacmanSim` / `PacmanSimSimple`, the part that holds in EVERY reachable state.**  From the constructed world
`w0` (configuration facts `CfgOK`, legal ammunition fields), after ANY history of resets (placement, health and orientation
states in any order: `PM.OpOK`), steps — ANY action dicts: in the declared spaces or not, without pacman, for dead agents,
walls, food or ids that do not exist; steps that returned and steps that RAISED, the history goes on with the state the raising
step left —, observations, reward reads and done queries: once a reset has returned, the world has the static part it was
built with and legal vitals: health within [0,1], an agent is active exactly when its health is positive, ammunition
untouched, orientation one of the four directions.  (The cell structure is `pacman_reachable_WInvFloat`, below.) -/
theorem pacman_reachable_inv (cfg : PM.Cfg) (w0 : World) (hcfg : CfgOK w0) (hA0 : AmmoC w0) (hN0 : NoAmmoC w0)
    (t0 : Tape) (ops : List PM.Op) (hops : ∀ op ∈ ops, PM.OpOK cfg w0 op) :
    let s := (PM.runOps cfg { ex := { w := w0, tape := t0 } } ops).2
    s.ex.rewards.isSome = true → SFrame w0 s.ex.w ∧ PM.VitC s.ex.w := by
  intro s hs
  have hG : PM.GoodV w0 s := PM.runOps_goodV hcfg hA0 hN0 ops _ hops rfl
  unfold PM.GoodV at hG
  cases hr : s.ex.rewards with
  | none => rw [hr] at hs; cases hs
  | some r => rw [hr] at hG; exact hG

/-- **… and whatever happened, the next `reset` re-establishes the whole `WInv`** and `step_count = 0` -/
theorem pacman_reset_after_anything (cfg : PM.Cfg) (w0 : World) (hcfg : CfgOK w0) (hA0 : AmmoC w0) (hN0 : NoAmmoC w0)
    (t0 : Tape) (ops : List PM.Op) (hops : ∀ op ∈ ops, PM.OpOK cfg w0 op) (order : List StateComp) (tape : Tape)
    (hR : PM.ResetOK cfg w0 order) (s' : PM.St)
    (h : PM.reset cfg order ((PM.runOps cfg { ex := { w := w0, tape := t0 } } ops).2.withTape tape) = .ok s') :
    s'.ex.w.WInv = true ∧ SFrame w0 s'.ex.w ∧ s'.count = 0 := by
  have hG : PM.GoodV w0 (PM.runOps cfg { ex := { w := w0, tape := t0 } } ops).2 :=
    PM.runOps_goodV hcfg hA0 hN0 ops _ hops rfl
  obtain ⟨_, hI, hF, hc⟩ := PM.reset_goodV hcfg hA0 hN0 hR (s := (PM.runOps cfg _ ops).2.withTape tape) hG h
  exact ⟨hI, hF, hc⟩

/-- the states a manager can drive the `SimIface` instance into -/
inductive PM.Reach (cfg : PM.Cfg) (w0 : World) (n : Nat) : PM.St → Prop where
  | init (t : Tape) : PM.Reach cfg w0 n { ex := { w := w0, tape := t } }
  | reset {s} : PM.Reach cfg w0 n s → PM.Reach cfg w0 n ((PM.toSimIface cfg n).reset s)
  | step {s} (acts) : PM.Reach cfg w0 n s → PM.Reach cfg w0 n ((PM.toSimIface cfg n).step s acts)
  | obs {s} (a) : PM.Reach cfg w0 n s → PM.Reach cfg w0 n ((PM.toSimIface cfg n).obs s a).2
  | reward {s} (a) : PM.Reach cfg w0 n s → PM.Reach cfg w0 n ((PM.toSimIface cfg n).reward s a).2

/-- … and so does every state the managers can reach -/
theorem pacman_simIface_reachable (cfg : PM.Cfg) (w0 : World) (n : Nat) (hcfg : CfgOK w0) (hA0 : AmmoC w0)
    (hN0 : NoAmmoC w0) (hR : PM.ResetOK cfg w0 cfg.comps) {s : PM.St} (h : PM.Reach cfg w0 n s) : PM.GoodV w0 s := by
  have hW : ∀ s : PM.St, s.withTape s.ex.tape = s := fun s => rfl
  induction h with
  | init t => rfl
  | @reset s _ ih =>
    have hg := PM.runOp_goodV hcfg hA0 hN0 s (.reset cfg.comps s.ex.tape) hR ih
    simp only [PM.runOp, hW] at hg
    simp only [PM.toSimIface]
    cases hr : PM.reset cfg cfg.comps s with
    | error e => exact ih
    | ok s' => simpa [hr] using hg
  | @step s acts _ ih =>
    have hg := PM.runOp_goodV (cfg := cfg) hcfg hA0 hN0 s (.step acts s.ex.tape) trivial ih
    simpa only [PM.runOp, hW, PM.toSimIface] using hg
  | @obs s a _ ih =>
    have hg := PM.runOp_goodV (cfg := cfg) hcfg hA0 hN0 s (.obs a s.ex.tape) trivial ih
    simp only [PM.runOp, hW] at hg
    simp only [PM.toSimIface]
    split <;> simp_all
  | @reward s a _ ih =>
    have hg := PM.runOp_goodV (cfg := cfg) hcfg hA0 hN0 s (.rew a) trivial ih
    simp only [PM.runOp] at hg
    simp only [PM.toSimIface]
    split <;> simp_all

/-! ## C03 after steps: the cell structure (`WInvFloat`) in every reachable state -/

namespace PM

/-- once a reset has returned the world satisfies `WInvFloat` and every stored position is a grid cell -/
def FloatS (s : St) : Prop := s.ex.rewards.isSome = true → WInvFloat s.ex.w = true ∧ Ex.AllInGrid s.ex.w

theorem runOp_floatS {cfg : Cfg} {w0 : World} (hcfg : CfgOK w0) (hA0 : AmmoC w0) (hN0 : NoAmmoC w0)
    (s : St) (op : Op) (hop : OpOK cfg w0 op) (hG : GoodV w0 s) (hF : FloatS s) : FloatS (runOp cfg s op).2 := by
  have hT : ∀ t, FloatS (s.withTape t) := fun t => hF
  cases op with
  | reset order tape =>
    simp only [runOp]
    cases h : reset cfg order (s.withTape tape) with
    | error e => exact hF
    | ok s' =>
      obtain ⟨_, hI, _, _⟩ := reset_goodV hcfg hA0 hN0 hop (s := s.withTape tape) hG h
      exact fun _ => ⟨WInvFloat_of_WInv hI, reset_inG hcfg hA0 hN0 hop (s := s.withTape tape) hG h⟩
  | step acts tape =>
    simp only [runOp]
    intro hs
    rw [step_rewards_isSome] at hs
    exact ⟨step_float cfg (s.withTape tape) acts (hT tape hs).1,
      step_prim prim_inG cfg (s.withTape tape) acts (hT tape hs).2⟩
  | obs a tape =>
    simp only [runOp]
    cases h : getObs cfg (s.withTape tape) a with
    | error e => exact hF
    | ok r =>
      obtain ⟨o, s'⟩ := r
      unfold getObs at h
      cases he : Ex.getObs cfg.toEx (s.withTape tape).ex a with
      | error e => rw [he] at h; cases h
      | ok r2 =>
        obtain ⟨o2, e2⟩ := r2
        rw [he] at h
        simp only [Except.ok.injEq, Prod.mk.injEq] at h
        obtain ⟨t', rfl⟩ := Ex.getObs_shape he
        rw [← h.2]
        exact hF
  | rew a =>
    simp only [runOp]
    cases h : getReward cfg s a with
    | error e => exact hF
    | ok r =>
      obtain ⟨x, s'⟩ := r
      unfold getReward at h
      cases he : Ex.getReward cfg.toEx s.ex a with
      | error e => rw [he] at h; cases h
      | ok r2 =>
        obtain ⟨x2, e2⟩ := r2
        rw [he] at h
        simp only [Except.ok.injEq, Prod.mk.injEq] at h
        obtain ⟨r0, hr0, _, rfl⟩ := Ex.getReward_shape he
        rw [← h.2]
        intro _
        exact hF (by rw [hr0]; rfl)
  | done a => exact hF
  | allDone => exact hF

theorem runOps_floatS {cfg : Cfg} {w0 : World} (hcfg : CfgOK w0) (hA0 : AmmoC w0) (hN0 : NoAmmoC w0) (ops : List Op) :
    ∀ (s : St), (∀ op ∈ ops, OpOK cfg w0 op) → GoodV w0 s → FloatS s → FloatS (runOps cfg s ops).2 := by
  induction ops with
  | nil => intro s _ _ h; exact h
  | cons op ops ih =>
    intro s hops hG hF
    have h1 := runOp_goodV hcfg hA0 hN0 s op (hops op List.mem_cons_self) hG
    have h2 := runOp_floatS hcfg hA0 hN0 s op (hops op List.mem_cons_self) hG hF
    simp only [runOps]
    split
    · exact h2
    · exact ih _ (fun o ho => hops o (List.mem_cons_of_mem _ ho)) h1 h2

end PM

/-- **C03 for `PacmanSim` / `PacmanSimSimple`: the cell structure in EVERY reachable state.**  From the constructed world
`w0`, after ANY history of resets (`PM.OpOK`), steps — ANY action dicts, steps that returned and steps that RAISED (the history
goes on with the state the raising step left) —, observations, reward reads and done queries: once a reset has returned, the
world satisfies `PM.WInvFloat` — the tables have their shape, no cell holds an id twice, whoever is stored in a cell is an agent
of the simulation whose stored position is that cell (inside the grid), no two occupants of a cell have encodings that may not
overlap, the vitals are legal and the overlap table is symmetric.  (`WInvFloat` is `WInv` without "stored ⇒ active" and
"active ⇒ stored", the two clauses the class does NOT keep: `pacman_refused_teleport_witness`,
`pacman_teleport_outside_grid_raises`.) -/
theorem pacman_reachable_WInvFloat (cfg : PM.Cfg) (w0 : World) (hcfg : CfgOK w0) (hA0 : AmmoC w0) (hN0 : NoAmmoC w0)
    (t0 : Tape) (ops : List PM.Op) (hops : ∀ op ∈ ops, PM.OpOK cfg w0 op) :
    let s := (PM.runOps cfg { ex := { w := w0, tape := t0 } } ops).2
    s.ex.rewards.isSome = true → PM.WInvFloat s.ex.w = true := by
  intro s hs
  exact (PM.runOps_floatS hcfg hA0 hN0 ops { ex := { w := w0, tape := t0 } } hops rfl (fun h => by cases h) hs).1

/-- … and the stored position of EVERY agent of the simulation — active, dead, floating after a refused teleport — is a
cell of the grid -/
theorem pacman_reachable_positions_in_grid (cfg : PM.Cfg) (w0 : World) (hcfg : CfgOK w0) (hA0 : AmmoC w0) (hN0 : NoAmmoC w0)
    (t0 : Tape) (ops : List PM.Op) (hops : ∀ op ∈ ops, PM.OpOK cfg w0 op) :
    let s := (PM.runOps cfg { ex := { w := w0, tape := t0 } } ops).2
    s.ex.rewards.isSome = true → ∀ a < w0.n, s.ex.w.inGrid (s.ex.w.stOf a).pos = true := by
  intro s hs a ha
  have hF := (pacman_reachable_inv cfg w0 hcfg hA0 hN0 t0 ops hops hs).1
  exact (PM.runOps_floatS hcfg hA0 hN0 ops { ex := { w := w0, tape := t0 } } hops rfl (fun h => by cases h) hs).2 a (by rw [sframe_n hF]; exact ha)

/-- **observations of `PacmanSim` / `PacmanSimSimple` lie in the declared space, in every reachable state**: after any
history as in `pacman_reachable_WInvFloat` (steps that raised included), once a reset has returned, for EVERY agent of the
simulation — active, dead and still stored in its cell, floating in no cell after a refused teleport — every observer list the
simulation was built with and every tape, `get_obs` returns, and `Ex.obsInSpace` holds: the key list of the observation dict is
exactly the declared one and every value lies in the space its observer declared.  (The world may violate `WInv`; no transport
to a `WInv` world exists — an active agent stored nowhere shades the masks from an empty cell —, so the observer theorems are
re-proved from `WInvFloat`: Lemmas/PacmanObs.lean.)  Hypotheses as in `examples_observations_in_space`: positive encodings,
non-negative initial ammunition. -/
theorem pacman_observations_in_space (cfg : PM.Cfg) (w0 : World) (hcfg : CfgOK w0) (hA0 : AmmoC w0) (hN0 : NoAmmoC w0)
    (t0 : Tape) (ops : List PM.Op) (hops : ∀ op ∈ ops, PM.OpOK cfg w0 op)
    (henc : ∀ b < w0.n, 0 < w0.encOf b) (hammo : ∀ b < w0.n, 0 ≤ (w0.cfgOf b).initAmmo)
    (ks : List Observers.Kind) (hks : cfg.observers = some ks) (a : Aid) (ha : a < w0.n) :
    let s := (PM.runOps cfg { ex := { w := w0, tape := t0 } } ops).2
    s.ex.rewards.isSome = true →
    ∀ t, ∃ o s', PM.getObs cfg (s.withTape t) a = .ok (o, s') ∧ Ex.obsInSpace s.ex.w a ks o = true := by
  intro s hs t
  have hF := (pacman_reachable_inv cfg w0 hcfg hA0 hN0 t0 ops hops hs).1
  have hW := PM.runOps_floatS hcfg hA0 hN0 ops { ex := { w := w0, tape := t0 } } hops rfl (fun h => by cases h) hs
  have hn : s.ex.w.n = w0.n := sframe_n hF
  exact PM.getObs_float cfg (s.withTape t) a ks hks hs hW.1 hW.2 (show a < s.ex.w.n by rw [hn]; exact ha)
    (fun b (hb : b < s.ex.w.n) => show 0 < s.ex.w.encOf b by
      rw [sframe_encOf hF]; exact henc b (by rw [← hn]; exact hb))
    (fun b (hb : b < s.ex.w.n) => show 0 ≤ (s.ex.w.cfgOf b).initAmmo by
      rw [sframe_cfgOf hF]; exact hammo b (by rw [← hn]; exact hb))

/-- … and so does every state the managers can reach through `PM.toSimIface` -/
theorem pacman_simIface_WInvFloat (cfg : PM.Cfg) (w0 : World) (n : Nat) (hcfg : CfgOK w0) (hA0 : AmmoC w0)
    (hN0 : NoAmmoC w0) (hR : PM.ResetOK cfg w0 cfg.comps) {s : PM.St} (h : PM.Reach cfg w0 n s) : PM.FloatS s := by
  have hW : ∀ s : PM.St, s.withTape s.ex.tape = s := fun s => rfl
  induction h with
  | init t => exact fun h => by cases h
  | @reset s hr ih =>
    have hG := pacman_simIface_reachable cfg w0 n hcfg hA0 hN0 hR hr
    have hg := PM.runOp_floatS hcfg hA0 hN0 s (.reset cfg.comps s.ex.tape) hR hG ih
    simp only [PM.runOp, hW] at hg
    simp only [PM.toSimIface]
    cases hr : PM.reset cfg cfg.comps s with
    | error e => exact ih
    | ok s' => simpa [hr] using hg
  | @step s acts hr ih =>
    have hG := pacman_simIface_reachable cfg w0 n hcfg hA0 hN0 hR hr
    have hg := PM.runOp_floatS (cfg := cfg) hcfg hA0 hN0 s (.step acts s.ex.tape) trivial hG ih
    simpa only [PM.runOp, hW, PM.toSimIface] using hg
  | @obs s a hr ih =>
    have hG := pacman_simIface_reachable cfg w0 n hcfg hA0 hN0 hR hr
    have hg := PM.runOp_floatS (cfg := cfg) hcfg hA0 hN0 s (.obs a s.ex.tape) trivial hG ih
    simp only [PM.runOp, hW] at hg
    simp only [PM.toSimIface]
    split <;> simp_all
  | @reward s a hr ih =>
    have hG := pacman_simIface_reachable cfg w0 n hcfg hA0 hN0 hR hr
    have hg := PM.runOp_floatS (cfg := cfg) hcfg hA0 hN0 s (.rew a) trivial hG ih
    simp only [PM.runOp] at hg
    simp only [PM.toSimIface]
    split <;> simp_all


/-! ## C02 / C03: a step that must not raise -/

/-- **a `step` from a `PM.stepPre` state returns and leaves the whole invariant.**  `PM.stepPre cfg w r acts` is the explicit
decidable hypothesis of the judge: `w` satisfies `WInv`, pacman is alive, everybody but pacman and the food is alive, the
documented agent mix `PM.cfgWF`, the usable teleport cells `PM.teleSafe`, the action dict holds points of `Discrete(5)` for
pacman and for some of the other learning agents (distinct keys), every learning agent has a reward entry.  Then, for EVERY
such configuration (either class), world, reward dict, action dict, tape and `step_count`: `step` does not raise, the world
it leaves satisfies `WInv` again — although in between it does not: a pacman eaten in the first overlap loop of `PacmanSim`
stays in its cell, dead, while the baddies move and until the last statement takes it out —, and `teleSafe` still holds (so
the next step from it is covered too, as long as pacman lives). -/
theorem pacman_step_keeps_WInv (cfg : PM.Cfg) (s : PM.St) (r : Ex.Ledger) (acts : List (Aid × Int))
    (hr : s.ex.rewards = some r) (hpre : PM.stepPre cfg s.ex.w r acts = true) :
    (PM.step cfg s acts).2 = none ∧ (PM.step cfg s acts).1.ex.w.WInv = true ∧
    PM.teleSafe cfg (PM.step cfg s acts).1.ex.w = true :=
  PM.step_of_stepPre cfg s r acts hr hpre

/-- **C02: every action drawn from the declared action spaces is processed without error** — `pacman_step_keeps_WInv`, the
clause the judge `PM.specPM` uses for a step that raised -/
theorem pacman_step_noRaise (cfg : PM.Cfg) (s : PM.St) (r : Ex.Ledger) (acts : List (Aid × Int))
    (hr : s.ex.rewards = some r) (hpre : PM.stepPre cfg s.ex.w r acts = true) : (PM.step cfg s acts).2 = none :=
  (pacman_step_keeps_WInv cfg s r acts hr hpre).1

/-! ## Formerly "Stated, not proved"

`pacman_reachable_WInvFloat`, `pacman_observations_in_space`, `pacman_step_keeps_WInv`, `pacman_step_noRaise` are theorems
above; `pacman_hist` is in Props/PacmanHist.lean, the packaged `example_grid` in Props/PacmanGrid.lean. -/

/-! ## Witnesses -/

/-- a 10×2 corridor world: pacman (0) at (9,1), a baddie (1) at (9,0)… used with several overlap tables -/
def exPMWorld (ov : List (Int × List Int)) (cols : Nat) (ppos bpos : Pos) : World :=
  { rows := 10, cols := cols, overlap := ov, cells := List.replicate (10 * cols) [],
    cfg := [{ enc := 1, initPos := some ppos, initHealth := some 1, moving := true, moveRange := 1, hasOrient := true,
              initOrient := some 1, observing := true, viewRange := 1 },
            { enc := 4, initPos := some bpos, initHealth := some 1, moving := true, moveRange := 1, hasOrient := true,
              initOrient := some 1, observing := true, viewRange := 0 },
            { enc := 3, initPos := some (8, 0), initHealth := some 1 }],
    st := [{}, {}, {}] }

def exPMCfg (simple : Bool) : PM.Cfg :=
  { simple := simple, learning := [true, true, false], comps := [.health, .orient, .position .position {}],
    observers := some [.absolute], pacman := 0, food := [2], baddies := [1] }

def exPMReset : PM.Op := .reset [.health, .orient, .position .position {}] []

/-- **the teleport works on a grid with the hard-coded 21 columns**: pacman at (9,1) facing left walks onto (9,0) and is
teleported to (9,20); the world satisfies `WInv`, the reward is the entropy −0.01 -/
example :
    let tr := (PM.runOps (exPMCfg false) { ex := { w := exPMWorld [(1, [3, 4]), (4, [1, 3, 4]), (3, [1, 4])] 21 (9, 1) (0, 5) } }
      [exPMReset, .step [(0, 1), (1, 0)] [], .rew 0]).1
    tr.map (fun e => (e.res, e.w.WInv, (e.w.stOf 0).pos)) =
      [(.unit, true, (9, 1)), (.unit, true, (9, 20)), (.int (-1), true, (9, 20))] := by
  decide +kernel

/-- **teleport target outside the grid** (`PacmanSim` on a grid with fewer than 21 columns — here the 19 columns of
`PacmanSimSimple.example_grid`): `grid.place(pacman, (9, 20))` raises `IndexError` AFTER `grid.remove`: pacman is active,
keeps `position = (9, 0)` and is stored in no cell (`WInv` false, `WInvFloat` true); the next step raises `KeyError`.
Outside the documented domain ("we hardcode the corridor-teleportation feature"): modelled, not a finding. -/
theorem pacman_teleport_outside_grid_raises :
    let tr := (PM.runOps (exPMCfg false) { ex := { w := exPMWorld [(1, [3, 4]), (4, [1, 3, 4]), (3, [1, 4])] 19 (9, 1) (0, 5) } }
      [exPMReset, .step [(0, 1), (1, 0)] [], .step [(0, 3), (1, 0)] []]).1
    tr.map (fun e => (e.res, e.w.WInv, PM.WInvFloat e.w, (e.w.stOf 0).pos, (e.w.stOf 0).active && (e.w.cell (9, 0)).isEmpty)) =
      [(.unit, true, true, (9, 1), true), (.err .badIndex, false, true, (9, 0), true),
       (.err .keyError, false, true, (9, 0), true)] := by
  decide +kernel

/-- **candidate finding P1: a refused teleport** — the standard 21 columns, an overlap table in which pacman may not share
a cell with a baddie (`{1: {3}, 4: {3, 4}}`), a baddie standing on (9,20): pacman walks onto (9,0), `grid.remove` takes it out
of its cell, `grid.place(pacman, (9, 20))` returns `False`, which nobody looks at: NO exception, pacman is active, in no cell,
`position = (9, 0)` (C03: "every active agent is stored in exactly one grid cell" fails, `WInv` false); every later `step`
with an in-space action for pacman raises `KeyError` (C02).  `PM.teleSafe` excludes the overlap table. -/
theorem pacman_refused_teleport_witness :
    let w0 := exPMWorld [(1, [3]), (4, [3, 4]), (3, [1, 4])] 21 (9, 1) (9, 20)
    let tr := (PM.runOps (exPMCfg false) { ex := { w := w0 } }
      [exPMReset, .step [(0, 1), (1, 0)] [], .step [(0, 0), (1, 0)] [], .step [(0, 3), (1, 0)] []]).1
    tr.map (fun e => (e.res, e.w.WInv, PM.WInvFloat e.w, (e.w.stOf 0).pos, (e.w.stOf 0).active)) =
      [(.unit, true, true, (9, 1), true), (.unit, false, true, (9, 0), true),
       (.err .keyError, false, true, (9, 0), true), (.err .keyError, false, true, (9, 0), true)] ∧
    PM.teleSafe (exPMCfg false) ((PM.runOps (exPMCfg false) { ex := { w := w0 } } [exPMReset]).2.ex.w) = false := by
  decide +kernel

/-- **`get_all_done` as it is**: pacman eats the only piece of food (reward +0.1 −0.01) and `get_all_done` stays `False`
— the eaten `FoodAgent` is still in `self.agents` (the docstring says "done if it dies or if all the food is gone"). -/
theorem pacman_allDone_ignores_eaten_food :
    let w0 := { exPMWorld [(1, [3, 4]), (4, [1, 3, 4]), (3, [1, 4])] 21 (8, 1) (0, 5) with
                cfg := (exPMWorld [] 21 (8, 1) (0, 5)).cfg }
    let tr := (PM.runOps (exPMCfg false) { ex := { w := w0 } } [exPMReset, .step [(0, 1), (1, 0)] [], .rew 0, .allDone]).1
    tr.map (fun e => (e.res, (e.w.stOf 2).active, e.w.WInv)) =
      [(.unit, true, true), (.unit, false, true), (.int 9, false, true), (.bool false, false, true)] := by
  decide +kernel

/-- **`PacmanSimSimple` with fewer than five baddies**: the very first step raises `KeyError` (`self.agents['baddie_2']`),
after pacman has moved and collected its reward (the state the raising step leaves) and WITHOUT `step_count += 1`.
Outside the documented domain ("assumes a specific grid configuration"; `PM.cfgWF` asks for the five ids). -/
theorem pacmansimple_few_baddies_raises :
    let cfg := { exPMCfg true with named := [some 1, none, none, none, none], scheme := { kill := none } }
    let tr := (PM.runOps cfg { ex := { w := exPMWorld [(1, [3, 4]), (4, [1, 3, 4]), (3, [1, 4])] 19 (9, 5) (0, 5) } }
      [exPMReset, .step [(0, 1)] [], .rew 0]).1
    tr.map (fun e => (e.res, (e.w.stOf 0).pos, e.count)) =
      [(.unit, (9, 5), 0), (.err .keyError, (9, 4), 0), (.int (-1), (9, 4), 0)] ∧
    PM.cfgWF cfg (exPMWorld [] 19 (9, 5) (0, 5)) = false := by
  decide +kernel

/-- the hypotheses of `pacman_reachable_inv` are inhabited (the history of the refused teleport, raising steps included) -/
example :
    let w0 := exPMWorld [(1, [3]), (4, [3, 4]), (3, [1, 4])] 21 (9, 1) (9, 20)
    let s := (PM.runOps (exPMCfg false) { ex := { w := w0 } }
      [exPMReset, .step [(0, 1), (1, 0)] [], .step [(0, 0), (1, 0)] []]).2
    SFrame w0 s.ex.w ∧ PM.VitC s.ex.w :=
  pacman_reachable_inv (exPMCfg false) _ ((cfgOKb_iff _).mp (by decide +kernel))
    (fun a _ h => by
      have : a = 0 ∨ a = 1 ∨ a = 2 ∨ 3 ≤ a := by omega
      rcases this with rfl | rfl | rfl | h3
      · cases h
      · cases h
      · cases h
      · simp [World.cfgOf, exPMWorld, List.getD_eq_getElem?_getD, List.getElem?_eq_none, h3] at h)
    ((noAmmoCb_iff _).mp (by decide +kernel)) [] _
    (fun op hop => by
      simp only [List.mem_cons, List.mem_nil_iff, or_false] at hop
      rcases hop with rfl | rfl | rfl
      · exact ⟨Ex.resetOK_of_b (by decide +kernel), by simp [exPMReset]⟩
      · trivial
      · trivial)
    (by decide +kernel)

/-- `pacman_reachable_WInvFloat` is not vacuous: the history of the refused teleport (a raising step included) ends in a
world that satisfies `WInvFloat` by the theorem — and NOT `WInv` -/
example :
    let w0 := exPMWorld [(1, [3]), (4, [3, 4]), (3, [1, 4])] 21 (9, 1) (9, 20)
    let s := (PM.runOps (exPMCfg false) { ex := { w := w0 } }
      [exPMReset, .step [(0, 1), (1, 0)] [], .step [(0, 0), (1, 0)] []]).2
    PM.WInvFloat s.ex.w = true ∧ s.ex.w.WInv = false :=
  ⟨pacman_reachable_WInvFloat (exPMCfg false) _ ((cfgOKb_iff _).mp (by decide +kernel))
    (fun a _ h => by
      have : a = 0 ∨ a = 1 ∨ a = 2 ∨ 3 ≤ a := by omega
      rcases this with rfl | rfl | rfl | h3
      · cases h
      · cases h
      · cases h
      · simp [World.cfgOf, exPMWorld, List.getD_eq_getElem?_getD, h3] at h)
    ((noAmmoCb_iff _).mp (by decide +kernel)) [] _
    (fun op hop => by
      simp only [List.mem_cons, List.mem_nil_iff, or_false] at hop
      rcases hop with rfl | rfl | rfl
      · exact ⟨Ex.resetOK_of_b (by decide +kernel), by simp [exPMReset]⟩
      · trivial
      · trivial)
    (by decide +kernel), by decide +kernel⟩

/-- `pacman_observations_in_space` is not vacuous: the observation of pacman, ACTIVE and stored in NO cell after the refused
teleport (the world violates `WInv`) -/
example :
    let w0 := exPMWorld [(1, [3]), (4, [3, 4]), (3, [1, 4])] 21 (9, 1) (9, 20)
    let s := (PM.runOps (exPMCfg false) { ex := { w := w0 } }
      [exPMReset, .step [(0, 1), (1, 0)] [], .step [(0, 0), (1, 0)] []]).2
    ∃ o s', PM.getObs (exPMCfg false) (s.withTape []) 0 = .ok (o, s') ∧ Ex.obsInSpace s.ex.w 0 [.absolute] o = true :=
  pacman_observations_in_space (exPMCfg false) _ ((cfgOKb_iff _).mp (by decide +kernel))
    (fun a _ h => by
      have : a = 0 ∨ a = 1 ∨ a = 2 ∨ 3 ≤ a := by omega
      rcases this with rfl | rfl | rfl | h3
      · cases h
      · cases h
      · cases h
      · simp [World.cfgOf, exPMWorld, List.getD_eq_getElem?_getD, h3] at h)
    ((noAmmoCb_iff _).mp (by decide +kernel)) [] _
    (fun op hop => by
      simp only [List.mem_cons, List.mem_nil_iff, or_false] at hop
      rcases hop with rfl | rfl | rfl
      · exact ⟨Ex.resetOK_of_b (by decide +kernel), by simp [exPMReset]⟩
      · trivial
      · trivial)
    (by decide +kernel) (by decide +kernel) [.absolute] rfl 0 (by decide) (by decide +kernel) []

/-- `pacman_step_keeps_WInv` is not vacuous: after `reset` on the 21-column world the teleporting step satisfies `stepPre`
(`PacmanSim`) -/
example :
    let s := (PM.runOps (exPMCfg false) { ex := { w := exPMWorld [(1, [3, 4]), (4, [1, 3, 4]), (3, [1, 4])] 21 (9, 1) (0, 5) } }
      [exPMReset]).2
    PM.stepPre (exPMCfg false) s.ex.w [(0, 0), (1, 0)] [(0, 1), (1, 0)] = true ∧ s.ex.rewards = some [(0, 0), (1, 0)] ∧
    (PM.step (exPMCfg false) s [(0, 1), (1, 0)]).2 = none := by
  intro s
  have h1 : PM.stepPre (exPMCfg false) s.ex.w [(0, 0), (1, 0)] [(0, 1), (1, 0)] = true := by decide +kernel
  have h2 : s.ex.rewards = some [(0, 0), (1, 0)] := by decide +kernel
  exact ⟨h1, h2, pacman_step_noRaise (exPMCfg false) s _ _ h2 h1⟩

/-- a `PacmanSimSimple` world: 10×19, pacman (0) at (9,1), `baddie_0 … baddie_4` (1…5) in row 0, a piece of food (6) on (9,18) -/
def exPMWorldS : World :=
  let baddie (c : Int) : AgentCfg :=
    { enc := 4, initPos := some (0, c), initHealth := some 1, moving := true, moveRange := 1, hasOrient := true,
      initOrient := some 1, observing := true, viewRange := 0 }
  { rows := 10, cols := 19, overlap := [(1, [3, 4]), (4, [1, 3, 4]), (3, [1, 4])], cells := List.replicate 190 [],
    cfg := [{ enc := 1, initPos := some (9, 1), initHealth := some 1, moving := true, moveRange := 1, hasOrient := true,
              initOrient := some 1, observing := true, viewRange := 1 },
            baddie 2, baddie 4, baddie 6, baddie 8, baddie 10, { enc := 3, initPos := some (9, 18), initHealth := some 1 }],
    st := [{}, {}, {}, {}, {}, {}, {}] }

def exPMCfgS : PM.Cfg :=
  { simple := true, learning := [true, true, true, true, true, true, false], comps := [.health, .orient, .position .position {}],
    observers := some [.absolute], pacman := 0, food := [6], baddies := [1, 2, 3, 4, 5], scheme := { kill := none },
    named := [some 1, some 2, some 3, some 4, some 5] }

/-- … and for `PacmanSimSimple`: pacman walks onto (9,0), is teleported to (9,18) and eats the food there, then the five
scripted baddies move; `stepPre` holds, so the step returns and leaves `WInv` by the theorem -/
example :
    let s := (PM.runOps exPMCfgS { ex := { w := exPMWorldS } } [exPMReset]).2
    s.ex.rewards = some [(0, 0), (1, 0), (2, 0), (3, 0), (4, 0), (5, 0)] ∧
    PM.stepPre exPMCfgS s.ex.w [(0, 0), (1, 0), (2, 0), (3, 0), (4, 0), (5, 0)] [(0, 1)] = true ∧
    ((PM.step exPMCfgS s [(0, 1)]).1.ex.w.stOf 0).pos = (9, 18) ∧ ((PM.step exPMCfgS s [(0, 1)]).1.ex.w.stOf 6).active = false ∧
    (PM.step exPMCfgS s [(0, 1)]).1.ex.w.WInv = true := by
  intro s
  have h2 : s.ex.rewards = some [(0, 0), (1, 0), (2, 0), (3, 0), (4, 0), (5, 0)] := by decide +kernel
  have h1 : PM.stepPre exPMCfgS s.ex.w [(0, 0), (1, 0), (2, 0), (3, 0), (4, 0), (5, 0)] [(0, 1)] = true := by decide +kernel
  exact ⟨h2, h1, by decide +kernel, by decide +kernel, (pacman_step_keeps_WInv exPMCfgS s _ _ h2 h1).2.1⟩

/-- the manager theorems are inhabited: an all-step run over the 21-column world -/
example : specC01 .allStep 3 (exPMCfg false).isLearning false
    (runOps (PM.toSimIface (exPMCfg false) 3) .allStep
      (mgrInit ({ ex := { w := exPMWorld [(1, [3, 4]), (4, [1, 3, 4]), (3, [1, 4])] 21 (9, 1) (0, 5) } } : PM.St) false [])
      [.reset, .step [(0, 1), (1, 0)]]) = true :=
  C01_Pacman (exPMCfg false) 3 .allStep (by decide) (fun h => by cases h)
    (mgrInit ({ ex := { w := exPMWorld [(1, [3, 4]), (4, [1, 3, 4]), (3, [1, 4])] 21 (9, 1) (0, 5) } } : PM.St) false [])
    [.reset, .step [(0, 1), (1, 0)]]

end Abmarl
