import Abmarl.Props.Pacman
import Abmarl.Lemmas.PacmanKeys
/-!
# `PacmanSim` / `PacmanSimSimple`: the model's own trace passes the judge `PM.specPM` (`pacman_hist`)

Under the class's precondition `PM.pmPre` (the world as the constructors leave it, the history starts with a reset, every
reset holds a covered placement state, `HealthState` and `OrientationState`) — and NOTHING about the steps: any action dicts,
steps that raise in the middle of a history — the trace `PM.runOps` computes satisfies `PM.specPM`, for every configuration,
history and tape: `WInv` after a reset, `WInvFloat` after EVERY step, `WInv` and no exception after a step from a `stepPre`
state, observations in the declared space, read-and-reset rewards, the done getters, `step_count`, the frame of every call.
-/
namespace Abmarl
namespace PM
open World Ex

/-- what the judge's preconditions say about the constructed world -/
structure PreOK (w0 : World) : Prop where
  cfgok : CfgOK w0
  ammo : AmmoC w0
  noAmmo : NoAmmoC w0
  enc : ∀ b < w0.n, 0 < w0.encOf b
  iammo : ∀ b < w0.n, 0 ≤ (w0.cfgOf b).initAmmo

/-- the invariant of a live object -/
def GoodP (cfg : Cfg) (w0 : World) (s : St) : Prop :=
  GoodV w0 s ∧ FloatS s ∧ (cfg.simple = false → s.count = 0)

theorem reset_rewards {cfg : Cfg} {order : List StateComp} {s s' : St} (h : reset cfg order s = .ok s') :
    s'.ex.rewards = some (Ex.zeroRewards cfg.toEx s'.ex.w.n) ∧ s'.count = 0 := by
  unfold reset at h
  cases he : Ex.reset cfg.toEx order s.ex with
  | error e => rw [he] at h; cases h
  | ok e =>
    rw [he] at h
    simp only [Except.ok.injEq] at h
    subst h
    exact ⟨Ex.reset_shape he, rfl⟩

theorem runOp_count0 {cfg : Cfg} (s : St) (op : Op) (h : cfg.simple = false → s.count = 0) :
    cfg.simple = false → (runOp cfg s op).2.count = 0 := by
  intro hs
  cases op with
  | reset order tape =>
    simp only [runOp]
    cases hr : reset cfg order (s.withTape tape) with
    | error e => exact h hs
    | ok s' => exact (reset_rewards hr).2
  | step acts tape =>
    simp only [runOp]
    rw [(step_count cfg (s.withTape tape) acts).1 hs]
    exact h hs
  | obs a tape =>
    simp only [runOp]
    cases hr : getObs cfg (s.withTape tape) a with
    | error e => exact h hs
    | ok r =>
      obtain ⟨o, s'⟩ := r
      unfold getObs at hr
      split at hr
      · cases hr
      · simp only [Except.ok.injEq, Prod.mk.injEq] at hr
        rw [← hr.2]; exact h hs
  | rew a =>
    simp only [runOp]
    cases hr : getReward cfg s a with
    | error e => exact h hs
    | ok r =>
      obtain ⟨o, s'⟩ := r
      unfold getReward at hr
      split at hr
      · cases hr
      · simp only [Except.ok.injEq, Prod.mk.injEq] at hr
        rw [← hr.2]; exact h hs
  | done a => exact h hs
  | allDone => exact h hs

theorem runOp_goodP {cfg : Cfg} {w0 : World} (hW : PreOK w0) (s : St) (op : Op) (hop : OpOK cfg w0 op)
    (hG : GoodP cfg w0 s) : GoodP cfg w0 (runOp cfg s op).2 :=
  ⟨runOp_goodV hW.cfgok hW.ammo hW.noAmmo s op hop hG.1, runOp_floatS hW.cfgok hW.ammo hW.noAmmo s op hop hG.1 hG.2.1,
   runOp_count0 s op hG.2.2⟩

/-- what the trace shows after a call is the state the model is in -/
theorem runOp_entry (cfg : Cfg) (s : St) (op : Op) :
    (runOp cfg s op).1.w = (runOp cfg s op).2.ex.w ∧ (runOp cfg s op).1.rewards = (runOp cfg s op).2.ex.rewards ∧
    (runOp cfg s op).1.count = (runOp cfg s op).2.count := by
  cases op with
  | reset order tape => simp only [runOp]; split <;> exact ⟨rfl, rfl, rfl⟩
  | step acts tape => exact ⟨rfl, rfl, rfl⟩
  | obs a tape => simp only [runOp]; split <;> exact ⟨rfl, rfl, rfl⟩
  | rew a => simp only [runOp]; split <;> exact ⟨rfl, rfl, rfl⟩
  | done a => exact ⟨rfl, rfl, rfl⟩
  | allDone => exact ⟨rfl, rfl, rfl⟩

/-- **one call of the model passes the judge** -/
theorem judge1_model {cfg : Cfg} {w0 : World} (hW : PreOK w0) (s : St) (op : Op) (hop : OpOK cfg w0 op)
    (hG : GoodP cfg w0 s) : judge1 cfg w0 ⟨s.ex.w, s.ex.rewards, s.count⟩ op (runOp cfg s op).1 = true := by
  cases op with
  | reset order tape =>
    simp only [runOp]
    cases h : reset cfg order (s.withTape tape) with
    | error e => simp [judge1, entryOf]
    | ok s' =>
      obtain ⟨_, hI, hF, hc⟩ := reset_goodV hW.cfgok hW.ammo hW.noAmmo hop (s := s.withTape tape) hG.1 h
      simp [judge1, entryOf, hI, Ex.frameb_of_sframe hF, (reset_rewards h).1, hc]
  | step acts tape =>
    simp only [runOp]
    obtain ⟨S, hS⟩ : ∃ S, S = s.withTape tape := ⟨_, rfl⟩
    have hSw : S.ex.w = s.ex.w := by rw [hS]; rfl
    have hSr : S.ex.rewards = s.ex.rewards := by rw [hS]; rfl
    have hSc : S.count = s.count := by rw [hS]; rfl
    rw [← hS]
    cases hr : s.ex.rewards with
    | none =>
      have : step cfg S acts = (S, some .other) := by unfold step; rw [hSr, hr]
      simp [judge1, entryOf, this, ERes.isErr]
    | some r =>
      have hr' : S.ex.rewards = some r := by rw [hSr, hr]
      have hfl : WInvFloat S.ex.w = true := by rw [hSw]; exact (hG.2.1 (by rw [hr]; rfl)).1
      have hGV := hG.1
      unfold GoodV at hGV
      rw [hr] at hGV
      simp only at hGV
      have h1 := step_float cfg S acts hfl
      have h2 : Ex.frameb w0 (step cfg S acts).1.ex.w = true :=
        Ex.frameb_of_sframe (hGV.1.trans (by rw [← hSw]; exact (step_vsame cfg S acts).sframe))
      obtain ⟨r', hr1, hr2⟩ := step_keys cfg S acts r hr'
      obtain ⟨c1, c2, c3, c4⟩ := step_count cfg S acts
      simp only [judge1, entryOf, Bool.and_eq_true]
      refine ⟨⟨⟨⟨h1, h2⟩, ?_⟩, ?_⟩, ?_⟩
      · rw [hr1]; simp [hr2]
      · split
        · rw [hSc] at c2 c3
          rw [Bool.and_eq_true]
          exact ⟨decide_eq_true c2, decide_eq_true c3⟩
        · rename_i hs
          have hs' : cfg.simple = false := by simpa using hs
          rw [c1 hs', hSc, hG.2.2 hs']
          rfl
      · cases he : (step cfg S acts).2 with
        | none =>
          simp only [beq_self_eq_true, Bool.true_and, Bool.or_eq_true, Bool.not_eq_true']
          cases hp : stepPre cfg s.ex.w r acts with
          | false => exact Or.inl rfl
          | true => exact Or.inr (step_of_stepPre cfg S r acts hr' (by rw [hSw]; exact hp)).2.1
        | some e =>
          simp only [Bool.and_eq_true, Bool.not_eq_true', beq_iff_eq]
          refine ⟨?_, by rw [c4 (by rw [he]; rfl), hSc]⟩
          cases hp : stepPre cfg s.ex.w r acts with
          | false => rfl
          | true =>
            have := (step_of_stepPre cfg S r acts hr' (by rw [hSw]; exact hp)).1
            rw [he] at this; cases this
  | obs a tape =>
    simp only [runOp]
    cases h : getObs cfg (s.withTape tape) a with
    | error e => simp [judge1, entryOf]
    | ok r =>
      obtain ⟨o, s'⟩ := r
      unfold getObs at h
      cases he : Ex.getObs cfg.toEx (s.withTape tape).ex a with
      | error e => rw [he] at h; cases h
      | ok r2 =>
        obtain ⟨o2, e2⟩ := r2
        rw [he] at h
        simp only [Except.ok.injEq, Prod.mk.injEq] at h
        obtain ⟨ks, hks, hsome⟩ := Ex.getObs_observers he
        obtain ⟨t', rfl⟩ := Ex.getObs_shape he
        have hks' : cfg.observers = some ks := hks
        have hsome' : s.ex.rewards.isSome = true := hsome
        obtain ⟨hfl, hP⟩ := hG.2.1 hsome'
        have hGV := hG.1
        unfold GoodV at hGV
        obtain ⟨r0, hr0⟩ := Option.isSome_iff_exists.mp hsome'
        rw [hr0] at hGV
        simp only at hGV
        have hF := hGV.1
        have hn : s.ex.w.n = w0.n := sframe_n hF
        have hos : Ex.obsInSpace s.ex.w a ks o2 = true :=
          Ex.getObs_obsInSpace_float (s := (s.withTape tape).ex) hks hfl hP
            (fun b hb => by
              show 0 < s.ex.w.encOf b
              rw [sframe_encOf hF]; exact hW.enc b (by rw [← hn]; exact hb))
            (fun b hb => by
              show 0 ≤ (s.ex.w.cfgOf b).initAmmo
              rw [sframe_cfgOf hF]; exact hW.iammo b (by rw [← hn]; exact hb)) he
        rw [← h.2, ← h.1]
        simp only [judge1, entryOf, hks', Bool.and_eq_true, beq_iff_eq]
        exact ⟨⟨⟨rfl, rfl⟩, rfl⟩, hos⟩
  | rew a =>
    simp only [runOp]
    cases h : getReward cfg s a with
    | error e => simp [judge1, entryOf]
    | ok r =>
      obtain ⟨x, s'⟩ := r
      unfold getReward at h
      cases he : Ex.getReward cfg.toEx s.ex a with
      | error e => rw [he] at h; cases h
      | ok r2 =>
        obtain ⟨x2, e2⟩ := r2
        rw [he] at h
        simp only [Except.ok.injEq, Prod.mk.injEq] at h
        obtain ⟨r0, hr0, hv, rfl⟩ := Ex.getReward_shape he
        rw [← h.2, ← h.1]
        simp only [judge1, entryOf, hr0, beq_self_eq_true, Bool.true_and, beq_iff_eq]
        simp only [Ex.rewardVal] at hv
        cases hlk : r0.lookup a with
        | none => rw [hlk] at hv; cases hv
        | some y => rw [hlk] at hv; cases hv; rfl
  | done a =>
    simp only [runOp, getDone, getAllDone]
    cases hr : s.ex.rewards with
    | none => simp [judge1, entryOf, Ex.resOfBool, hr, ERes.isErr]
    | some r => simp [judge1, entryOf, Ex.resOfBool, hr]
  | allDone =>
    simp only [runOp, getAllDone]
    cases hr : s.ex.rewards with
    | none => simp [judge1, entryOf, Ex.resOfBool, hr, ERes.isErr]
    | some r => simp [judge1, entryOf, Ex.resOfBool, hr]

/-- a raising getter or reset leaves the state -/
theorem unchanged_model (cfg : Cfg) (s : St) (op : Op) :
    unchangedOnErr ⟨s.ex.w, s.ex.rewards, s.count⟩ op (runOp cfg s op).1 = true := by
  cases op with
  | reset order tape =>
    simp only [runOp]
    cases h : reset cfg order (s.withTape tape) with
    | error e => simp [unchangedOnErr, entryOf]
    | ok s' => simp [unchangedOnErr, entryOf]
  | step acts tape => simp [unchangedOnErr]
  | obs a tape =>
    simp only [runOp]
    cases h : getObs cfg (s.withTape tape) a with
    | error e => simp [unchangedOnErr, entryOf]
    | ok r => obtain ⟨o, s'⟩ := r; simp [unchangedOnErr, entryOf]
  | rew a =>
    simp only [runOp]
    cases h : getReward cfg s a with
    | error e => simp [unchangedOnErr, entryOf]
    | ok r => obtain ⟨o, s'⟩ := r; simp [unchangedOnErr, entryOf]
  | done a =>
    simp only [runOp]
    cases hd : getDone cfg s a <;> simp [unchangedOnErr, entryOf, Ex.resOfBool]
  | allDone =>
    simp only [runOp]
    cases hd : getAllDone cfg s <;> simp [unchangedOnErr, entryOf, Ex.resOfBool]

/-- **the model's own trace passes the judge**, from any good state -/
theorem specFrom_model {cfg : Cfg} {w0 : World} (hW : PreOK w0) :
    ∀ (ops : List Op) (s : St), (∀ op ∈ ops, OpOK cfg w0 op) → GoodP cfg w0 s →
      specFrom cfg w0 ⟨s.ex.w, s.ex.rewards, s.count⟩ (zipOps ops (runOps cfg s ops).1) = true := by
  intro ops
  induction ops with
  | nil => intro s _ _; rfl
  | cons op ops ih =>
    intro s hops hG
    have hj := judge1_model hW s op (hops op List.mem_cons_self) hG
    have hu := unchanged_model cfg s op
    have hG' := runOp_goodP hW s op (hops op List.mem_cons_self) hG
    obtain ⟨e1, e2, e3⟩ := runOp_entry cfg s op
    simp only [runOps]
    rw [← e2]
    cases he : ((runOp cfg s op).1.res.isErr && (op.isReset || (runOp cfg s op).1.rewards.isNone)) with
    | true =>
      simp only [if_true, zipOps, specFrom, hj, hu, he, Bool.true_and]
      rfl
    | false =>
      simp only [Bool.false_eq_true, if_false, zipOps, specFrom, hj, hu, he, Bool.true_and]
      have := ih (runOp cfg s op).2 (fun o ho => hops o (List.mem_cons_of_mem _ ho)) hG'
      rw [← e1, ← e2, ← e3] at this
      exact this

/-- `pmPre` is the conjunction of the hypotheses -/
theorem pmPre_hyps {cfg : Cfg} {w0 : World} {ops : List Op} (h : pmPre cfg w0 ops = true) :
    PreOK w0 ∧ ∀ op ∈ ops, OpOK cfg w0 op := by
  simp only [pmPre, Bool.and_eq_true, List.all_eq_true, allAgents, List.mem_range, decide_eq_true_eq] at h
  obtain ⟨⟨⟨⟨⟨h1, h2⟩, h3⟩, h4⟩, _⟩, h6⟩ := h
  refine ⟨⟨(cfgOKb_iff w0).mp h1, ?_, (noAmmoCb_iff w0).mp h3, fun b hb => (h4 b hb).1, fun b hb => (h4 b hb).2⟩, ?_⟩
  · intro a ha hA
    have := h2
    simp only [freshb, List.all_eq_true, allAgents, List.mem_range, Bool.and_eq_true, decide_eq_true_eq,
      Bool.or_eq_true, Bool.not_eq_true'] at this
    obtain ⟨⟨_, x4⟩, x5⟩ := this a ha
    refine ⟨x4, ?_⟩
    rcases x5 with x | x
    · rw [hA] at x; cases x
    · exact x
  · intro op hop
    have := h6 op hop
    cases op with
    | reset order tape =>
      simp only [Bool.and_eq_true, List.any_eq_true] at this
      obtain ⟨x1, c, hc, hco⟩ := this
      refine ⟨Ex.resetOK_of_b x1, ?_⟩
      cases c <;> first | exact hc | cases hco
    | step acts tape => trivial
    | obs a tape => trivial
    | rew a => trivial
    | done a => trivial
    | allDone => trivial

end PM

/-- **`examples_hist` for `PacmanSim` / `PacmanSimSimple`**: under the class's precondition `PM.pmPre` (the world as the
constructors leave it: `cfgOKb`, everybody alive with legal vitals, positive encodings, non-negative initial ammunition; the
history starts with a reset; every reset holds a covered placement state, `HealthState` and `OrientationState` in any order —
NOTHING about the steps: ANY action dicts, in the declared spaces or not, for dead agents, walls, ids that do not exist;
steps that RAISE in the middle of the history, which goes on with the state they left) the trace the model computes
satisfies the judge `PM.specPM`, for every configuration (either class), every history and every tape: `WInv` after every
reset, `WInvFloat` after EVERY step (returned or raised), no exception and `WInv` after a step from a `PM.stepPre` state,
every observation in the declared space with exactly the declared keys, read-and-reset rewards, `get_done = get_all_done =
PM.allDoneW`, `step_count` as the class moves it, the key list of the reward dict kept by every step, getters and raising
calls leave what they do not own. -/
theorem pacman_hist (cfg : PM.Cfg) (w0 : World) (t0 : Tape) (ops : List PM.Op) (hpre : PM.pmPre cfg w0 ops = true) :
    PM.specPM cfg w0 (PM.zipOps ops (PM.runOps cfg { ex := { w := w0, tape := t0 } } ops).1) = true := by
  obtain ⟨hW, hops⟩ := PM.pmPre_hyps hpre
  exact PM.specFrom_model hW ops { ex := { w := w0, tape := t0 } } hops ⟨rfl, fun h => (by cases h), fun _ => rfl⟩

/-- a history with everything in it, on the world of the refused teleport: reset; the step after which pacman is ACTIVE and in NO
cell; an observation of that pacman; a step that RAISES (`KeyError` from `grid.remove`); a reward read, both done getters; a
step with an item for an agent that does not exist and an action outside `Discrete(5)` (raises again) -/
def exPMHistOps : List PM.Op :=
  [exPMReset, .step [(0, 1), (1, 0)] [], .obs 0 [], .step [(0, 0), (1, 0)] [], .rew 0, .done 0, .allDone,
   .step [(0, 3), (7, 9)] []]

def exPMHistWorld : World := exPMWorld [(1, [3]), (4, [3, 4]), (3, [1, 4])] 21 (9, 1) (9, 20)

/-- the precondition is inhabited, the trace is the expected one (raised?, `WInv`, `WInvFloat`) … -/
example : PM.pmPre (exPMCfg false) exPMHistWorld exPMHistOps = true ∧
    ((PM.runOps (exPMCfg false) { ex := { w := exPMHistWorld } } exPMHistOps).1.map fun e =>
        (e.res.isErr, e.w.WInv, PM.WInvFloat e.w)) =
      [(false, true, true), (false, false, true), (false, false, true), (true, false, true), (false, false, true),
       (false, false, true), (false, false, true), (true, false, true)] := by
  decide +kernel

/-- … and it passes the judge, by the theorem -/
example : PM.specPM (exPMCfg false) exPMHistWorld
    (PM.zipOps exPMHistOps (PM.runOps (exPMCfg false) { ex := { w := exPMHistWorld } } exPMHistOps).1) = true :=
  pacman_hist (exPMCfg false) exPMHistWorld [] exPMHistOps (by decide +kernel)

/-- the judge is not trivially true: the same trace with `step_count` off by one is rejected -/
example : PM.specPM (exPMCfg false) exPMHistWorld
    (PM.zipOps exPMHistOps ((PM.runOps (exPMCfg false) { ex := { w := exPMHistWorld } } exPMHistOps).1.map fun e =>
      { e with count := e.count + 1 })) = false := by
  decide +kernel

end Abmarl
