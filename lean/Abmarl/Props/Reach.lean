import Abmarl.Props.Examples
import Abmarl.Spec.Reach
import Abmarl.Lemmas.Reach
import Abmarl.Lemmas.ReachMoves
import Abmarl.Lemmas.ReachAttacks
import Abmarl.Lemmas.ReachObs
import Abmarl.Lemmas.ReachNoRaise
import Abmarl.Lemmas.ReachHeal
import Abmarl.Lemmas.ReachHist
/-!
# `ReachTheTargetSim`: what holds of the theorem set of the packaged examples, and what does not

Model: `Model/Reach.lean`, tied to the real class by `gexample` / `mgrx` with configuration `(reach …)`.

**Why the class was covered by `WInvWeak` only.**  `step` takes a runner that reached the target off the grid
and sets `agent.active = False` by hand; its health stays positive.  `WInv` has the clause "active iff health
positive" (true under the built-in components alone); such a world satisfies only `WInvWeak` ("zero health ⇒
inactive").  Every preservation lemma of the C03 library (`C12_moves`, `processAttack_WInv`, `runGOp_step`) has
`WInv` as hypothesis, so none applies to the worlds this class's steps produce.

Proved here (every grid, agent mix, overlap table, attack mapping, tape, history):

* **C01 / C07** `RT.rt_lawful`, `RT.rt_WF`, `C01_ReachTheTarget`, `C07_ReachTheTarget`,
  `C07_ReachTheTarget_every_call_returns` — the getters are frame-correct and `get_reward` is read-and-reset,
  so the manager theorems apply;
* **C03 / C08, reset** `reach_reset_establishes`: `reset` from ANY world that has the constructed static part
  and satisfies `WInvWeak` — in particular with runners deactivated by hand — leaves a world satisfying the
  whole `WInv`, everybody alive; `reach_reset_forgets`, `reach_fresh_twin`: the state after `reset` does not
  depend on cells, positions, health or activity before it;
* **C02, the two findings of this class (repaired)** `reach_R1_witness_processed`, `reach_R2_witness_processed`: the
  model used to carry two `KeyError` branches for in-space actions (proved on these witnesses as
  `reach_step_raises_for_in_space_actions` / `reach_killed_entity_raises`): a runner standing on the target's cell after
  `reset` and killed in the attack loop of the same step reached `grid.remove` (R1, repaired 856b778), and a killed entity
  without reward entry was charged (R2 = C02-E3 in this file, repaired c7ca573).  The witnesses are regression theorems
  now: the same states and actions are processed.

* **C03 after steps** `reach_reachable_WInvWeak`, `reach_simIface_reachable`: every world reached by any history of
  resets, steps (ANY action dicts) and getter calls satisfies `WInvWeak` and has the constructed static part.  The C03
  library is stated for `WInv`; what this class needs was proved anew for `WInvWeak`: `RT.moveAct_weak`
  (Lemmas/ReachMoves.lean), `RT.processAttack_weak` (Lemmas/ReachAttacks.lean: every attack actor, attacker, action,
  tape), `RT.takeOff_weak` (the hand-written `grid.remove` + `active = False`).

* **C02, observations** `reach_observations_in_space`: in every reachable state `get_obs` of every agent with an in-grid
  position returns a dict whose only channel is `position_centered_encoding`, inside the declared space (transported
  from the `WInv` theorem through `RT.heal`, Lemmas/ReachObs.lean: the observer never reads health).

* **C02, actions** `reach_stepMustNotRaise_returns`: for EVERY world, reward dict, action dict and tape, if the judge's Boolean
  `RT.stepMustNotRaise` holds (a `WInvWeak` world, items in the declared action spaces of learning agents, a full reward dict)
  `step` returns — no `WInv`.  `reach_step_noRaise`: hence in every state reached by any history of resets, steps (ANY action
  dicts) and getter calls; `reach_simIface_step_returns`: and in every state the managers reach through the `SimIface` instance
  (its totalisation is never used).  The lemma that was missing: `RT.processAttack_ok_weak` (Lemmas/ReachHeal.lean) —
  `process_action` of EVERY attack actor returns for an in-space action in a `WInvWeak` world: `RT.processAttack_heal` shows
  that the call commutes with `RT.heal` for every world, attacker, action, tape (`_determine_attack` never reads health, the
  health loop reads the health of ACTIVE victims only, a victim that dies ends with health exactly 0), and `attackOK_all`
  applies to `heal w`.  `reach_step_noRaise_WInv`, `reach_first_step_noRaise` (steps that start in a `WInv` world, the
  situation of R1) are kept as special cases.

* **C03 / C02, positions** `reach_inactive_positions_in_grid`: in every reachable state the stored position of EVERY agent —
  active, dead or deactivated by hand — is a grid cell; so `reach_observations_in_space_all`: the observation of every agent
  lies in the declared space (`reach_observations_in_space` without its hypothesis on the agent).

* **the judge** `reach_hist`: under `RT.rtPre` the model's own trace satisfies `RT.specRT` for every history and all tapes
  (the `examples_hist` of this class; steps are arbitrary).

* **getters** `reach_getters_total`: in every reachable state `get_reward` of a learning agent, `get_done` of an agent of the
  simulation and `get_all_done` return.

Nothing of DESIGN.md 11.2 "Not proved" is left open for this class (the tie to the real code stays differential: model =
implementation call by call, and the judge on the implementation's trace).
-/
namespace Abmarl
open World

namespace RT

theorem getDone_rewards {cfg : Cfg} {s : Ex.St} {r : Ex.Ledger} (a : Aid) (hr : s.rewards = some r) (r' : Ex.Ledger) :
    getDone cfg { s with rewards := some r' } a = getDone cfg s a := by
  simp only [getDone, hr]

/-- **`Lawful`** for `ReachTheTargetSim` -/
theorem rt_lawful (cfg : Cfg) (n : Nat) : Lawful (toSimIface cfg n) where
  obs_done := by
    intro s a b
    simp only [toSimIface]
    cases h : Ex.getObs cfg.toEx s a with
    | error e => rfl
    | ok r => obtain ⟨o, s'⟩ := r; obtain ⟨t', rfl⟩ := Ex.getObs_shape h; rfl
  obs_allDone := by
    intro s a
    simp only [toSimIface]
    cases h : Ex.getObs cfg.toEx s a with
    | error e => rfl
    | ok r => obtain ⟨o, s'⟩ := r; obtain ⟨t', rfl⟩ := Ex.getObs_shape h; rfl
  obs_next := by intros; rfl
  obs_pending := by
    intro s a b
    simp only [toSimIface]
    cases h : Ex.getObs cfg.toEx s a with
    | error e => rfl
    | ok r => obtain ⟨o, s'⟩ := r; obtain ⟨t', rfl⟩ := Ex.getObs_shape h; rfl
  rew_done := by
    intro s a b
    simp only [toSimIface]
    cases h : Ex.getReward cfg.toEx s a with
    | error e => rfl
    | ok r =>
      obtain ⟨x, s'⟩ := r
      obtain ⟨r0, hr0, _, rfl⟩ := Ex.getReward_shape h
      simp only [getDone, hr0]
  rew_allDone := by
    intro s a
    simp only [toSimIface]
    cases h : Ex.getReward cfg.toEx s a with
    | error e => rfl
    | ok r =>
      obtain ⟨x, s'⟩ := r
      obtain ⟨r0, hr0, _, rfl⟩ := Ex.getReward_shape h
      simp only [getAllDone, hr0]
  rew_next := by intros; rfl
  rew_val := (Ex.ex_lawful cfg.toEx n).rew_val
  rew_pending := (Ex.ex_lawful cfg.toEx n).rew_pending

theorem rt_WF (cfg : Cfg) (n : Nat) (k : MKind) (hk : k ≠ .dynamic)
    (hl : k = .turnBased → ∃ a < n, cfg.isLearning a = true) : WF (toSimIface cfg n) k where
  lawful := rt_lawful cfg n
  turn := by
    intro hk'
    obtain ⟨a, ha, hla⟩ := hl hk'
    intro he
    have : a ∈ (toSimIface cfg n).learners := (mem_learners _ a).mpr ⟨ha, hla⟩
    rw [he] at this; cases this
  dyn := fun h => absurd h hk

theorem weak_agent {w : World} (h : w.WInvWeak = true) {a : Aid} (ha : a < w.n) : w.wAgentWeak a = true := by
  simp only [WInvWeak, Bool.and_eq_true, List.all_eq_true, allAgents, List.mem_range] at h
  exact h.1.2 a ha

theorem ammoC_of_weak {w : World} (h : w.WInvWeak = true) : AmmoC w := by
  intro a ha hA
  have := weak_agent h ha
  simp only [wAgentWeak, Bool.and_eq_true, decide_eq_true_eq, Bool.or_eq_true, Bool.not_eq_true'] at this
  refine ⟨this.1.1.2, ?_⟩
  rcases this.1.2 with h1 | h1
  · rw [hA] at h1; cases h1
  · exact h1

theorem orientC_of_weak {w : World} (h : w.WInvWeak = true) : OrientC w := by
  intro a ha hO
  have := weak_agent h ha
  simp only [wAgentWeak, Bool.and_eq_true, decide_eq_true_eq, Bool.or_eq_true, Bool.not_eq_true'] at this
  rcases this.2 with h1 | h1
  · rw [hO] at h1; cases h1
  · exact h1

theorem noAmmoC_of_weak {w : World} (h : w.WInvWeak = true) : NoAmmoC w := by
  intro a ha _
  have := weak_agent h ha
  simp only [wAgentWeak, Bool.and_eq_true, decide_eq_true_eq, Bool.or_eq_true, Bool.not_eq_true'] at this
  exact this.1.1.2

end RT

/-! ## C01, C07 -/

theorem C01_ReachTheTarget (cfg : RT.Cfg) (n : Nat) (k : MKind) (hk : k ≠ .dynamic)
    (hl : k = .turnBased → ∃ a < n, cfg.isLearning a = true) (m0 : MState Ex.St) (ops : List (Op Ex.Act)) :
    specC01 k n cfg.isLearning m0.shuffle (runOps (RT.toSimIface cfg n) k m0 ops) = true :=
  C01_managers_honour_done_protocol (RT.toSimIface cfg n) k (RT.rt_WF cfg n k hk hl) m0 ops

theorem C07_ReachTheTarget (cfg : RT.Cfg) (n : Nat) (k : MKind) (hk : k ≠ .dynamic)
    (hl : k = .turnBased → ∃ a < n, cfg.isLearning a = true) (m0 : MState Ex.St) (ops : List (Op Ex.Act)) :
    specC07 k n cfg.isLearning (runOps (RT.toSimIface cfg n) k m0 ops) = true :=
  C07_fair_turns_and_progress (RT.toSimIface cfg n) k (RT.rt_WF cfg n k hk hl) m0 ops

theorem C07_ReachTheTarget_every_call_returns (cfg : RT.Cfg) (n : Nat) (k : MKind) (hk : k ≠ .dynamic)
    (hl : k = .turnBased → ∃ a < n, cfg.isLearning a = true) (m0 : MState Ex.St) (ops : List (Op Ex.Act))
    (i : Nat) (e : Entry Ex.Act Ex.ObsOut Unit) (hi : (runOps (RT.toSimIface cfg n) k m0 ops)[i]? = some e)
    (hp : ProtocolOK {} (runOps (RT.toSimIface cfg n) k m0 ops) i) :
    ∀ er, e.res = .err er → er = .rejected :=
  C07_every_call_returns (RT.toSimIface cfg n) k (RT.rt_WF cfg n k hk hl) m0 ops i e hi hp

/-! ## reset: C03 / C08 -/

/-- **`reset` re-establishes the whole invariant**: from ANY world with the constructed static part that
satisfies `WInvWeak` — whatever runners were taken off the grid and deactivated by hand, whoever died —
`health_state.reset(); position_state.reset()` leaves a world satisfying `WInv`, with the constructed static
part, everybody alive (in a cell that stores it) with legal health. -/
theorem reach_reset_establishes (cfg : RT.Cfg) (w0 w w' : World) (order : List StateComp) (t t' : Tape)
    (hcfg : CfgOK w0) (hR : Ex.ResetOK cfg.toEx w0 order) (hF : SFrame w0 w) (hW : w.WInvWeak = true)
    (h : applyComps order w t = .ok (w', t')) : w'.WInv = true ∧ SFrame w0 w' ∧ HealthC w' := by
  have hH : StateComp.health ∈ order := hR.health (Or.inl rfl)
  have hX := Ex.reset_establishes hcfg hR hF (Or.inl hH) (RT.ammoC_of_weak hW) (RT.orientC_of_weak hW)
    (RT.noAmmoC_of_weak hW) h
  exact ⟨hX.inv, hX.frame, hX.alive⟩

/-- **`reset` forgets** (it is `Ex.reset` of the smart simulations) -/
theorem reach_reset_forgets (cfg : RT.Cfg) (order : List StateComp) (s1 s2 : Ex.St)
    (hw : Ex.SameBut order s1.w s2.w) (ht : s1.tape = s2.tape) (hp : order.any StateComp.resetsPos = true) :
    Ex.reset cfg.toEx order s1 = Ex.reset cfg.toEx order s2 :=
  Ex.reset_forgets cfg.toEx order s1 s2 hw ht hp

/-- **C08, used versus fresh twin, under every manager** -/
theorem reach_fresh_twin (cfg : RT.Cfg) (n : Nat) (k : MKind)
    (hl : k = .turnBased → (RT.toSimIface cfg n).learners ≠ []) (m1 m2 : MState Ex.St)
    (hw : Ex.SameBut cfg.comps m1.sim.w m2.sim.w) (hp : cfg.comps.any StateComp.resetsPos = true)
    (hseed : m1.sim.tape = m2.sim.tape) (hok : ∃ s', Ex.reset cfg.toEx cfg.comps m2.sim = .ok s')
    (hsh : m1.shuffle = m2.shuffle) (ht : m1.tape = m2.tape) (follow : List (Op Ex.Act)) :
    runOps (RT.toSimIface cfg n) k m1 (.reset :: follow) = runOps (RT.toSimIface cfg n) k m2 (.reset :: follow) := by
  apply runOps_reset_eq_of (RT.toSimIface cfg n) k hl m1 m2 ?_ hsh ht
  obtain ⟨s', hs'⟩ := hok
  have := Ex.reset_forgets cfg.toEx cfg.comps m1.sim m2.sim hw hseed hp
  simp only [RT.toSimIface, this, hs']

/-! ## C02, negative: the finding -/

/-- two runners and the target on a 1×3 grid; runner 0 starts ON the target's cell (the overlap table
`{2: {3}, 3: {1, 2, 3}}` of the packaged configuration allows it, and so does a random placement) -/
def exRTWorld : World :=
  { rows := 1, cols := 3, overlap := [(2, [3]), (3, [1, 2, 3]), (1, [3])], cells := [[], [], []],
    cfg := [{ enc := 3, initPos := some (0, 1), initHealth := some 1, moving := true, moveRange := 1,
              observing := true, viewRange := 1 },
            { enc := 3, initPos := some (0, 0), initHealth := some 1, moving := true, moveRange := 1,
              observing := true, viewRange := 1 },
            { enc := 2, initPos := some (0, 1), initHealth := some 1, attacking := true, attackRange := 1,
              strength := 1, accuracy := 1, simAttacks := 1, observing := true, viewRange := 1 }],
    st := [{}, {}, {}] }

def exRTCfg : RT.Cfg :=
  { learning := [true, true, true], comps := [.health, .position .position {}],
    attack := ⟨.selective, [(2, [3])], false⟩, target := 2, runners := [0, 1], targets := [2] }

/-- one point of the declared action space for EVERY agent: the runners stay / move right, the target attacks
its own cell -/
def exRTActs : List (Aid × Ex.Act) :=
  [(0, { move := (0, 0), attack := .grid [] }), (1, { move := (0, 1), attack := .grid [] }),
   (2, { move := (0, 0), attack := .grid [0, 0, 0, 0, 1, 0, 0, 0, 0] })]

def exRTOps : List Ex.EOp := [.reset [.health, .position .position {}] [], .step exRTActs []]

/-- the state right after `reset` -/
def exRTState : Ex.St := (RT.runOps exRTCfg { w := exRTWorld } (exRTOps.take 1)).2

/-- **regression for finding R1 (repaired, 856b778)**: in the state right after `reset` — which satisfies the whole
invariant, everybody alive, a reward entry for everybody — the action dict `exRTActs` (a point of the declared action
space for each of the three agents, all learning, all active, distinct keys) used to make `step` raise `KeyError`: the
target kills runner 0 on its own cell in the attack loop (the actor takes the dead runner off the grid), and the move loop
then found `target_done.get_done(runner0)` true and called `self.grid.remove(runner0, …)` for an agent that is in no cell.
With the guard `agent.active and …` the step returns: runner 0 is charged for its death and the entropy (−1.01), runner 1
walks onto the target (+0.99) and is taken off the grid, the target collects +1 for the kill. -/
theorem reach_R1_witness_processed :
    RT.rtPre exRTCfg exRTWorld exRTOps = true ∧
    exRTState.w.WInv = true ∧ exRTState.rewards = some [(0, 0), (1, 0), (2, 0)] ∧
    exRTActs.all (RT.actInSpace exRTCfg exRTState.w) = true ∧
    exRTActs.all (fun x => exRTCfg.isLearning x.1 && (exRTState.w.stOf x.1).active) = true ∧
    Ex.keysNodup exRTActs = true ∧
    (match RT.step exRTCfg exRTState exRTActs with
     | .ok s' => s'.rewards == some [(0, -101), (1, 99), (2, 100)] && s'.w.WInvWeak && !s'.w.WInv
     | .error _ => false) = true := by
  refine ⟨by decide +kernel, by decide +kernel, by decide +kernel, by decide +kernel, by decide +kernel,
    by decide +kernel, by decide +kernel⟩

/-- the same history seen through the driver's trace -/
example : ((RT.runOps exRTCfg { w := exRTWorld } exRTOps).1.map (·.res)) = [.unit, .unit] := by
  decide +kernel

/-- … and when runner 0 does NOT start on the target's cell the same actions are processed: the runner at
distance one walks onto the target, collects +1 −0.01 and is taken off the grid (inactive, health still 1:
`WInvWeak` but not `WInv`) -/
def exRTWorld2 : World :=
  { exRTWorld with cfg := exRTWorld.cfg.set 0 { (exRTWorld.cfgOf 0) with initPos := some (0, 2) } }

example :
    let tr := (RT.runOps exRTCfg { w := exRTWorld2 } (exRTOps ++ [.rew 1, .done 1, .allDone])).1
    tr.map (·.res) = [.unit, .unit, .int 99, .bool true, .bool false] ∧
    (tr.map fun e => (e.w.WInv, e.w.WInvWeak)) =
      [(true, true), (false, true), (false, true), (false, true), (false, true)] := by
  decide +kernel

/-- `reach_reset_establishes` applies to that world (hand-deactivated runner): the next reset gives `WInv` again -/
example :
    let tr := (RT.runOps exRTCfg { w := exRTWorld2 } (exRTOps ++ [.reset [.health, .position .position {}] []])).1
    tr.map (fun e => e.w.WInv) = [true, false, true] := by
  decide +kernel

/-- **regression for finding R2 (repaired, c7ca573)**: with a barrier's encoding in the attack mapping, the target kills
the barrier next to it; `self.rewards[attacked_agent.id] -= 1` used to raise `KeyError` — the barrier is not an `Agent`
and has no reward entry (finding C02-E3 of `TeamBattleSim`, c275832, in this class).  With the guard
`if is_agent(attacked_agent)` the step returns and the target collects +1. -/
def exRTWorld3 : World :=
  { rows := 1, cols := 3, overlap := [(2, [3]), (3, [1, 2, 3]), (1, [3])], cells := [[], [], []],
    cfg := [{ enc := 1, initPos := some (0, 0), initHealth := some 1 },
            { enc := 3, initPos := some (0, 2), initHealth := some 1, moving := true, moveRange := 1,
              observing := true, viewRange := 1 },
            { enc := 2, initPos := some (0, 1), initHealth := some 1, attacking := true, attackRange := 1,
              strength := 1, accuracy := 1, simAttacks := 1, observing := true, viewRange := 1 }],
    st := [{}, {}, {}] }

def exRTCfg3 : RT.Cfg :=
  { learning := [false, true, true], comps := [.health, .position .position {}],
    attack := ⟨.selective, [(2, [1, 3])], false⟩, target := 2, runners := [1], targets := [2] }

theorem reach_R2_witness_processed :
    ((RT.runOps exRTCfg3 { w := exRTWorld3 }
      [.reset [.health, .position .position {}] [],
       .step [(1, { move := (0, 0), attack := .grid [] }),
              (2, { move := (0, 0), attack := .grid [0, 0, 0, 1, 0, 0, 0, 0, 0] })] []]).1.map
        fun e => (e.res, e.rewards)) =
      [(.unit, some [(1, 0), (2, 0)]), (.unit, some [(1, -1), (2, 100)])] := by
  decide +kernel

/-! ## C03 after steps: every reachable world satisfies `WInvWeak` -/

namespace RT

theorem reset_goodW {cfg : Cfg} {w0 : World} (hcfg : CfgOK w0) (hfresh : w0.vitalsAlive = true)
    {order : List StateComp} (hR : Ex.ResetOK cfg.toEx w0 order) {s s' : Ex.St} (hG : GoodW w0 s)
    (h : Ex.reset cfg.toEx order s = .ok s') : s'.rewards.isSome = true ∧ s'.w.WInv = true ∧ SFrame w0 s'.w := by
  unfold Ex.reset at h
  split at h
  · cases h
  · split at h
    · cases h
    · rename_i w' t' ha
      simp only [Except.ok.injEq] at h
      subst h
      refine ⟨rfl, ?_⟩
      unfold GoodW at hG
      cases hr : s.rewards with
      | none =>
        rw [hr] at hG
        simp only at hG
        obtain ⟨hH, hA, hO, hN⟩ := vitalsAlive_clauses hfresh
        rw [hG] at ha
        have hX := Ex.reset_establishes hcfg hR (SFrame.refl w0) (Or.inr hH) hA hO hN ha
        exact ⟨hX.inv, hX.frame⟩
      | some r =>
        rw [hr] at hG
        simp only at hG
        have := reach_reset_establishes cfg w0 s.w w' order s.tape t' hcfg hR hG.2 hG.1 ha
        exact ⟨this.1, this.2.1⟩

theorem runOp_goodW {cfg : Cfg} {w0 : World} (hcfg : CfgOK w0) (hfresh : w0.vitalsAlive = true)
    (hC : CompsKeepWeak cfg.attack) (s : Ex.St) (op : Ex.EOp) (hop : OpOK cfg w0 op) (hG : GoodW w0 s) :
    GoodW w0 (runOp cfg s op).2 := by
  cases op with
  | reset order tape =>
    simp only [runOp]
    cases h : Ex.reset cfg.toEx order { s with tape := tape } with
    | error e => exact hG
    | ok s' =>
      obtain ⟨hs, hI, hF⟩ := reset_goodW hcfg hfresh hop (s := { s with tape := tape }) hG h
      simp only
      unfold GoodW
      cases hr : s'.rewards with
      | none => rw [hr] at hs; cases hs
      | some r => exact ⟨WInvWeak_of_WInv hI, hF⟩
  | step acts tape =>
    simp only [runOp]
    cases h : step cfg { s with tape := tape } acts with
    | error e => exact hG
    | ok s' =>
      simp only
      unfold step at h
      cases hr : s.rewards with
      | none => simp [hr] at h
      | some r =>
        simp only [hr] at h
        cases hp : stepPS cfg ⟨s.w, r, tape⟩ acts with
        | error e => rw [hp] at h; cases h
        | ok p =>
          rw [hp] at h
          simp only [Except.ok.injEq] at h
          unfold GoodW at hG
          rw [hr] at hG
          have := stepPS_weak hC (p := ⟨s.w, r, tape⟩) hG hp
          rw [← h]
          exact this
  | obs a tape =>
    simp only [runOp]
    cases h : Ex.getObs cfg.toEx { s with tape := tape } a with
    | error e => exact hG
    | ok r =>
      obtain ⟨o, s'⟩ := r
      obtain ⟨t', rfl⟩ := Ex.getObs_shape h
      exact hG
  | rew a =>
    simp only [runOp]
    cases h : Ex.getReward cfg.toEx s a with
    | error e => exact hG
    | ok r =>
      obtain ⟨x, s'⟩ := r
      obtain ⟨r0, hr0, _, rfl⟩ := Ex.getReward_shape h
      unfold GoodW at hG ⊢
      rw [hr0] at hG
      exact hG
  | done a => exact hG
  | allDone => exact hG

theorem runOps_goodW {cfg : Cfg} {w0 : World} (hcfg : CfgOK w0) (hfresh : w0.vitalsAlive = true)
    (hC : CompsKeepWeak cfg.attack) (ops : List Ex.EOp) :
    ∀ (s : Ex.St), (∀ op ∈ ops, OpOK cfg w0 op) → GoodW w0 s → GoodW w0 (runOps cfg s ops).2 := by
  induction ops with
  | nil => intro s _ h; exact h
  | cons op ops ih =>
    intro s hops hG
    have h1 := runOp_goodW hcfg hfresh hC s op (hops op List.mem_cons_self) hG
    simp only [runOps]
    split
    · exact h1
    · exact ih _ (fun o ho => hops o (List.mem_cons_of_mem _ ho)) h1

end RT

/-- **C03 for `ReachTheTargetSim`: every reachable world satisfies `WInvWeak`.**  From the constructed world `w0`
(everybody alive with legal vitals, configuration facts `CfgOK`), after ANY history of resets (in the class's order, with
a covered placement state: `RT.OpOK`), steps (ANY action dicts and tapes: in the declared spaces or not, for live or dead
agents), observations, reward reads and done queries: once a reset has returned, the world satisfies `WInvWeak` — every
active agent is stored exactly in the cell of its in-grid position, no cell holds two agents that may not overlap,
health within [0,1], an agent with zero health is never active, ammunition and orientation legal — and has the static
part it was built with.  (`WInv` itself is false in these worlds as soon as a runner reached the target: see the
examples.)  Ingredients: `RT.moveAct_weak`, `RT.processAttack_weak` (the two component calls keep `WInvWeak`:
Lemmas/ReachMoves.lean, Lemmas/ReachAttacks.lean — for every actor configuration, attacker, action and tape),
`RT.takeOff_weak` (the hand-written `grid.remove` + `active = False`), `reach_reset_establishes`. -/
theorem reach_reachable_WInvWeak (cfg : RT.Cfg) (w0 : World) (hcfg : CfgOK w0) (hfresh : w0.vitalsAlive = true)
    (t0 : Tape) (ops : List Ex.EOp) (hops : ∀ op ∈ ops, RT.OpOK cfg w0 op) :
    let s := (RT.runOps cfg { w := w0, tape := t0 } ops).2
    s.rewards.isSome = true → s.w.WInvWeak = true ∧ SFrame w0 s.w := by
  intro s hs
  have hG : RT.GoodW w0 s := RT.runOps_goodW hcfg hfresh (RT.compsKeepWeak cfg.attack) ops _ hops rfl
  unfold RT.GoodW at hG
  cases hr : s.rewards with
  | none => rw [hr] at hs; cases hs
  | some r => rw [hr] at hG; exact hG

/-- the states a manager can drive the `SimIface` instance into (the reset order is `cfg.comps`) -/
inductive RT.Reach (cfg : RT.Cfg) (w0 : World) (n : Nat) : Ex.St → Prop where
  | init (t : Tape) : RT.Reach cfg w0 n { w := w0, tape := t }
  | reset {s} : RT.Reach cfg w0 n s → RT.Reach cfg w0 n ((RT.toSimIface cfg n).reset s)
  | step {s} (acts) : RT.Reach cfg w0 n s → RT.Reach cfg w0 n ((RT.toSimIface cfg n).step s acts)
  | obs {s} (a) : RT.Reach cfg w0 n s → RT.Reach cfg w0 n ((RT.toSimIface cfg n).obs s a).2
  | reward {s} (a) : RT.Reach cfg w0 n s → RT.Reach cfg w0 n ((RT.toSimIface cfg n).reward s a).2

/-- … and so does every state the managers can reach -/
theorem reach_simIface_reachable (cfg : RT.Cfg) (w0 : World) (n : Nat) (hcfg : CfgOK w0)
    (hfresh : w0.vitalsAlive = true) (hR : Ex.ResetOK cfg.toEx w0 cfg.comps) {s : Ex.St}
    (h : RT.Reach cfg w0 n s) : RT.GoodW w0 s := by
  have hC := RT.compsKeepWeak cfg.attack
  induction h with
  | init t => rfl
  | @reset s _ ih =>
    have hg := RT.runOp_goodW hcfg hfresh hC s (.reset cfg.comps s.tape) hR ih
    simp only [RT.runOp] at hg
    simp only [RT.toSimIface]
    cases hr : Ex.reset cfg.toEx cfg.comps s with
    | error e => exact ih
    | ok s' =>
      have hr' : Ex.reset cfg.toEx cfg.comps { s with tape := s.tape } = .ok s' := hr
      simpa [hr'] using hg
  | @step s acts _ ih =>
    have hg := RT.runOp_goodW hcfg hfresh hC s (.step acts s.tape) trivial ih
    simp only [RT.runOp] at hg
    simp only [RT.toSimIface]
    cases hr : RT.step cfg s acts with
    | error e => exact ih
    | ok s' =>
      have hr' : RT.step cfg { s with tape := s.tape } acts = .ok s' := hr
      simpa [hr'] using hg
  | @obs s a _ ih =>
    have := RT.runOp_goodW hcfg hfresh hC s (.obs a s.tape) trivial ih
    simp only [RT.runOp] at this
    simp only [RT.toSimIface]
    split <;> simp_all
  | @reward s a _ ih =>
    have := RT.runOp_goodW hcfg hfresh hC s (.rew a) trivial ih
    simp only [RT.runOp] at this
    simp only [RT.toSimIface]
    split <;> simp_all

/-- the hypotheses of `reach_reachable_WInvWeak` are inhabited: the history of the examples above (a runner reaches the
target and is taken off the grid) — the theorem gives `WInvWeak` for the final state, `WInv` is false there -/
example :
    let s := (RT.runOps exRTCfg { w := exRTWorld2 } exRTOps).2
    s.w.WInvWeak = true ∧ SFrame exRTWorld2 s.w :=
  reach_reachable_WInvWeak exRTCfg exRTWorld2 ((cfgOKb_iff _).mp (by decide +kernel)) (by decide +kernel) [] exRTOps
    (fun op hop => by
      simp only [exRTOps, List.mem_cons, List.mem_nil_iff, or_false] at hop
      rcases hop with rfl | rfl
      · exact Ex.resetOK_of_b (by decide +kernel)
      · trivial)
    (by decide +kernel)

/-! ## C02: observations -/

theorem RT.getObs_in_space_weak (cfg : RT.Cfg) {w0 : World} (s : Ex.St) (hs : s.rewards.isSome = true)
    (hW : s.w.WInvWeak = true) (hF : SFrame w0 s.w) (henc : ∀ b < w0.n, 0 < w0.encOf b)
    (hammo : ∀ b < w0.n, 0 ≤ (w0.cfgOf b).initAmmo) (a : Aid) (ha : a < w0.n)
    (hpos : (s.w.stOf a).active = true ∨ s.w.inGrid (s.w.stOf a).pos = true) (t : Tape) :
    ∃ o s', Ex.getObs cfg.toEx { s with tape := t } a = .ok (o, s') ∧
      ∀ p ∈ o, p.1 = "position_centered_encoding" ∧
        Observers.declared s.w a (.centered cfg.observeSelf) p.2 = true := by
  have hn : s.w.n = w0.n := sframe_n hF
  have ha' : a < s.w.n := by rw [hn]; exact ha
  have hpos' : s.w.inGrid (s.w.stOf a).pos = true := by
    rcases hpos with hact | hp
    · exact (RT.placed_of_weak hW ha' hact).inG
    · exact hp
  have henc' : ∀ b < s.w.n, 0 < s.w.encOf b :=
    fun b hb => by rw [sframe_encOf hF]; exact henc b (by rw [← hn]; exact hb)
  obtain ⟨o, t', hget, hdecl⟩ := RT.centered_declared_weak hW ha' hpos' henc'
    (by rw [sframe_cfgOf hF]; exact hammo a ha) cfg.observeSelf t
  cases hr : s.rewards with
  | none => rw [hr] at hs; cases hs
  | some r =>
    refine ⟨mergeObs [Ex.itemsOf (.centered cfg.observeSelf) o], { s with tape := t' }, ?_, ?_⟩
    · simp only [Ex.getObs, hr, RT.Cfg.toEx, ha', if_true, Ex.obsOuts, hget]
    · intro p hp
      obtain ⟨items, hi, hpi⟩ := Ex.mem_mergeObs _ p hp
      simp only [List.mem_singleton] at hi
      subst hi
      have := Ex.mem_itemsOf hpi
      subst this
      exact ⟨rfl, hdecl⟩

/-- **observations of `ReachTheTargetSim` lie in the declared space, in every reachable state**: after any history as in
`reach_reachable_WInvWeak` (after a successful reset), for every agent of the simulation that is active — or whose stored
position is inside the grid (dead and hand-deactivated agents keep theirs) — and every tape, `get_obs` returns, the
observation dict has no other channel than `position_centered_encoding`, and its value lies in the space the
`PositionCenteredEncodingObserver` declared.  (The world violates `WInv` once a runner reached the target; the
observer theorem is transported through `RT.heal`: the observer never reads health.)  Hypotheses as in
`examples_observations_in_space`: positive encodings, non-negative initial ammunition. -/
theorem reach_observations_in_space (cfg : RT.Cfg) (w0 : World) (hcfg : CfgOK w0) (hfresh : w0.vitalsAlive = true)
    (t0 : Tape) (ops : List Ex.EOp) (hops : ∀ op ∈ ops, RT.OpOK cfg w0 op)
    (henc : ∀ b < w0.n, 0 < w0.encOf b) (hammo : ∀ b < w0.n, 0 ≤ (w0.cfgOf b).initAmmo) (a : Aid) (ha : a < w0.n) :
    let s := (RT.runOps cfg { w := w0, tape := t0 } ops).2
    s.rewards.isSome = true → ((s.w.stOf a).active = true ∨ s.w.inGrid (s.w.stOf a).pos = true) →
    ∀ t, ∃ o s', Ex.getObs cfg.toEx { s with tape := t } a = .ok (o, s') ∧
      ∀ p ∈ o, p.1 = "position_centered_encoding" ∧
        Observers.declared s.w a (.centered cfg.observeSelf) p.2 = true := by
  intro s hs hpos t
  obtain ⟨hW, hF⟩ := reach_reachable_WInvWeak cfg w0 hcfg hfresh t0 ops hops hs
  exact RT.getObs_in_space_weak cfg s hs hW hF henc hammo a ha hpos t

/-- `reach_observations_in_space` on the concrete history of the examples above: the observation of the runner that was
taken off the grid (inactive, position still inside the grid) -/
example : ∃ o s', Ex.getObs exRTCfg.toEx { (RT.runOps exRTCfg { w := exRTWorld2 } exRTOps).2 with tape := [] } 1 = .ok (o, s') ∧
    ∀ p ∈ o, p.1 = "position_centered_encoding" ∧
      Observers.declared (RT.runOps exRTCfg { w := exRTWorld2 } exRTOps).2.w 1 (.centered true) p.2 = true :=
  reach_observations_in_space exRTCfg exRTWorld2 ((cfgOKb_iff _).mp (by decide +kernel)) (by decide +kernel) [] exRTOps
    (fun op hop => by
      simp only [exRTOps, List.mem_cons, List.mem_nil_iff, or_false] at hop
      rcases hop with rfl | rfl
      · exact Ex.resetOK_of_b (by decide +kernel)
      · trivial)
    (by decide +kernel) (by decide +kernel) 1 (by decide) (by decide +kernel) (Or.inr (by decide +kernel)) []

/-- the hand-written removal on the concrete world of the examples above: `WInv` is lost, `WInvWeak` kept -/
example :
    let w := (RT.runOps exRTCfg { w := exRTWorld2 } (exRTOps.take 1)).2.w
    let w1 := (w.moveAct 1 (0, 1)).toOption.map (·.2)
    (w1.map fun w1 => (w1.WInv, (RT.takeOff w1 1).toOption.map fun w2 => (w2.WInv, w2.WInvWeak))) =
      some (true, some (false, true)) := by
  decide +kernel

/-! ## C02: a step with in-space actions does not raise -/

/-- **a `step` that starts in a `WInv` world does not raise for in-space actions** (C02: "every action drawn from an
agent's declared action space is accepted and processed without error"): the world satisfies the whole invariant and has
the constructed static part, every learning agent has a reward entry, every item of the action dict is a point of the
declared action space of a learning agent of the simulation (`Ex.ItemOK` for `cfg.toEx`: alive or dead, any subset, any
order) — then `step` returns, for every tape.  `WInv` holds after every `reset` and until the first runner reaches the
target; the attack loop runs first and preserves it, so the library's `attackOK_all` applies to every attack of the step;
the move loop (with the hand-written removal) and the entropy loop only need `WInvWeak`.

**For every reachable state** (`WInvWeak` only, once a runner was taken off the grid by hand) see `reach_step_noRaise` /
`reach_stepMustNotRaise_returns` below: `process_action` of the attack actors returns in `WInvWeak` worlds too
(`RT.processAttack_ok_weak`); this theorem is kept as the special case it was. -/
theorem reach_step_noRaise_WInv (cfg : RT.Cfg) (w0 : World) (hcfg : CfgOK w0) (s : Ex.St) (r : Ex.Ledger)
    (hr : s.rewards = some r) (hI : s.w.WInv = true) (hF : SFrame w0 s.w) (hL : Ex.LedgerFull cfg.toEx w0.n r)
    (acts : List (Aid × Ex.Act)) (hS : ∀ x ∈ acts, Ex.ItemOK cfg.toEx w0 x) :
    ∃ s', RT.step cfg s acts = .ok s' := by
  obtain ⟨p, hp⟩ := RT.stepPS_ok_WInv hcfg ⟨s.w, r, s.tape⟩ acts ⟨hF, hI⟩ hL hS
  refine ⟨{ w := p.w, rewards := some p.r, tape := p.t }, ?_⟩
  simp only [RT.step, hr, hp]

/-- **the first step of every episode does not raise for in-space actions** — the situation of finding R1: whatever the
object went through (any history of resets, steps with ANY action dicts, getter calls), after a `reset` that returned,
a `step` whose items are points of the declared action spaces of learning agents returns, for every tape. -/
theorem reach_first_step_noRaise (cfg : RT.Cfg) (w0 : World) (hcfg : CfgOK w0) (hfresh : w0.vitalsAlive = true)
    (t0 : Tape) (ops : List Ex.EOp) (hops : ∀ op ∈ ops, RT.OpOK cfg w0 op) (order : List StateComp) (tape : Tape)
    (hR : Ex.ResetOK cfg.toEx w0 order) (s' : Ex.St)
    (h : Ex.reset cfg.toEx order { (RT.runOps cfg { w := w0, tape := t0 } ops).2 with tape := tape } = .ok s')
    (acts : List (Aid × Ex.Act)) (hS : ∀ x ∈ acts, Ex.ItemOK cfg.toEx w0 x) (t : Tape) :
    ∃ s'', RT.step cfg { s' with tape := t } acts = .ok s'' := by
  have hG : RT.GoodW w0 (RT.runOps cfg { w := w0, tape := t0 } ops).2 :=
    RT.runOps_goodW hcfg hfresh (RT.compsKeepWeak cfg.attack) ops _ hops rfl
  obtain ⟨_, hI, hF⟩ := RT.reset_goodW hcfg hfresh hR (s := { (RT.runOps cfg { w := w0, tape := t0 } ops).2 with tape := tape })
    hG h
  have hrw := Ex.reset_shape h
  refine reach_step_noRaise_WInv cfg w0 hcfg { s' with tape := t } _ hrw hI hF ?_ acts hS
  rw [sframe_n hF]
  exact Ex.zeroRewards_full cfg.toEx w0.n

/-- the regression witness of R1 is an instance: the state right after `reset`, the action dict `exRTActs` -/
example : ∃ s'', RT.step exRTCfg { exRTState with tape := [] } exRTActs = .ok s'' :=
  reach_first_step_noRaise exRTCfg exRTWorld ((cfgOKb_iff _).mp (by decide +kernel)) (by decide +kernel) [] []
    (fun _ h => by cases h) [.health, .position .position {}] [] (Ex.resetOK_of_b (by decide +kernel)) exRTState rfl
    exRTActs (fun x hx => by
      simp only [exRTActs, List.mem_cons, List.mem_nil_iff, or_false] at hx
      rcases hx with rfl | rfl | rfl
      · exact ⟨by decide, by decide, by decide +kernel, fun _ h => by cases h⟩
      · exact ⟨by decide, by decide, by decide +kernel, fun _ h => by cases h⟩
      · exact ⟨by decide, by decide, by decide +kernel, fun _ _ => by decide +kernel⟩) []

/-! ## C02: a step with in-space actions does not raise — in EVERY reachable state (`WInvWeak` only) -/

/-- every state reached by any history is `RT.GoodH`: `WInvWeak`, constructed static part, a reward entry for every
learning agent, every stored position a grid cell -/
theorem RT.reachable_goodH (cfg : RT.Cfg) (w0 : World) (hcfg : CfgOK w0) (hfresh : w0.vitalsAlive = true)
    (t0 : Tape) (ops : List Ex.EOp) (hops : ∀ op ∈ ops, RT.OpOK cfg w0 op) :
    RT.GoodH cfg w0 (RT.runOps cfg { w := w0, tape := t0 } ops).2 :=
  RT.runOps_goodH hcfg hfresh ops _ hops (RT.goodH_init cfg w0 t0)

/-- **`stepMustNotRaise ⇒ returns`, with no hypothesis at all**: for EVERY world `w` (reachable or not), reward dict `r`,
action dict and tape — if the judge's Boolean `RT.stepMustNotRaise cfg w r acts` is true (the world satisfies `WInvWeak`;
every item is a point of the declared action space of a learning agent of the simulation, alive or not; every learning agent
has a reward entry) then `ReachTheTargetSim.step` RETURNS.  No `WInv`: the world may hold any number of runners that were
taken off the grid by hand (inactive with positive health).  The missing lemma of DESIGN.md 11.2 — `process_action` of
every attack actor returns for an in-space action in a `WInvWeak` world — is `RT.processAttack_ok_weak`
(Lemmas/ReachHeal.lean: `attackOK_all` transported through `RT.heal`; the attack code reads the health of ACTIVE candidates
only, `RT.processAttack_heal`). -/
theorem reach_stepMustNotRaise_returns (cfg : RT.Cfg) (w : World) (r : Ex.Ledger) (acts : List (Aid × Ex.Act)) (t : Tape)
    (h : RT.stepMustNotRaise cfg w r acts = true) :
    ∃ s', RT.step cfg { w := w, rewards := some r, tape := t } acts = .ok s' := by
  obtain ⟨hP, hS⟩ := RT.items_of_stepMustNotRaise h
  obtain ⟨p, hp, _⟩ := RT.stepPS_ok_weak (cfg := cfg) (w0 := w) ⟨w, r, t⟩ acts ⟨hP.weak, hP.frame, hP.full⟩ hS
  exact ⟨{ w := p.w, rewards := some p.r, tape := p.t }, by simp only [RT.step, hp]⟩

/-- … in the form the judge uses it: a `step` of the model that raises was made outside `stepMustNotRaise` -/
theorem reach_step_error_outside (cfg : RT.Cfg) (w : World) (r : Ex.Ledger) (acts : List (Aid × Ex.Act)) (t : Tape)
    (e : GErr) (h : RT.step cfg { w := w, rewards := some r, tape := t } acts = .error e) :
    RT.stepMustNotRaise cfg w r acts = false := by
  cases hm : RT.stepMustNotRaise cfg w r acts with
  | false => rfl
  | true =>
    obtain ⟨s', hs'⟩ := reach_stepMustNotRaise_returns cfg w r acts t hm
    rw [hs'] at h; cases h

/-- **a `step` with in-space actions does not raise in ANY reachable state** (C02: "every action drawn from an agent's
declared action space is accepted and processed without error"): from the constructed world, after ANY history of resets,
steps (ANY action dicts), observations, reward reads and done queries (once a reset has returned) — in particular after
runners reached the target and were deactivated by hand, so that the world satisfies `WInvWeak` only —, a `step` whose
items are points of the declared action spaces of learning agents of the simulation (`Ex.ItemOK`: alive or dead, any
subset, any order) returns, for every tape.  `reach_step_noRaise_WInv` / `reach_first_step_noRaise` are the special cases
of a `WInv` world. -/
theorem reach_step_noRaise (cfg : RT.Cfg) (w0 : World) (hcfg : CfgOK w0) (hfresh : w0.vitalsAlive = true)
    (t0 : Tape) (ops : List Ex.EOp) (hops : ∀ op ∈ ops, RT.OpOK cfg w0 op)
    (acts : List (Aid × Ex.Act)) (hS : ∀ x ∈ acts, Ex.ItemOK cfg.toEx w0 x) (t : Tape) :
    let s := (RT.runOps cfg { w := w0, tape := t0 } ops).2
    s.rewards.isSome = true → ∃ s', RT.step cfg { s with tape := t } acts = .ok s' := by
  intro s hs
  have hG : RT.GoodH cfg w0 s := RT.reachable_goodH cfg w0 hcfg hfresh t0 ops hops
  unfold RT.GoodH at hG
  cases hr : s.rewards with
  | none => rw [hr] at hs; cases hs
  | some r =>
    rw [hr] at hG
    obtain ⟨hW, hF, hL, _⟩ := hG
    obtain ⟨p, hp, _⟩ := RT.stepPS_ok_weak (cfg := cfg) (w0 := w0) ⟨s.w, r, t⟩ acts ⟨hW, hF, hL⟩ hS
    exact ⟨{ w := p.w, rewards := some p.r, tape := p.t }, by simp only [RT.step, hp]⟩

/-- the state of the examples above after runner 1 reached the target and was taken off the grid by hand: `WInvWeak`,
not `WInv` -/
def exRTState2 : Ex.St := (RT.runOps exRTCfg { w := exRTWorld2 } exRTOps).2

/-- the hypotheses of `reach_stepMustNotRaise_returns` are inhabited by a world that violates `WInv`: in `exRTState2` the
whole action dict `exRTActs` (an item for the deactivated runner too, the target attacking its own cell) must not raise -/
example : exRTState2.w.WInv = false ∧ exRTState2.rewards = some [(0, -1), (1, 99), (2, -10)] ∧
    RT.stepMustNotRaise exRTCfg exRTState2.w [(0, -1), (1, 99), (2, -10)] exRTActs = true := by
  decide +kernel

example : ∃ s', RT.step exRTCfg { w := exRTState2.w, rewards := some [(0, -1), (1, 99), (2, -10)], tape := [] } exRTActs = .ok s' :=
  reach_stepMustNotRaise_returns _ _ _ _ _ (by decide +kernel)

/-- `reach_step_noRaise` on the same history: the second step of the episode, from a world that is only `WInvWeak` -/
example : ∃ s', RT.step exRTCfg { exRTState2 with tape := [] } exRTActs = .ok s' :=
  reach_step_noRaise exRTCfg exRTWorld2 ((cfgOKb_iff _).mp (by decide +kernel)) (by decide +kernel) [] exRTOps
    (fun op hop => by
      simp only [exRTOps, List.mem_cons, List.mem_nil_iff, or_false] at hop
      rcases hop with rfl | rfl
      · exact Ex.resetOK_of_b (by decide +kernel)
      · trivial)
    exRTActs (fun x hx => by
      simp only [exRTActs, List.mem_cons, List.mem_nil_iff, or_false] at hx
      rcases hx with rfl | rfl | rfl
      · exact ⟨by decide, by decide, by decide +kernel, fun _ h => by cases h⟩
      · exact ⟨by decide, by decide, by decide +kernel, fun _ h => by cases h⟩
      · exact ⟨by decide, by decide, by decide +kernel, fun _ _ => by decide +kernel⟩) [] (by decide +kernel)

/-- … and what that second step does: the target's attack finds nobody (−0.1), runner 0 stays, the deactivated runner 1 is
skipped by all loops but the entropy loop -/
example : (match RT.step exRTCfg { exRTState2 with tape := [] } exRTActs with
    | .ok s' => s'.rewards == some [(0, -2), (1, 98), (2, -20)] && s'.w.WInvWeak && !s'.w.WInv
    | .error _ => false) = true := by
  decide +kernel

/-! ## C03 / C02: stored positions of inactive agents stay inside the grid -/

/-- **every agent's stored position is a grid cell, in every reachable state** — active, dead or deactivated by hand:
after ANY history as in `reach_reachable_WInvWeak` (once a reset has returned), `agent.position` of every agent of the
simulation lies inside the grid.  (`WInvWeak` says so for ACTIVE agents only; an agent that is killed or taken off the grid
keeps the position it had: `RT.processAttack_pos`, `RT.takeOff_pos` — no component call of `step` writes the position of an
inactive agent, and `reset` places everybody anew.) -/
theorem reach_inactive_positions_in_grid (cfg : RT.Cfg) (w0 : World) (hcfg : CfgOK w0) (hfresh : w0.vitalsAlive = true)
    (t0 : Tape) (ops : List Ex.EOp) (hops : ∀ op ∈ ops, RT.OpOK cfg w0 op) :
    let s := (RT.runOps cfg { w := w0, tape := t0 } ops).2
    s.rewards.isSome = true → ∀ a < w0.n, s.w.inGrid (s.w.stOf a).pos = true := by
  intro s hs a ha
  have hG : RT.GoodH cfg w0 s := RT.reachable_goodH cfg w0 hcfg hfresh t0 ops hops
  unfold RT.GoodH at hG
  cases hr : s.rewards with
  | none => rw [hr] at hs; cases hs
  | some r =>
    rw [hr] at hG
    exact hG.2.2.2 a (by rw [sframe_n hG.2.1]; exact ha)

/-- **observations of EVERY agent lie in the declared space, in every reachable state**: `reach_observations_in_space`
without its hypothesis on the agent (active, or stored position inside the grid) — discharged by
`reach_inactive_positions_in_grid` -/
theorem reach_observations_in_space_all (cfg : RT.Cfg) (w0 : World) (hcfg : CfgOK w0) (hfresh : w0.vitalsAlive = true)
    (t0 : Tape) (ops : List Ex.EOp) (hops : ∀ op ∈ ops, RT.OpOK cfg w0 op)
    (henc : ∀ b < w0.n, 0 < w0.encOf b) (hammo : ∀ b < w0.n, 0 ≤ (w0.cfgOf b).initAmmo) (a : Aid) (ha : a < w0.n) :
    let s := (RT.runOps cfg { w := w0, tape := t0 } ops).2
    s.rewards.isSome = true →
    ∀ t, ∃ o s', Ex.getObs cfg.toEx { s with tape := t } a = .ok (o, s') ∧
      ∀ p ∈ o, p.1 = "position_centered_encoding" ∧
        Observers.declared s.w a (.centered cfg.observeSelf) p.2 = true := by
  intro s hs t
  exact reach_observations_in_space cfg w0 hcfg hfresh t0 ops hops henc hammo a ha hs
    (Or.inr (reach_inactive_positions_in_grid cfg w0 hcfg hfresh t0 ops hops hs a ha)) t

/-- inhabited and not vacuous: in `exRTState2` runner 1 is inactive (taken off the grid by hand), in no cell, and its stored
position is the target's cell -/
example : (exRTState2.w.stOf 1).active = false ∧ exRTState2.w.cells = [[], [2], [0]] ∧
    (exRTState2.w.stOf 1).pos = (0, 1) ∧
    ∀ a < exRTWorld2.n, exRTState2.w.inGrid (exRTState2.w.stOf a).pos = true :=
  ⟨by decide +kernel, by decide +kernel, by decide +kernel,
   reach_inactive_positions_in_grid exRTCfg exRTWorld2 ((cfgOKb_iff _).mp (by decide +kernel)) (by decide +kernel) [] exRTOps
    (fun op hop => by
      simp only [exRTOps, List.mem_cons, List.mem_nil_iff, or_false] at hop
      rcases hop with rfl | rfl
      · exact Ex.resetOK_of_b (by decide +kernel)
      · trivial)
    (by decide +kernel)⟩

/-! ## the judge: the model's own trace satisfies `RT.specRT` -/

/-- **`examples_hist` for `ReachTheTargetSim`**: under the class's precondition `RT.rtPre` (the world as the constructors
leave it: `cfgOKb`, everybody alive with legal vitals, positive encodings, non-negative initial ammunition; the history starts
with a reset; every reset in an order `RT.OpOK` covers — NOTHING about the steps: any action dicts, in the declared spaces or
not, for live or dead or unknown agents) the trace of the model satisfies the judge `RT.specRT`, the Boolean the driver
evaluates on the implementation's trace (op `gexample`, configuration `(reach …)`), for EVERY history and all tapes: the
world after a successful `reset` satisfies `WInv` and after a successful `step` `WInvWeak`, both with the constructed static
part; `reset` leaves a zero entry per learning agent, `step` keeps the key list of the reward dict; every observation that is
returned — also of a dead or hand-deactivated agent — has exactly the declared keys, each value in the declared space; the
getters change neither world nor reward dict, `get_reward` is read-and-reset, the done getters return the class's own rules
(`RT.doneW`, `RT.onlyLeft`) on the current world; a `step` inside `RT.stepMustNotRaise` (a `WInvWeak` world, items in the
declared action spaces of learning agents, a full reward dict) does not raise; the trace ends with the first call that
raises. -/
theorem reach_hist (cfg : RT.Cfg) (w0 : World) (t0 : Tape) (ops : List Ex.EOp)
    (hpre : RT.rtPre cfg w0 ops = true) :
    RT.specRT cfg w0 (Ex.zipOps ops (RT.runOps cfg { w := w0, tape := t0 } ops).1) = true := by
  obtain ⟨hW, hops⟩ := RT.rtPre_hyps hpre
  exact RT.specFrom_model hW ops { w := w0, tape := t0 } hops (RT.goodH_init cfg w0 t0)

/-- a history with everything in it: reset; the step in which runner 1 reaches the target and is taken off the grid; its
reward, its done flag; an observation of the deactivated runner; a second step from the `WInvWeak`-only world with an item for
the deactivated runner; a step with an action OUTSIDE the declared space for an agent that does not exist (raises: the trace
ends) -/
def exRTHistOps : List Ex.EOp :=
  exRTOps ++ [.rew 1, .done 1, .allDone, .obs 1 [], .step exRTActs [], .rew 2, .obs 0 [],
    .step [(7, { move := (5, 5), attack := .grid [] })] [], .rew 0]

/-- the precondition is inhabited, the trace is the expected one … -/
example : RT.rtPre exRTCfg exRTWorld2 exRTHistOps = true ∧
    ((RT.runOps exRTCfg { w := exRTWorld2 } exRTHistOps).1.map fun e => (e.res.isErr, e.w.WInv, e.w.WInvWeak)) =
      [(false, true, true), (false, false, true), (false, false, true), (false, false, true), (false, false, true),
       (false, false, true), (false, false, true), (false, false, true), (false, false, true), (true, false, true)] := by
  decide +kernel

/-- … and it passes the judge, by the theorem -/
example : RT.specRT exRTCfg exRTWorld2
    (Ex.zipOps exRTHistOps (RT.runOps exRTCfg { w := exRTWorld2 } exRTHistOps).1) = true :=
  reach_hist _ _ _ _ (by decide +kernel)

/-- the judge is not trivially true: it rejects the trace in which the reward for reaching the target is delivered as 100
instead of 99, and the trace in which the second step (made inside `stepMustNotRaise`, from the `WInvWeak`-only world) is
reported to have raised -/
example :
    let tr := (RT.runOps exRTCfg { w := exRTWorld2 } exRTHistOps).1
    RT.specRT exRTCfg exRTWorld2 (Ex.zipOps exRTHistOps (tr.modify 2 fun e => { e with res := .int 100 })) = false ∧
    RT.specRT exRTCfg exRTWorld2
      (Ex.zipOps exRTHistOps ((tr.take 7).modify 6 fun _ => { (tr.getD 5 ⟨.unit, exRTWorld2, none⟩) with res := .err .keyError })) = false := by
  decide +kernel

/-! ## the same for the states the managers reach through the `SimIface` instance; the getters are total -/

/-- every state a manager can drive the `SimIface` instance into is `RT.GoodH` (`reach_simIface_reachable` with the reward
dict and the stored positions) -/
theorem reach_simIface_goodH (cfg : RT.Cfg) (w0 : World) (n : Nat) (hcfg : CfgOK w0)
    (hfresh : w0.vitalsAlive = true) (hR : Ex.ResetOK cfg.toEx w0 cfg.comps) {s : Ex.St}
    (h : RT.Reach cfg w0 n s) : RT.GoodH cfg w0 s := by
  induction h with
  | init t => rfl
  | @reset s _ ih =>
    have hg := RT.runOp_goodH hcfg hfresh s (.reset cfg.comps s.tape) hR ih
    simp only [RT.runOp] at hg
    simp only [RT.toSimIface]
    cases hr : Ex.reset cfg.toEx cfg.comps s with
    | error e => exact ih
    | ok s' =>
      have hr' : Ex.reset cfg.toEx cfg.comps { s with tape := s.tape } = .ok s' := hr
      simpa [hr'] using hg
  | @step s acts _ ih =>
    have hg := RT.runOp_goodH hcfg hfresh s (.step acts s.tape) trivial ih
    simp only [RT.runOp] at hg
    simp only [RT.toSimIface]
    cases hr : RT.step cfg s acts with
    | error e => exact ih
    | ok s' =>
      have hr' : RT.step cfg { s with tape := s.tape } acts = .ok s' := hr
      simpa [hr'] using hg
  | @obs s a _ ih =>
    have := RT.runOp_goodH hcfg hfresh s (.obs a s.tape) trivial ih
    simp only [RT.runOp] at this
    simp only [RT.toSimIface]
    split <;> simp_all
  | @reward s a _ ih =>
    have := RT.runOp_goodH hcfg hfresh s (.rew a) trivial ih
    simp only [RT.runOp] at this
    simp only [RT.toSimIface]
    split <;> simp_all

/-- **under the managers the totalisation of `RT.toSimIface.step` is never used for in-space actions**: in every state a
manager can reach (any resets, steps with ANY dicts, getter calls — `WInvWeak` only), once a reset has returned, `step` of
the model returns for every action dict whose items are points of the declared action spaces of learning agents, and the
`SimIface` step is that result -/
theorem reach_simIface_step_returns (cfg : RT.Cfg) (w0 : World) (n : Nat) (hcfg : CfgOK w0)
    (hfresh : w0.vitalsAlive = true) (hR : Ex.ResetOK cfg.toEx w0 cfg.comps) {s : Ex.St}
    (h : RT.Reach cfg w0 n s) (hs : s.rewards.isSome = true)
    (acts : List (Aid × Ex.Act)) (hS : ∀ x ∈ acts, Ex.ItemOK cfg.toEx w0 x) :
    RT.step cfg s acts = .ok ((RT.toSimIface cfg n).step s acts) := by
  have hG := reach_simIface_goodH cfg w0 n hcfg hfresh hR h
  unfold RT.GoodH at hG
  cases hr : s.rewards with
  | none => rw [hr] at hs; cases hs
  | some r =>
    rw [hr] at hG
    obtain ⟨hW, hF, hL, _⟩ := hG
    obtain ⟨p, hp, _⟩ := RT.stepPS_ok_weak (cfg := cfg) (w0 := w0) ⟨s.w, r, s.tape⟩ acts ⟨hW, hF, hL⟩ hS
    have : RT.step cfg s acts = .ok { w := p.w, rewards := some p.r, tape := p.t } := by
      simp only [RT.step, hr, hp]
    simp only [RT.toSimIface, this]

/-- **the getters do not raise in any reachable state** (`WInvWeak` only): `get_reward` of a learning agent returns (the
reward dict has an entry for every learning agent — `step` never loses a key), `get_done` of every agent of the simulation
and `get_all_done` return -/
theorem reach_getters_total (cfg : RT.Cfg) (w0 : World) (hcfg : CfgOK w0) (hfresh : w0.vitalsAlive = true)
    (t0 : Tape) (ops : List Ex.EOp) (hops : ∀ op ∈ ops, RT.OpOK cfg w0 op) (a : Aid) (ha : a < w0.n) :
    let s := (RT.runOps cfg { w := w0, tape := t0 } ops).2
    s.rewards.isSome = true →
    (cfg.isLearning a = true → ∃ x s', Ex.getReward cfg.toEx s a = .ok (x, s')) ∧
    (∃ b, RT.getDone cfg s a = .ok b) ∧ (∃ b, RT.getAllDone cfg s = .ok b) := by
  intro s hs
  have hG : RT.GoodH cfg w0 s := RT.reachable_goodH cfg w0 hcfg hfresh t0 ops hops
  unfold RT.GoodH at hG
  cases hr : s.rewards with
  | none => rw [hr] at hs; cases hs
  | some r =>
    rw [hr] at hG
    obtain ⟨_, hF, hL, _⟩ := hG
    have ha' : ¬ s.w.n ≤ a := by rw [sframe_n hF]; exact Nat.not_le.mpr ha
    refine ⟨fun hl => ?_, ?_, ⟨RT.onlyLeft cfg s.w, by simp only [RT.getAllDone, hr]⟩⟩
    · have hfull := hL a ha hl
      obtain ⟨x, hx⟩ := Option.isSome_iff_exists.mp hfull
      exact ⟨x, { s with rewards := some (dictSet r a 0) }, by simp only [Ex.getReward, hr, Ex.rewardVal, hx]⟩
    · simp only [RT.getDone, hr, RT.doneW, ha', if_false]
      split
      · exact ⟨_, rfl⟩
      · split <;> exact ⟨_, rfl⟩

/-- `reach_getters_total` in the `WInvWeak`-only state of the examples: the deactivated runner's reward, its done flag -/
example : (∃ x s', Ex.getReward exRTCfg.toEx exRTState2 1 = .ok (x, s')) ∧ (∃ b, RT.getDone exRTCfg exRTState2 1 = .ok b) :=
  have h := reach_getters_total exRTCfg exRTWorld2 ((cfgOKb_iff _).mp (by decide +kernel)) (by decide +kernel) [] exRTOps
    (fun op hop => by
      simp only [exRTOps, List.mem_cons, List.mem_nil_iff, or_false] at hop
      rcases hop with rfl | rfl
      · exact Ex.resetOK_of_b (by decide +kernel)
      · trivial) 1 (by decide) (by decide +kernel)
  ⟨h.1 (by decide), h.2.1⟩

/-- the manager theorems are inhabited: a turn-based run over `exRTWorld2` -/
example : specC01 .turnBased 3 exRTCfg.isLearning false
    (runOps (RT.toSimIface exRTCfg 3) .turnBased (mgrInit ({ w := exRTWorld2 } : Ex.St) false [])
      [.reset, .step [(0, { move := (0, -1), attack := .grid [] })]]) = true :=
  C01_ReachTheTarget exRTCfg 3 .turnBased (by decide) (fun _ => ⟨0, by decide, by decide⟩)
    (mgrInit ({ w := exRTWorld2 } : Ex.St) false []) [.reset, .step [(0, { move := (0, -1), attack := .grid [] })]]

end Abmarl
