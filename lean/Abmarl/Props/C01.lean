import Abmarl.Spec.Managers
