import Abmarl.Lemmas.ManagersInv
import Abmarl.Model.StubSim
/-!
# C01 — Simulation managers honour the done protocol on every step

Property theorems only (helper lemmas live in `Lemmas/`).  The model is
`Model/Managers.lean` (the three managers over an arbitrary `SimIface`), the decidable
trace specification is `specC01` in `Spec/Managers.lean`.

* `C01_managers_honour_done_protocol` — for **every** simulation `S` (any state type, any
  action/observation/info types) satisfying the frame conditions `WF`, every manager kind,
  every initial manager state and **every** history of resets and steps, the trace of the
  model satisfies `specC01`.
* the `c01_*` theorems read `specC01` back as the clauses of the property, so that the
  Bool-valued predicate the driver evaluates on implementation traces is seen to say what
  the property says.
-/
namespace Abmarl
variable {σ α ω ι : Type}

/-- **C01** for every simulation, manager kind and history. -/
theorem C01_managers_honour_done_protocol [DecidableEq α] (S : SimIface σ α ω ι) (k : MKind)
    (hW : WF S k) (m0 : MState σ) (ops : List (Op α)) :
    specC01 k S.n S.learning m0.shuffle (runOps S k m0 ops) = true :=
  (runOps_sound hW ops m0 {} (by intro h; simp at h)).1

/-! ## What `specC01` says (readings of the decidable predicate) -/

/-- ghost state before entry `i` of a trace -/
def ghostAt (g0 : GSt) (tr : List (Entry α ω ι)) (i : Nat) : GSt := (tr.take i).foldl gNext g0

/-- the caller protocol holds up to and including entry `i`: no step before the first
successful reset or after an output with `__all__ = true` -/
def ProtocolOK (g0 : GSt) (tr : List (Entry α ω ι)) (i : Nat) : Prop :=
  ∀ j ≤ i, ∀ e, tr[j]? = some e → ∀ acts, e.op = .step acts →
    (ghostAt g0 tr j).started = true ∧ (ghostAt g0 tr j).over = false

/-- `specLoop` means: the per-entry check holds at every entry reached under the protocol. -/
theorem specLoop_at (chk : GSt → Entry α ω ι → Bool) :
    ∀ (tr : List (Entry α ω ι)) (g0 : GSt), specLoop chk g0 tr = true →
      ∀ i e, tr[i]? = some e → ProtocolOK g0 tr i → chk (ghostAt g0 tr i) e = true := by
  intro tr
  induction tr with
  | nil => intro g0 _ i e h; simp at h
  | cons e0 es ih =>
    intro g0 hspec i e hi hp
    have hboth : chk g0 e0 = true ∧ specLoop chk (gNext g0 e0) es = true := by
      unfold specLoop at hspec
      cases hop : e0.op with
      | reset => rw [hop] at hspec; simpa using hspec
      | step acts =>
        rw [hop] at hspec
        have := hp 0 (Nat.zero_le _) e0 (by simp) acts hop
        simp only [ghostAt, List.take_zero, List.foldl_nil] at this
        simpa [this.1, this.2] using hspec
    cases i with
    | zero =>
      simp only [List.getElem?_cons_zero, Option.some.injEq] at hi
      subst hi
      simpa [ghostAt] using hboth.1
    | succ i =>
      simp only [List.getElem?_cons_succ] at hi
      have hp' : ProtocolOK (gNext g0 e0) es i := by
        intro j hj e' he' acts hop'
        have := hp (j + 1) (by omega) e' (by simpa using he') acts hop'
        simpa [ghostAt] using this
      have := ih (gNext g0 e0) hboth.2 i e hi hp'
      simpa [ghostAt] using this

section readings
variable [DecidableEq α] {k : MKind} {n : Nat} {learning : Aid → Bool} {sh : Bool} {g : GSt}
  {acts : List (Aid × α)} {e : Entry α ω ι} {o : Out ω ι}

/-- observation, reward, done and info entries are returned for exactly the same agents,
each agent once -/
theorem c01_keys_agree (h : c01Step k n learning sh g acts e = true) (ho : e.res = .stepOk o) :
    keys o.rewards = keys o.obs ∧ keys o.dones = keys o.obs ∧ keys o.infos = keys o.obs ∧
      (keys o.obs).Nodup :=
  let u := c01Step_unpack h ho
  ⟨u.keysR, u.keysD, u.keysI, u.nodup⟩

/-- an agent already reported done in this episode is never included again
(so each agent is reported done at most once) -/
theorem c01_never_reports_done_agent (h : c01Step k n learning sh g acts e = true)
    (ho : e.res = .stepOk o) : ∀ a ∈ keys o.obs, a ∉ g.R :=
  (c01Step_unpack h ho).notR

/-- only participating agents are reported, and when `__all__` is reported every participating
agent that was not yet reported done gets its final report in this output -/
theorem c01_final_report (h : c01Step k n learning sh g acts e = true) (ho : e.res = .stepOk o) :
    (∀ a ∈ keys o.obs, a ∈ participating k n learning) ∧
    (o.allDone = true → ∀ a ∈ participating k n learning, a ∈ g.R ∨ a ∈ keys o.obs) :=
  let u := c01Step_unpack h ho
  ⟨u.part, u.final⟩

/-- an action for an already-done agent is rejected, and the simulation was not advanced -/
theorem c01_rejects_before_step (h : c01Step k n learning sh g acts e = true)
    (hb : ∃ p ∈ acts, p.1 ∈ g.R) :
    e.res = .err .rejected ∧ e.simArgs = none ∧ e.accrued = g.pend ∧ e.ghost.pending = g.pend := by
  have hb' : (acts.any fun p => decide (p.1 ∈ g.R)) = true := by
    obtain ⟨p, hp, hpr⟩ := hb
    exact List.any_eq_true.mpr ⟨p, hp, by simpa using hpr⟩
  unfold c01Step at h
  cases hr : e.res with
  | resetOk _ => simp [hr] at h
  | stepOk o => simp [hr, hb'] at h
  | err er =>
    simp only [hr, Bool.and_eq_true, decide_eq_true_eq, Option.isNone_iff_eq_none, beq_iff_eq] at h
    exact ⟨by rw [h.1.1.1.1], h.1.1.2, h.1.2, h.2⟩

/-- any rejection at all happens before the simulation is advanced and only for a blocked action -/
theorem c01_error_is_clean_rejection (h : c01Step k n learning sh g acts e = true) {er : Err}
    (hr : e.res = .err er) : er = .rejected ∧ e.simArgs = none ∧ e.ghost.pending = g.pend ∧
      ∃ p ∈ acts, p.1 ∈ g.R ∨ (k ≠ .dynamic ∧ learning p.1 = false) := by
  simp only [c01Step, hr, Bool.and_eq_true, decide_eq_true_eq, Option.isNone_iff_eq_none, beq_iff_eq,
    List.any_eq_true, Bool.or_eq_true, bne_iff_ne, ne_eq, Bool.not_eq_true'] at h
  obtain ⟨⟨⟨⟨h1, p, hp, hpp⟩, h3⟩, _⟩, h5⟩ := h
  exact ⟨h1, h3, h5, p, hp, hpp⟩

/-- accepted actions reach the simulation unchanged (as a permutation when the all-step manager
was asked to randomise the input order) -/
theorem c01_actions_reach_sim (h : c01Step k n learning sh g acts e = true) (ho : e.res = .stepOk o) :
    ∃ args, e.simArgs = some args ∧ (if sh then permOf args acts = true else args = acts) := by
  have h6 := (c01Step_unpack h ho).args
  cases hs : e.simArgs with
  | none => simp [hs] at h6
  | some args =>
    refine ⟨args, rfl, ?_⟩
    cases sh <;> simpa [hs] using h6

/-- `__all__` is true exactly when the simulation declares itself finished or every
participating agent has been reported done -/
theorem c01_allDone_iff (h : c01Step k n learning sh g acts e = true) (ho : e.res = .stepOk o) :
    o.allDone = true ↔
      (e.ghost.simAllDone = true ∨ ∀ a ∈ participating k n learning, a ∈ g.R ++ newlyDone o.dones) := by
  rw [(c01Step_unpack h ho).allDone]
  simp [List.all_eq_true]

/-- every reward pending for a reported agent after the simulation step is delivered in this
output and its accumulator is empty afterwards; an unreported agent's pending reward is kept -/
theorem c01_ledger (h : c01Step k n learning sh g acts e = true) (ho : e.res = .stepOk o) :
    ∀ a < n, (∀ r, o.rewards.lookup a = some r → r = e.accrued.getD a 0 ∧ e.ghost.pending.getD a 0 = 0) ∧
             (o.rewards.lookup a = none → e.ghost.pending.getD a 0 = e.accrued.getD a 0) := by
  have hl := (c01Step_unpack h ho).ledger
  unfold ledgerOk at hl
  rw [List.all_eq_true] at hl
  intro a ha
  have := hl a (by simpa using ha)
  cases hlk : o.rewards.lookup a with
  | none => simpa [hlk] using this
  | some r =>
    simp only [hlk, Bool.and_eq_true, beq_iff_eq] at this
    exact ⟨fun r' hr' => by cases hr'; exact this, by simp⟩

end readings

/-! ## The stub family used by the correspondence check satisfies the hypotheses -/

/-- scripts the harness generates for the dynamic-order manager -/
def ScriptWF (sc : Script) : Prop :=
  0 < sc.n ∧ ∀ l ∈ sc.noms, l.Nodup ∧ ∀ a ∈ l, a < sc.n

theorem stub_lawful (sc : Script) : Lawful (stubSim sc) where
  obs_done := by intros; rfl
  obs_allDone := by intros; rfl
  obs_next := by intros; rfl
  obs_pending := by intros; rfl
  rew_done := by intros; rfl
  rew_allDone := by intros; rfl
  rew_next := by intros; rfl
  rew_val := by intros; rfl
  rew_pending := by
    intro s a b
    simp only [stubSim]
    by_cases h : b = a
    · subst h
      by_cases hb : b < s.pend.length
      · simp [List.getD, hb]
      · simp [List.getD, hb]
    · have : a ≠ b := fun e => h e.symm
      simp [List.getD, List.getElem?_set_ne this, h]

theorem stub_WF (sc : Script) (k : MKind) (hl : k = .turnBased → ∃ a < sc.n, sc.learning.getD a false = true)
    (hd : k = .dynamic → ScriptWF sc) : WF (stubSim sc) k where
  lawful := stub_lawful sc
  turn := by
    intro hk
    obtain ⟨a, ha, hla⟩ := hl hk
    intro he
    have : a ∈ (stubSim sc).learners := (mem_learners _ a).mpr ⟨ha, hla⟩
    rw [he] at this; cases this
  dyn := by
    intro hk
    obtain ⟨h0, hn⟩ := hd hk
    refine ⟨h0, fun s => ?_⟩
    show ((sc.noms[s.t]?).getD (List.range sc.n)).Nodup ∧ ∀ a ∈ (sc.noms[s.t]?).getD (List.range sc.n), a < sc.n
    cases hg : sc.noms[s.t]? with
    | none => simp [List.nodup_range]
    | some l =>
      have := hn l (List.mem_of_getElem? hg)
      simpa using this

/-- the judge is sound on the scripted family: the model's own trace always passes -/
theorem C01_stub (sc : Script) (k : MKind) (m0 : MState StubSt) (ops : List (Op Int))
    (hl : k = .turnBased → ∃ a < sc.n, sc.learning.getD a false = true)
    (hd : k = .dynamic → ScriptWF sc) :
    specC01 k sc.n (stubSim sc).learning m0.shuffle (runOps (stubSim sc) k m0 ops) = true :=
  C01_managers_honour_done_protocol (stubSim sc) k (stub_WF sc k hl hd) m0 ops

/-! ## Non-vacuity: a concrete history with a finish "before its turn", a simultaneous double
finish, a non-learning entity and a rejected action meets every hypothesis and exercises
every clause. -/

def exScript : Script :=
  { n := 4, learning := [true, true, false, true], doneAt := [2, 2, 9, 0], finishAt := 9, noms := [] }

def exOps : List (Op Int) :=
  [.reset, .step [(0, 1)], .step [(1, 2)], .step [(0, 3)], .step [(1, 1)], .reset, .step [(0, 0)]]

example : WF (stubSim exScript) .turnBased :=
  stub_WF exScript .turnBased (fun _ => ⟨0, by decide, by decide⟩) (by intro h; cases h)

/-- the example history really contains a rejection, a done report and a second episode -/
example :
    let tr := runOps (stubSim exScript) .turnBased (mgrInit {} false []) exOps
    (tr.any fun e => match e.res with | .err .rejected => true | _ => false) = true ∧
    (tr.any fun e => match e.res with | .stepOk o => o.dones.any (·.2) | _ => false) = true ∧
    specC01 .turnBased 4 (stubSim exScript).learning false tr = true := by
  decide

end Abmarl
