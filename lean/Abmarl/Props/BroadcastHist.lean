import Abmarl.Props.Broadcast
/-!
# `BroadcastSim`: the model's own trace passes the judge `BC.specBC` (`broadcast_hist`)

Per-call lemmas: the clause of `BC.judge1` for each kind of call holds on the entry the model produces from a state of
the invariant (`BC.Inv`), under the hypotheses `BC.bcPre` names (`BC.PreOK`).
-/
namespace Abmarl
namespace BC
open World Ex

/-- what the judge's precondition says about the constructed world and the configuration -/
structure PreOK (cfg : Cfg) (w0 : World) : Prop where
  cfgok : CfgOK w0
  fresh : w0.vitalsAlive = true
  enc : ∀ b < w0.n, 0 < w0.encOf b
  iammo : ∀ b < w0.n, 0 ≤ (w0.cfgOf b).initAmmo
  hyp : cfgHypb cfg w0 = true

/-- `cfgHypb` reads only the static part -/
theorem cfgHypb_frame (cfg : Cfg) {w0 w : World} (h : SFrame w0 w) : cfgHypb cfg w = cfgHypb cfg w0 := by
  have he : w.encOf = w0.encOf := funext (sframe_encOf h)
  simp only [cfgHypb, sframe_n h, he]

theorem good_tape {cfg : Cfg} {w0 : World} {s : St} (t : Tape) (h : Good cfg w0 s) : Good cfg w0 { s with tape := t } :=
  ⟨h.x, h.msgs, h.recv, h.led⟩

/-- a dump on which `goodb` holds is not the constructed object -/
theorem good_of_goodb {cfg : Cfg} {w0 : World} {s : St} (hI : Inv cfg w0 s) (res0 : BRes)
    (h : goodb cfg (see res0 s) = true) : Good cfg w0 s := by
  rcases hI with hG | hG
  · exact hG
  · simp [goodb, see, hG.2] at h

theorem aliveb_of_good {cfg : Cfg} {w0 : World} {s : St} (hG : Good cfg w0 s) : aliveb s.w = true := by
  simp only [aliveb, allAgents, List.all_eq_true, List.mem_range]
  exact fun a ha => (hG.x.alive a ha).2.2

/-- **the `get_done` entry** -/
theorem judge1_done (cfg : Cfg) (w0 : World) (s : St) (a : Aid) (res0 : BRes) :
    judge1 cfg w0 (see res0 s) (.done a) (runOp cfg s (.done a)).1 = true := by
  simp [judge1, runOp, see, getDone]

/-- **the `get_reward` entry** -/
theorem judge1_rew (cfg : Cfg) (w0 : World) (s : St) (a : Aid) (res0 : BRes) :
    judge1 cfg w0 (see res0 s) (.rew a) (runOp cfg s (.rew a)).1 = true := by
  simp only [runOp, getReward]
  cases hr : s.rewards with
  | none => simp [judge1, see, hr]
  | some r =>
    simp only [rewardVal]
    cases hl : r.lookup a with
    | none => simp [judge1, see, hr, hl]
    | some x => simp [judge1, see, hr, hl]

/-- **the `step` entry**, from the constructed object as well -/
theorem judge1_step' {cfg : Cfg} {w0 : World} (hW : PreOK cfg w0) {s : St} (hI : Inv cfg w0 s)
    (acts : List (Aid × Act)) (t : Tape) (hA : ActsOK w0 acts) (res0 : BRes) :
    judge1 cfg w0 (see res0 s) (.step acts t) (runOp cfg s (.step acts t)).1 = true := by
  rcases hI with hG | hG
  · exact judge1_step hW.cfgok hG (by rw [cfgHypb_frame cfg hG.x.frame]; exact hW.hyp) acts t hA res0
  · have : step cfg { s with tape := t } acts = .error .other := by
      unfold step; simp [hG.2]
    simp only [runOp, this]
    simp [judge1, see, stepMustNotRaise, goodb, hG.2]

/-- **the `reset` entry** -/
theorem judge1_reset {cfg : Cfg} {w0 : World} (hW : PreOK cfg w0) {s : St} (hI : Inv cfg w0 s)
    (c : StateComp) (t : Tape) (hc : MAG.CompOK w0 c) (res0 : BRes) :
    judge1 cfg w0 (see res0 s) (.reset c t) (runOp cfg s (.reset c t)).1 = true := by
  simp only [runOp]
  cases h : reset cfg c { s with tape := t } with
  | error e => simp [judge1, see]
  | ok s' =>
    have hG := reset_good hW.cfgok hW.fresh hc (inv_tape t hI) h
    have hal := aliveb_of_good hG
    unfold reset at h
    cases ha : applyComps [c] s.w t with
    | error e => simp [ha] at h
    | ok r =>
      obtain ⟨w', t'⟩ := r
      simp only [ha, Except.ok.injEq] at h
      subst h
      have hinit : ((List.range w'.n).all fun a =>
          match cfg.initOf a with
          | some v => !cfg.isB a || ((drawMsgs cfg (List.range w'.n) t').1.getD a none == some (clamp v))
          | none => true) = true := by
        simp only [List.all_eq_true, List.mem_range]
        intro a ha'
        have hg := drawMsgs_get cfg (List.range w'.n) t' a (by rw [List.length_range]; exact ha')
        simp only [List.getElem_range] at hg
        cases hv : cfg.initOf a with
        | none => rfl
        | some v =>
          cases hb : cfg.isB a with
          | false => rfl
          | true =>
            obtain ⟨m, h1, _, h3⟩ := hg.1 hb
            rw [h1, h3 v hv]; simp
      have hm := (msgsOK_iff _ _ _).mpr hG.msgs
      simp only at hm hal
      simp only [judge1, see, Bool.and_eq_true]
      refine ⟨⟨⟨⟨⟨⟨⟨by rfl, hG.x.inv⟩, Ex.frameb_of_sframe hG.x.frame⟩, hal⟩, hm⟩, hinit⟩, by simp⟩, by simp⟩

theorem frame_enc {cfg : Cfg} {w0 : World} (hW : PreOK cfg w0) {w : World} (hF : SFrame w0 w) :
    (∀ b < w.n, 0 < w.encOf b) ∧ (∀ b < w.n, 0 ≤ (w.cfgOf b).initAmmo) :=
  ⟨fun b hb => by rw [sframe_encOf hF]; exact hW.enc b (by rw [← sframe_n hF]; exact hb),
   fun b hb => by rw [sframe_cfgOf hF]; exact hW.iammo b (by rw [← sframe_n hF]; exact hb)⟩

theorem absR_self_bound (x : Rat) : decide (absR (x - x) ≤ bound) = true := by
  rw [Rat.sub_self]; decide +kernel

/-- **the `get_obs` entry** -/
theorem judge1_obs {cfg : Cfg} {w0 : World} (hW : PreOK cfg w0) {s : St} (hI : Inv cfg w0 s) (a : Aid) (t : Tape)
    (res0 : BRes) : judge1 cfg w0 (see res0 s) (.obs a t) (runOp cfg s (.obs a t)).1 = true := by
  simp only [runOp]
  cases h : getObs cfg { s with tape := t } a with
  | error e =>
    show (!(goodb cfg (see res0 s) && decide (a < (see res0 s).w.n))) = true
    by_contra hc
    rw [Bool.not_eq_true', Bool.not_eq_false, Bool.and_eq_true] at hc
    have hm : goodb cfg (see res0 s) = true ∧ decide (a < s.w.n) = true := hc
    have hG := good_tape t (good_of_goodb hI res0 hm.1)
    have ha : a < s.w.n := of_decide_eq_true hm.2
    obtain ⟨henc, hammo⟩ := frame_enc hW hG.x.frame
    obtain ⟨g, t', _, _, hno, hyes⟩ := getObs_spec hG ha henc hammo
    cases hb : cfg.isB a with
    | false => rw [hno hb] at h; cases h
    | true =>
      obtain ⟨_, _, _, _, _, _, _, _, hget⟩ := hyes hb
      rw [hget] at h; cases h
  | ok r =>
    obtain ⟨o, s'⟩ := r
    have hG : Good cfg w0 { s with tape := t } := by
      rcases hI with hG | hG
      · exact good_tape t hG
      · unfold getObs at h; simp [hG.2] at h
    obtain ⟨r0, hr0, _⟩ := hG.led
    have hr0' : s.rewards = some r0 := hr0
    have ha : a < s.w.n := by
      by_contra hc
      unfold getObs at h
      simp [hr0', Nat.le_of_not_lt hc] at h
    obtain ⟨henc, hammo⟩ := frame_enc hW hG.x.frame
    obtain ⟨g, t', _, hgrid, hno, hyes⟩ := getObs_spec hG ha henc hammo
    cases hb : cfg.isB a with
    | false =>
      rw [hno hb] at h
      simp only [Except.ok.injEq, Prod.mk.injEq] at h
      obtain ⟨rfl, rfl⟩ := h
      simp only at hgrid
      simp [judge1, see, hb, hgrid]
    | true =>
      obtain ⟨rv, rf, own, hrv, hrf, hown, hu, hall, hget⟩ := hyes hb
      rw [hget] at h
      simp only [Except.ok.injEq, Prod.mk.injEq] at h
      obtain ⟨rfl, rfl⟩ := h
      have hs := slots_ok cfg s.w.n a (clamp (average (rf.map (·.2) ++ [own]))) rf (clamp_inUnit _) hall
      have hlen : a < s.msgs.length := by rw [hG.msgs.1]; exact ha
      have hnew : (s.msgs.set a (some (clamp (average (rf.map (·.2) ++ [own]))))).getD a none =
          some (clamp (average (rf.map (·.2) ++ [own]))) := by
        simp [List.getD_eq_getElem?_getD, hlen]
      simp only at hgrid hrv hown
      simp only [judge1, see, hb, if_true, hrv, hown, hnew, hrf, Bool.and_eq_true, beq_iff_eq, hgrid, hs,
        clamp_inUnit, absR_self_bound, and_self]

theorem mapM_isSome {α β : Type} (f : α → Option β) : ∀ l : List α,
    (l.mapM f).isSome = l.all fun b => (f b).isSome := by
  intro l
  induction l with
  | nil => simp
  | cons a l ih =>
    rw [List.mapM_cons, List.all_cons, ← ih]
    cases f a <;> cases l.mapM f <;> simp

theorem doneAccepted_exact (cfg : Cfg) (ms : List Rat) : doneAccepted cfg ms (.bool (allDoneOn cfg ms)) = true := by
  have hb : (0 : Rat) ≤ bound := by decide +kernel
  cases hd : allDoneOn cfg ms with
  | true =>
    simp only [doneAccepted, allDoneWith, List.all_eq_true, decide_eq_true_eq]
    simp only [allDoneOn, List.all_eq_true, decide_eq_true_eq] at hd
    intro m hm
    have := hd m hm
    grind
  | false =>
    simp only [doneAccepted, allDoneWith, Bool.not_eq_true', List.all_eq_false, decide_eq_true_eq]
    simp only [allDoneOn, List.all_eq_false, decide_eq_true_eq] at hd
    obtain ⟨m, hm, hlt⟩ := hd
    refine ⟨m, hm, ?_⟩
    grind

/-- **the `get_all_done` entry** -/
theorem judge1_allDone (cfg : Cfg) (w0 : World) (s : St) (res0 : BRes) :
    judge1 cfg w0 (see res0 s) .allDone (runOp cfg s .allDone).1 = true := by
  simp only [runOp, getAllDone]
  have hbs : (List.range s.w.n).filter cfg.isB = bcasters cfg s.w.n := rfl
  rw [hbs]
  cases hbc : bcasters cfg s.w.n with
  | nil => simp [judge1, see, hbc, doneAccepted, allDoneWith]
  | cons b bs =>
    simp only [List.isEmpty_cons, Bool.false_eq_true, if_false]
    rw [← hbc]
    have hsome := mapM_isSome (fun b => s.msgOf b) (bcasters cfg s.w.n)
    cases hm : (bcasters cfg s.w.n).mapM (fun b => s.msgOf b) with
    | none =>
      rw [hm] at hsome
      simp only [St.msgOf] at hsome
      simp only [judge1, see]
      have h2 := hsome.symm
      simpa [List.all_eq_false, List.getD_eq_getElem?_getD] using h2
    | some ms =>
      simp only [St.msgOf, List.getD_eq_getElem?_getD] at hm
      simp [judge1, see, hm, doneAccepted_exact]

/-- **one call of the model passes the judge** -/
theorem judge1_model {cfg : Cfg} {w0 : World} (hW : PreOK cfg w0) (s : St) (op : BOp) (hop : OpOK w0 op)
    (hI : Inv cfg w0 s) (res0 : BRes) : judge1 cfg w0 (see res0 s) op (runOp cfg s op).1 = true := by
  cases op with
  | reset c t => exact judge1_reset hW hI c t hop res0
  | step acts t => exact judge1_step' hW hI acts t hop res0
  | obs a t => exact judge1_obs hW hI a t res0
  | rew a => exact judge1_rew cfg w0 s a res0
  | done a => exact judge1_done cfg w0 s a res0
  | allDone => exact judge1_allDone cfg w0 s res0

/-- what the trace shows after a call is the state the model is in -/
theorem runOp_entry (cfg : Cfg) (s : St) (op : BOp) :
    (runOp cfg s op).1 = see (runOp cfg s op).1.res (runOp cfg s op).2 := by
  cases op <;> simp only [runOp] <;> (try split) <;> rfl

theorem zipOps_nil_right (ops : List BOp) : zipOps ops [] = [] := by
  cases ops <;> rfl

/-- **the model's own trace passes the judge**, from any state of the invariant -/
theorem specFrom_model {cfg : Cfg} {w0 : World} (hW : PreOK cfg w0) :
    ∀ (ops : List BOp) (s : St) (res0 : BRes), (∀ op ∈ ops, OpOK w0 op) → Inv cfg w0 s →
      specFrom cfg w0 (see res0 s) (zipOps ops (runOps cfg s ops).1) = true := by
  intro ops
  induction ops with
  | nil => intro s _ _ _; rfl
  | cons op ops ih =>
    intro s res0 hops hI
    have hj := judge1_model hW s op (hops op List.mem_cons_self) hI res0
    have hI' := runOp_inv hW.cfgok hW.fresh s op (hops op List.mem_cons_self) hI
    have he := runOp_entry cfg s op
    have hih := ih (runOp cfg s op).2 (runOp cfg s op).1.res (fun o ho => hops o (List.mem_cons_of_mem _ ho)) hI'
    rw [← he] at hih
    simp only [runOps]
    cases hres : (runOp cfg s op).1.res with
    | err e => simp [BRes.isErr, zipOps, zipOps_nil_right, specFrom, hj, hres]
    | unit => simp [BRes.isErr, zipOps, specFrom, hj, hres, hih]
    | int x => simp [BRes.isErr, zipOps, specFrom, hj, hres, hih]
    | obs o => simp [BRes.isErr, zipOps, specFrom, hj, hres, hih]
    | bool b => simp [BRes.isErr, zipOps, specFrom, hj, hres, hih]

/-- `bcPre` is the conjunction of the hypotheses -/
theorem bcPre_hyps {cfg : Cfg} {w0 : World} {ops : List BOp} (h : bcPre cfg w0 ops = true) :
    PreOK cfg w0 ∧ ∀ op ∈ ops, OpOK w0 op := by
  simp only [bcPre, Bool.and_eq_true, List.all_eq_true, allAgents, List.mem_range, decide_eq_true_eq] at h
  obtain ⟨⟨⟨⟨⟨⟨⟨h1, h2⟩, _⟩, h4⟩, h5⟩, h6⟩, _⟩, h8⟩ := h
  refine ⟨⟨(cfgOKb_iff w0).mp h1, h2, ?_, h5, h6⟩, ?_⟩
  · intro b hb
    have := h4
    simp only [encPosb, allAgents, List.all_eq_true, List.mem_range, decide_eq_true_eq] at this
    exact this b hb
  · intro op hop
    have := h8 op hop
    cases op with
    | reset c t => exact MAG.compOK_of_b this
    | step acts t =>
      intro x hx
      simp only [List.all_eq_true, Bool.and_eq_true, decide_eq_true_eq] at this
      exact this x hx
    | obs a t => trivial
    | rew a => trivial
    | done a => trivial
    | allDone => trivial

end BC

/-- **`broadcast_hist`**: under the class precondition `BC.bcPre` (the world as the constructors leave it, the configuration
hypothesis `BC.cfgHypb`, the history starts with a reset, every reset holds a covered placement state, every step's
items are for agents of the simulation with moves of the declared spaces — ANY `broadcast` values) the trace the model
computes satisfies the judge `BC.specBC`, for every configuration, history and tape: every clause of `BC.judge1` (C03
after reset / step, messages, full delivery `BC.recvAfter`, observations in space with the slot clause, read-and-reset
rewards, the done getters with the exact tolerance test, "must not raise") on every entry, and a raising call ends the
trace. -/
theorem broadcast_hist (cfg : BC.Cfg) (w0 : World) (ops : List BC.BOp) (hpre : BC.bcPre cfg w0 ops = true) :
    BC.specBC cfg w0 (BC.zipOps ops (BC.runOps cfg (BC.init w0) ops).1) = true := by
  obtain ⟨hW, hops⟩ := BC.bcPre_hyps hpre
  exact BC.specFrom_model hW ops (BC.init w0) .unit hops (Or.inr ⟨rfl, rfl⟩)

/-- the same from any initial tape -/
theorem broadcast_hist_tape (cfg : BC.Cfg) (w0 : World) (t0 : Tape) (ops : List BC.BOp)
    (hpre : BC.bcPre cfg w0 ops = true) :
    BC.specBC cfg w0 (BC.zipOps ops (BC.runOps cfg { BC.init w0 with tape := t0 } ops).1) = true := by
  obtain ⟨hW, hops⟩ := BC.bcPre_hyps hpre
  exact BC.specFrom_model hW ops { BC.init w0 with tape := t0 } .unit hops (Or.inr ⟨rfl, rfl⟩)

/-- a history with everything in it on the world with the blocker: reset; a step in which agent 0 broadcasts; a read by
agent 2; a reward read; both done getters; a read for an agent that does not exist (raises, ends the trace) -/
def exBCHistOps : List BC.BOp :=
  [.reset (.position .position {}) [], .step [(0, { broadcast := 1 })] [], .obs 2 [], .rew 0, .done 0, .allDone,
   .obs 7 []]

/-- the precondition is inhabited, and the trace is the expected one (raised?) … -/
example : BC.bcPre exBCCfg3 exBCWorld3 exBCHistOps = true ∧
    ((BC.runOps exBCCfg3 (BC.init exBCWorld3) exBCHistOps).1.map fun e => e.res.isErr) =
      [false, false, false, false, false, false, true] := by
  refine ⟨by decide +kernel, by decide +kernel⟩

/-- … and it passes the judge, by the theorem -/
example : BC.specBC exBCCfg3 exBCWorld3
    (BC.zipOps exBCHistOps (BC.runOps exBCCfg3 (BC.init exBCWorld3) exBCHistOps).1) = true :=
  broadcast_hist exBCCfg3 exBCWorld3 exBCHistOps (by decide +kernel)

/-- the judge is not trivially true: the same trace with every receiving list emptied is rejected (the delivery clause) -/
example : BC.specBC exBCCfg3 exBCWorld3
    (BC.zipOps exBCHistOps ((BC.runOps exBCCfg3 (BC.init exBCWorld3) exBCHistOps).1.map fun e =>
      { e with recv := some (BC.emptyRecv exBCCfg3 4) })) = false := by
  decide +kernel

end Abmarl
