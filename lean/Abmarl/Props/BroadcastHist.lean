import Abmarl.Props.Broadcast
/-!
# `BroadcastSim`: the model's own trace passes the judge `BC.specBC` (`broadcast_hist`)

Per-call lemmas: the clause of `BC.judge1` for each kind of call holds on the entry the model produces from a state of
the invariant (`BC.Inv`), under the hypotheses `BC.bcPre` names (`BC.PreOK`).
-/
namespace Abmarl
namespace BC
open World Ex

/-- what the judge's precondition says about the constructed world and the configuration -/
structure PreOK (cfg : Cfg) (w0 : World) : Prop where
  cfgok : CfgOK w0
  fresh : w0.vitalsAlive = true
  enc : ∀ b < w0.n, 0 < w0.encOf b
  iammo : ∀ b < w0.n, 0 ≤ (w0.cfgOf b).initAmmo
  hyp : cfgHypb cfg w0 = true

/-- `cfgHypb` reads only the static part -/
theorem cfgHypb_frame (cfg : Cfg) {w0 w : World} (h : SFrame w0 w) : cfgHypb cfg w = cfgHypb cfg w0 := by
  have he : w.encOf = w0.encOf := funext (sframe_encOf h)
  simp only [cfgHypb, sframe_n h, he]

theorem good_tape {cfg : Cfg} {w0 : World} {s : St} (t : Tape) (h : Good cfg w0 s) : Good cfg w0 { s with tape := t } :=
  ⟨h.x, h.msgs, h.recv, h.led⟩

/-- a dump on which `goodb` holds is not the constructed object -/
theorem good_of_goodb {cfg : Cfg} {w0 : World} {s : St} (hI : Inv cfg w0 s) (res0 : BRes)
    (h : goodb cfg (see res0 s) = true) : Good cfg w0 s := by
  rcases hI with hG | hG
  · exact hG
  · simp [goodb, see, hG.2] at h

theorem aliveb_of_good {cfg : Cfg} {w0 : World} {s : St} (hG : Good cfg w0 s) : aliveb s.w = true := by
  simp only [aliveb, allAgents, List.all_eq_true, List.mem_range]
  exact fun a ha => (hG.x.alive a ha).2.2

/-- **the `get_done` entry** -/
theorem judge1_done (cfg : Cfg) (w0 : World) (s : St) (a : Aid) (res0 : BRes) :
    judge1 cfg w0 (see res0 s) (.done a) (runOp cfg s (.done a)).1 = true := by
  simp [judge1, runOp, see, getDone]

/-- **the `get_reward` entry** -/
theorem judge1_rew (cfg : Cfg) (w0 : World) (s : St) (a : Aid) (res0 : BRes) :
    judge1 cfg w0 (see res0 s) (.rew a) (runOp cfg s (.rew a)).1 = true := by
  simp only [runOp, getReward]
  cases hr : s.rewards with
  | none => simp [judge1, see, hr]
  | some r =>
    simp only [rewardVal]
    cases hl : r.lookup a with
    | none => simp [judge1, see, hr, hl]
    | some x => simp [judge1, see, hr, hl]

/-- **the `step` entry**, from the constructed object as well -/
theorem judge1_step' {cfg : Cfg} {w0 : World} (hW : PreOK cfg w0) {s : St} (hI : Inv cfg w0 s)
    (acts : List (Aid × Act)) (t : Tape) (hA : ActsOK w0 acts) (res0 : BRes) :
    judge1 cfg w0 (see res0 s) (.step acts t) (runOp cfg s (.step acts t)).1 = true := by
  rcases hI with hG | hG
  · exact judge1_step hW.cfgok hG (by rw [cfgHypb_frame cfg hG.x.frame]; exact hW.hyp) acts t hA res0
  · have : step cfg { s with tape := t } acts = .error .other := by
      unfold step; simp [hG.2]
    simp only [runOp, this]
    simp [judge1, see, stepMustNotRaise, goodb, hG.2]

/-- **the `reset` entry** -/
theorem judge1_reset {cfg : Cfg} {w0 : World} (hW : PreOK cfg w0) {s : St} (hI : Inv cfg w0 s)
    (c : StateComp) (t : Tape) (hc : MAG.CompOK w0 c) (res0 : BRes) :
    judge1 cfg w0 (see res0 s) (.reset c t) (runOp cfg s (.reset c t)).1 = true := by
  simp only [runOp]
  cases h : reset cfg c { s with tape := t } with
  | error e => simp [judge1, see]
  | ok s' =>
    have hG := reset_good hW.cfgok hW.fresh hc (inv_tape t hI) h
    have hal := aliveb_of_good hG
    unfold reset at h
    cases ha : applyComps [c] s.w t with
    | error e => simp [ha] at h
    | ok r =>
      obtain ⟨w', t'⟩ := r
      simp only [ha, Except.ok.injEq] at h
      subst h
      have hinit : ((List.range w'.n).all fun a =>
          match cfg.initOf a with
          | some v => !cfg.isB a || ((drawMsgs cfg (List.range w'.n) t').1.getD a none == some (clamp v))
          | none => true) = true := by
        simp only [List.all_eq_true, List.mem_range]
        intro a ha'
        have hg := drawMsgs_get cfg (List.range w'.n) t' a (by rw [List.length_range]; exact ha')
        simp only [List.getElem_range] at hg
        cases hv : cfg.initOf a with
        | none => rfl
        | some v =>
          cases hb : cfg.isB a with
          | false => rfl
          | true =>
            obtain ⟨m, h1, _, h3⟩ := hg.1 hb
            rw [h1, h3 v hv]; simp
      have hm := (msgsOK_iff _ _ _).mpr hG.msgs
      simp only at hm hal
      simp only [judge1, see, Bool.and_eq_true]
      refine ⟨⟨⟨⟨⟨⟨⟨by rfl, hG.x.inv⟩, Ex.frameb_of_sframe hG.x.frame⟩, hal⟩, hm⟩, hinit⟩, by simp⟩, by simp⟩

end BC
end Abmarl
