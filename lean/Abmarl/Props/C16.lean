import Abmarl.Lemmas.Trainer
import Abmarl.Model.StubSim
import Abmarl.Props.C01
/-!
# C16 — Episode generation never acts for finished agents and records aligned data

* `C16_generate_episode` — for every simulation satisfying `WF`, every manager kind, every
  policy set and mapping, every horizon and every initial manager state, the model of
  `MultiPolicyTrainer.generate_episode` returns a record satisfying `specC16`: no exception
  escapes; each iteration asks exactly the not-done agents of the latest output, each with its own
  observation and through its mapped policy, and sends exactly those answers; the loop stops at the
  horizon or as soon as `__all__` is reported; the per-agent records hold every observation,
  action, reward and done flag in order; at most one true done flag per agent, nothing after it.
* `EpOK` (Lemmas/Trainer.lean) is the Prop reading of `specC16`; `specC16_iff`-direction used by the
  judge is `specC16_of_EpOK`, the converse reading is `c16_reading`.
* `C16_alignment` — the constructor check: if `_check_agent_policy_alignment` accepts, every query
  goes to a policy whose spaces equal the agent's.
-/
namespace Abmarl
variable {σ α ω ι : Type}

theorem specC16_of_EpOK [DecidableEq α] [DecidableEq ω] {n horizon : Nat} {pmap : Aid → Nat}
    {r : EpRec α ω ι} (h : EpOK n horizon pmap r) : specC16 n horizon pmap r = true := by
  obtain ⟨e0, es, htr, he0, hes⟩ := h.recs.shape
  have hlen : r.trace.length - 1 = r.queries.length := by have := h.recs.qlen; omega
  unfold specC16
  simp only [Bool.and_eq_true, decide_eq_true_eq, List.all_eq_true, beq_iff_eq, Bool.or_eq_true]
  refine ⟨⟨⟨⟨⟨⟨⟨⟨⟨⟨⟨?_, ?_⟩, ?_⟩, ?_⟩, ?_⟩, ?_⟩, ?_⟩, ?_⟩, ?_⟩, ?_⟩, ?_⟩, ?_⟩
  · simp [h.recs.noErr]
  · rw [htr]; simp only [he0, Bool.true_and, List.all_eq_true]; exact hes
  · exact hlen.symm
  · intro j hj
    have hj' : j < r.trace.length - 1 := by simpa using hj
    have h1 : j < r.trace.length := by omega
    have h2 : j < r.queries.length := by omega
    have h3 : j + 1 < r.trace.length := by omega
    rw [List.getElem?_eq_getElem h1, List.getElem?_eq_getElem h2, List.getElem?_eq_getElem h3]
    obtain ⟨a1, a2, a3⟩ := h.recs.asks j _ _ _ (List.getElem?_eq_getElem h1)
      (List.getElem?_eq_getElem h2) (List.getElem?_eq_getElem h3)
    simp only [Bool.and_eq_true, decide_eq_true_eq, List.all_eq_true, beq_iff_eq]
    exact ⟨⟨a1, a2⟩, a3⟩
  · exact h.stepsLe
  · intro b hb; simpa using h.prefixFalse b hb
  · rcases h.stopReason with h1 | h1
    · exact Or.inl h1
    · right; rw [h1]; rfl
  · intro a _
    exact ⟨⟨⟨h.recs.recO a, h.recs.recR a⟩, h.recs.recD a⟩, h.recs.recA a⟩
  · exact h.recs.allD
  · intro a ha; exact h.recs.keysLt a ha
  · intro a _
    rw [h.recs.recD a]
    unfold recOf
    by_cases he : (expDone r.trace a).isEmpty = true
    · simp [he]
    · have he' : (expDone r.trace a).isEmpty = false := by simpa using he
      simp only [he', Bool.false_eq_true, if_false, List.all_eq_true]
      intro b hb; simpa using h.doneOne a b hb
  · intro a _
    rw [h.recs.recR a, h.recs.recD a]
    have hl := h.recs.lens a
    unfold recOf
    by_cases he : (expRew r.trace a).isEmpty = true
    · have he' : (expDone r.trace a).isEmpty = true := by
        rw [List.isEmpty_iff] at he ⊢
        rw [he] at hl; exact List.length_eq_zero_iff.mp hl.symm
      simp [he, he']
    · have he' : ¬ (expDone r.trace a).isEmpty = true := by
        intro h'
        rw [List.isEmpty_iff] at h'
        rw [h'] at hl
        exact he (by rw [List.isEmpty_iff]; exact List.length_eq_zero_iff.mp hl)
      simp [he, he', hl]

/-- **C16** for every simulation, manager, policy set, mapping, horizon and manager state. -/
theorem C16_generate_episode [DecidableEq α] [DecidableEq ω] (S : SimIface σ α ω ι) (k : MKind)
    (hW : WF S k) (P : Policies α ω) (horizon : Nat) (m : MState σ) :
    specC16 S.n horizon P.pmap (generateEpisode S k P horizon m) = true :=
  specC16_of_EpOK (generateEpisode_ok hW P horizon m)

/-- `DebugTrainer.train`: every one of the episodes it generates stops at the requested horizon and
satisfies `specC16` — whatever state the previous episode left the manager in. -/
theorem C16_train [DecidableEq α] [DecidableEq ω] (S : SimIface σ α ω ι) (k : MKind) (hW : WF S k)
    (P : Policies α ω) (horizon : Nat) :
    ∀ (iterations : Nat) (m : MState σ),
      (trainEpisodes S k P horizon iterations m).length = iterations ∧
      ∀ r ∈ trainEpisodes S k P horizon iterations m, specC16 S.n horizon P.pmap r = true := by
  intro iterations
  induction iterations with
  | zero => intro m; simp [trainEpisodes]
  | succ n ih =>
    intro m
    obtain ⟨h1, h2⟩ := ih (stateAfter S k m ((generateEpisode S k P horizon m).trace.map (·.op)))
    refine ⟨by simp [trainEpisodes, h1], ?_⟩
    intro r hr
    simp only [trainEpisodes, List.mem_cons] at hr
    rcases hr with rfl | hr
    · exact C16_generate_episode S k hW P horizon m
    · exact h2 r hr

/-- the same, in Prop form (this is what `specC16` means) -/
theorem C16_generate_episode_prop [DecidableEq α] (S : SimIface σ α ω ι) (k : MKind)
    (hW : WF S k) (P : Policies α ω) (horizon : Nat) (m : MState σ) :
    EpOK S.n horizon P.pmap (generateEpisode S k P horizon m) :=
  generateEpisode_ok hW P horizon m

/-- reading: under `specC16` the policy is asked only for agents reported in the latest output and
not done there, and exactly those actions are sent -/
theorem c16_asks_only_live [DecidableEq α] [DecidableEq ω] {n horizon : Nat} {pmap : Aid → Nat}
    {r : EpRec α ω ι} (h : specC16 n horizon pmap r = true) (j : Nat) (prev cur : Entry α ω ι)
    (qs : List (Query α ω)) (h1 : r.trace[j]? = some prev) (h2 : r.queries[j]? = some qs)
    (h3 : r.trace[j + 1]? = some cur) :
    qs.map (fun q => (q.agent, q.obs)) = liveOfEntry prev ∧
    (∀ q ∈ qs, q.policy = pmap q.agent) ∧
    stepActs cur = qs.map (fun q => (q.agent, q.action)) := by
  unfold specC16 at h
  simp only [Bool.and_eq_true, List.all_eq_true] at h
  obtain ⟨⟨⟨⟨⟨⟨⟨⟨⟨⟨⟨_, _⟩, _⟩, hask⟩, _⟩, _⟩, _⟩, _⟩, _⟩, _⟩, _⟩, _⟩ := h
  have hj : j < r.trace.length - 1 := by
    rcases List.getElem?_eq_some_iff.mp h3 with ⟨hlt, _⟩; omega
  have := hask j (by simpa using hj)
  rw [h1, h2, h3] at this
  simp only [Bool.and_eq_true, decide_eq_true_eq, List.all_eq_true, beq_iff_eq] at this
  exact ⟨this.1.1, this.1.2, this.2⟩

/-- constructor check: accepted alignment means every learning agent's spaces are its policy's -/
theorem C16_alignment (n : Nat) (learning : Aid → Bool) (pmap : Aid → Nat)
    (aObs aAct : Aid → Nat) (pObs pAct : Nat → Nat)
    (h : checkAlignment n learning pmap aObs aAct pObs pAct = true) :
    ∀ a < n, learning a = true → aObs a = pObs (pmap a) ∧ aAct a = pAct (pmap a) := by
  intro a ha hl
  simp only [checkAlignment, List.all_eq_true, List.mem_range, Bool.or_eq_true, Bool.not_eq_true',
    Bool.and_eq_true, beq_iff_eq] at h
  rcases h a ha with h1 | h1
  · rw [hl] at h1; cases h1
  · exact ⟨h1.2, h1.1⟩

/-- the judge is sound on the scripted family -/
theorem C16_stub (sc : Script) (k : MKind) (pm : List Nat) (act : Nat → List Int → Int) (horizon : Nat)
    (m0 : MState StubSt)
    (hl : k = .turnBased → ∃ a < sc.n, sc.learning.getD a false = true)
    (hd : k = .dynamic → ScriptWF sc) :
    specC16 sc.n horizon (fun a => pm.getD a 0)
      (generateEpisode (stubSim sc) k { pmap := fun a => pm.getD a 0, act := act } horizon m0) = true :=
  C16_generate_episode (stubSim sc) k (stub_WF sc k hl hd) _ horizon m0

/-- non-vacuity: an episode with a finish before the horizon, under two policies -/
example :
    let r := generateEpisode (stubSim exScript) .turnBased
      { pmap := fun a => a % 2, act := fun p o => (o.getD 1 0 + p) % 10 } 20 (mgrInit {} false [])
    r.err = none ∧ r.trace.length = 3 ∧ (r.dones.lookup 1 = some [false, true]) ∧
    specC16 4 20 (fun a => a % 2) r = true := by decide

end Abmarl
