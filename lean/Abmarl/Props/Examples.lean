import Abmarl.Props.C07
import Abmarl.Lemmas.ExamplesObs
import Abmarl.Lemmas.ExamplesReset
import Abmarl.Lemmas.ExamplesNoRaise
import Abmarl.Lemmas.ExamplesJudge
import Abmarl.Lemmas.ExamplesKept
/-!
# The packaged example simulations as instances of the general theorems (C01, C02, C03, C07, C08)

Model: `Model/Examples.lean` (`Ex.Cfg`, `Ex.St`, `Ex.reset`, `Ex.step`, the getters; transcribed from
`abmarl/examples/sim/{team_battle_example, predator_prey_resources, maze_navigation,
multi_maze_navigation, traffic_corridor}.py` and `gridworld/smart.py`), tied to the real classes by
the driver ops `gexample` (direct calls) and `mgrx` (real managers over the real example).  Every
theorem is for **every configuration** `cfg` of the class (`Ex.Cfg`: any agent mix, grid, overlap
table, attack mapping, set of state / observer / done components in any iteration order), every
number of agents, every tape and every history.

* **C01 / C07** `C01_examples`, `C07_examples`, `C07_examples_every_call_returns` — all five classes
  satisfy `Lawful` / `WF` (`Ex.ex_lawful`, `Ex.ex_WF`), hence for every manager that can drive them
  (all-step, turn-based), every initial manager state and every history of resets and steps the
  manager's trace satisfies `specC01` and `specC07`.  Named instances: `C01_TeamBattle`,
  `C01_PredatorPrey`, `C01_MazeNavigation`, `C01_MultiMaze`, `C01_TrafficCorridor` (and `C07_…`).
  (`MultiMazeNavigationSim` was not lawful before the repair fce2c1d — its `get_reward` returned `1`
  on every call while the agent stood on the target, finding C01-E1, which this instantiation
  surfaced: the proof of `rew_pending` failed for it.)
* **C03** `examples_step_is_history` — the world and the remaining tape after `step` are those of
  `runGOpsSeq` over the explicit list `Ex.stepOps cfg acts` of component calls; `examples_reachable_WInv`
  — every state reached by any history of resets, steps and getter calls from the constructed world
  satisfies `WInv` (and has the constructed static part) once a reset has succeeded;
  `examples_simIface_reachable` — the same for the states the managers can drive the `SimIface`
  instance into.
* **C02** `examples_observations_in_space` — in every such state `get_obs` returns for **every** agent
  (alive or dead) and the observation is a dict with exactly the keys of the observers that support the
  agent, each value inside the space that observer declared; `examples_step_noRaise` — a `step` whose
  action dict holds points of the declared action spaces of learning agents (`Ex.StepOK`) does not
  raise (so the totalisation of `Ex.toSimIface` is never used there).  What `Ex.StepOK` assumes beyond
  "points of the declared spaces, for learning agents of the simulation": `MazeNavigationSim` — the
  dict has an item for the navigator; `TrafficCorridorSimulation` — the done components answer for the
  acting agents; nothing for the other three (the two ways in which `TeamBattleSim` /
  `PredatorPreyResourcesSim` raised for in-space actions, findings C02-E2 / C02-E3, were repaired:
  afc90bd, c275832); `examples_get_reward_total`.
* **the judge** `examples_hist` — under `Ex.exPre` the model's own trace satisfies `Ex.specEx`, the
  Boolean the driver evaluates on the implementation's trace (op `gexample`).
* **C08** `examples_reset_forgets`, `examples_fresh_twin` — `reset` maps two objects of the same
  configuration under the same seed to the same state whatever they went through; hence under every
  manager the episode after a reset on a used object equals the episode on a newly built one.
  Form: two states related by `Ex.SameBut` (same configuration, and equal on the field groups the
  class's state components do not own) — not `ResetForgets` (which would ask it of *all* pairs of
  states, false for states of different configurations or with different tapes).
  `examples_used_sameBut_fresh` discharges `Ex.SameBut` for every state the managers can reach from
  the constructed world, so `examples_fresh_twin_reachable` is the used-versus-fresh statement with no
  hypothesis on the used object.
-/
namespace Abmarl
open World

/-! ## C01, C07 -/

/-- **C01 for the packaged examples** (all five modelled classes): for every
configuration of the example, every manager that can drive it, every initial manager state and every
history of resets and steps, the manager's trace satisfies `specC01`. -/
theorem C01_examples (cfg : Ex.Cfg) (n : Nat) (k : MKind) (hk : k ≠ .dynamic)
    (hl : k = .turnBased → ∃ a < n, cfg.isLearning a = true) (m0 : MState Ex.St) (ops : List (Op Ex.Act)) :
    specC01 k n cfg.isLearning m0.shuffle (runOps (Ex.toSimIface cfg n) k m0 ops) = true :=
  C01_managers_honour_done_protocol (Ex.toSimIface cfg n) k (Ex.ex_WF cfg n k hk hl) m0 ops

/-- **C07 for the packaged examples** -/
theorem C07_examples (cfg : Ex.Cfg) (n : Nat) (k : MKind) (hk : k ≠ .dynamic)
    (hl : k = .turnBased → ∃ a < n, cfg.isLearning a = true) (m0 : MState Ex.St) (ops : List (Op Ex.Act)) :
    specC07 k n cfg.isLearning (runOps (Ex.toSimIface cfg n) k m0 ops) = true :=
  C07_fair_turns_and_progress (Ex.toSimIface cfg n) k (Ex.ex_WF cfg n k hk hl) m0 ops

/-- every manager call over a packaged example made under the caller protocol returns normally or
with the documented rejection -/
theorem C07_examples_every_call_returns (cfg : Ex.Cfg) (n : Nat) (k : MKind)
    (hk : k ≠ .dynamic) (hl : k = .turnBased → ∃ a < n, cfg.isLearning a = true) (m0 : MState Ex.St)
    (ops : List (Op Ex.Act)) (i : Nat) (e : Entry Ex.Act Ex.ObsOut Unit)
    (hi : (runOps (Ex.toSimIface cfg n) k m0 ops)[i]? = some e)
    (hp : ProtocolOK {} (runOps (Ex.toSimIface cfg n) k m0 ops) i) :
    ∀ er, e.res = .err er → er = .rejected :=
  C07_every_call_returns (Ex.toSimIface cfg n) k (Ex.ex_WF cfg n k hk hl) m0 ops i e hi hp

section named
variable (cfg : Ex.Cfg) (n : Nat) (k : MKind) (hk : k ≠ .dynamic)
  (hl : k = .turnBased → ∃ a < n, cfg.isLearning a = true) (m0 : MState Ex.St) (ops : List (Op Ex.Act))
include hk hl

theorem C01_TeamBattle (_hc : cfg.which = .teamBattle) :
    specC01 k n cfg.isLearning m0.shuffle (runOps (Ex.toSimIface cfg n) k m0 ops) = true :=
  C01_examples cfg n k hk hl m0 ops
theorem C01_PredatorPrey (_hc : cfg.which = .predatorPrey) :
    specC01 k n cfg.isLearning m0.shuffle (runOps (Ex.toSimIface cfg n) k m0 ops) = true :=
  C01_examples cfg n k hk hl m0 ops
theorem C01_MazeNavigation (_hc : cfg.which = .mazeNav) :
    specC01 k n cfg.isLearning m0.shuffle (runOps (Ex.toSimIface cfg n) k m0 ops) = true :=
  C01_examples cfg n k hk hl m0 ops
theorem C01_MultiMaze (_hc : cfg.which = .multiMaze) :
    specC01 k n cfg.isLearning m0.shuffle (runOps (Ex.toSimIface cfg n) k m0 ops) = true :=
  C01_examples cfg n k hk hl m0 ops
theorem C01_TrafficCorridor (_hc : cfg.which = .traffic) :
    specC01 k n cfg.isLearning m0.shuffle (runOps (Ex.toSimIface cfg n) k m0 ops) = true :=
  C01_examples cfg n k hk hl m0 ops
theorem C07_TeamBattle (_hc : cfg.which = .teamBattle) :
    specC07 k n cfg.isLearning (runOps (Ex.toSimIface cfg n) k m0 ops) = true :=
  C07_examples cfg n k hk hl m0 ops
theorem C07_PredatorPrey (_hc : cfg.which = .predatorPrey) :
    specC07 k n cfg.isLearning (runOps (Ex.toSimIface cfg n) k m0 ops) = true :=
  C07_examples cfg n k hk hl m0 ops
theorem C07_MazeNavigation (_hc : cfg.which = .mazeNav) :
    specC07 k n cfg.isLearning (runOps (Ex.toSimIface cfg n) k m0 ops) = true :=
  C07_examples cfg n k hk hl m0 ops
theorem C07_MultiMaze (_hc : cfg.which = .multiMaze) :
    specC07 k n cfg.isLearning (runOps (Ex.toSimIface cfg n) k m0 ops) = true :=
  C07_examples cfg n k hk hl m0 ops
theorem C07_TrafficCorridor (_hc : cfg.which = .traffic) :
    specC07 k n cfg.isLearning (runOps (Ex.toSimIface cfg n) k m0 ops) = true :=
  C07_examples cfg n k hk hl m0 ops

end named

/-! ## C03: a step is a history; every reachable world satisfies the invariant -/

/-- **`step` is a history of component calls**: in a good state (the invariant of the class holds), for
an action dict whose moves are points of the declared spaces (`Ex.ActsOK`), if `step` returns then the
world and the rest of the tape it leaves are those of the component calls `Ex.stepOps cfg acts` —
attacks in dict order then moves in dict order for `TeamBattleSim` / `PredatorPreyResourcesSim`, moves
in dict order for `MultiMazeNavigationSim` / `TrafficCorridorSimulation`, the navigator's move for
`MazeNavigationSim` — run one after the other on the ONE tape; and the invariant holds again. -/
theorem examples_step_is_history (cfg : Ex.Cfg) (w0 : World) (hcfg : CfgOK w0) (s s' : Ex.St)
    (acts : List (Aid × Ex.Act)) (hG : Ex.Good cfg w0 s) (hA : Ex.ActsOK cfg w0 acts)
    (h : Ex.step cfg s acts = .ok s') :
    runGOpsSeq s.w s.tape (Ex.stepOps cfg acts) = .ok (s'.w, s'.tape) ∧ Ex.Inv cfg w0 s'.w := by
  obtain ⟨_, _, _, h1, h2⟩ := Ex.step_good hcfg hA hG h
  exact ⟨h1, h2⟩

/-- **every reachable world satisfies `WInv`**: from the constructed world `w0` (everybody alive with
legal vitals: `vitalsAlive`; configuration facts `CfgOK`), after ANY history of resets (component
order and tape arbitrary, each covered by `Ex.ResetOK`), steps (any action dicts whose moves are in
the declared spaces, any tapes), observations, reward reads and done queries — as soon as one reset
has succeeded the world satisfies the C03 invariant and has the static part it was built with. -/
theorem examples_reachable_WInv (cfg : Ex.Cfg) (w0 : World) (hcfg : CfgOK w0) (hfresh : w0.vitalsAlive = true)
    (t0 : Tape) (ops : List Ex.EOp) (hops : ∀ op ∈ ops, Ex.OpOK cfg w0 op) :
    let s := (Ex.runOps cfg { w := w0, tape := t0 } ops).2
    s.rewards.isSome = true → s.w.WInv = true ∧ SFrame w0 s.w := by
  intro s hs
  have hG : Ex.Good cfg w0 s := Ex.runOps_good hcfg hfresh ops _ hops rfl
  unfold Ex.Good at hG
  cases hr : s.rewards with
  | none => rw [hr] at hs; cases hs
  | some r =>
    rw [hr] at hG
    exact ⟨hG.xinv.inv, hG.xinv.frame⟩

/-- the states a manager can drive the `SimIface` instance into (the reset order is `cfg.comps`) -/
inductive Ex.Reach (cfg : Ex.Cfg) (w0 : World) (n : Nat) : Ex.St → Prop where
  | init (t : Tape) : Ex.Reach cfg w0 n { w := w0, tape := t }
  | reset {s} : Ex.Reach cfg w0 n s → Ex.Reach cfg w0 n ((Ex.toSimIface cfg n).reset s)
  | step {s} (acts) : Ex.Reach cfg w0 n s → Ex.ActsOK cfg w0 acts → Ex.Reach cfg w0 n ((Ex.toSimIface cfg n).step s acts)
  | obs {s} (a) : Ex.Reach cfg w0 n s → Ex.Reach cfg w0 n ((Ex.toSimIface cfg n).obs s a).2
  | reward {s} (a) : Ex.Reach cfg w0 n s → Ex.Reach cfg w0 n ((Ex.toSimIface cfg n).reward s a).2

/-- every state the managers can reach is good: after the first successful reset its world satisfies
`WInv` -/
theorem examples_simIface_reachable (cfg : Ex.Cfg) (w0 : World) (n : Nat) (hcfg : CfgOK w0)
    (hfresh : w0.vitalsAlive = true) (hR : Ex.ResetOK cfg w0 cfg.comps) {s : Ex.St}
    (h : Ex.Reach cfg w0 n s) : Ex.Good cfg w0 s := by
  induction h with
  | init t => rfl
  | @reset s _ ih =>
    cases hr : Ex.reset cfg cfg.comps s with
    | error e => simpa [Ex.toSimIface, hr] using ih
    | ok s' =>
      have hr' : Ex.reset cfg cfg.comps { s with tape := s.tape } = .ok s' := hr
      have hg := Ex.runOp_good hcfg hfresh s (.reset cfg.comps s.tape) hR ih
      simp only [Ex.runOp, hr'] at hg
      simpa [Ex.toSimIface, hr] using hg
  | @step s acts _ hA ih =>
    cases hr : Ex.step cfg s acts with
    | error e => simpa [Ex.toSimIface, hr] using ih
    | ok s' =>
      have hr' : Ex.step cfg { s with tape := s.tape } acts = .ok s' := hr
      have hg := Ex.runOp_good hcfg hfresh s (.step acts s.tape) hA ih
      simp only [Ex.runOp, hr'] at hg
      simpa [Ex.toSimIface, hr] using hg
  | @obs s a _ ih =>
    have := Ex.runOp_good hcfg hfresh s (.obs a s.tape) trivial ih
    simp only [Ex.runOp] at this
    simp only [Ex.toSimIface]
    split <;> simp_all
  | @reward s a _ ih =>
    have := Ex.runOp_good hcfg hfresh s (.rew a) trivial ih
    simp only [Ex.runOp] at this
    simp only [Ex.toSimIface]
    split <;> simp_all

/-- **a `step` with in-space actions does not raise** (C02: "every action drawn from an agent's declared
action space is accepted and processed without error"): in every state reached by a history as in
`examples_reachable_WInv` (after a successful reset), for every action dict satisfying `Ex.StepOK` —
each item a point of the declared action space of a learning agent of the simulation; for
`MazeNavigationSim` the dict has an item for the navigator, for `TrafficCorridorSimulation` the done
components answer for the acting agents; nothing else (any number of simultaneous attacks, victims
with or without reward entry: the situations of the repaired findings C02-E2 / C02-E3 are inside) —
and every tape, `step` returns.  So the totalisation of `Ex.toSimIface` is never used there. -/
theorem examples_step_noRaise (cfg : Ex.Cfg) (w0 : World) (hcfg : CfgOK w0) (hfresh : w0.vitalsAlive = true)
    (t0 : Tape) (ops : List Ex.EOp) (hops : ∀ op ∈ ops, Ex.OpOK cfg w0 op)
    (acts : List (Aid × Ex.Act)) (hS : Ex.StepOK cfg w0 acts) (t : Tape) :
    let s := (Ex.runOps cfg { w := w0, tape := t0 } ops).2
    s.rewards.isSome = true → ∃ s', Ex.step cfg { s with tape := t } acts = .ok s' := by
  intro s hs
  have hG : Ex.GoodL cfg w0 s :=
    Ex.runOps_goodL hcfg hfresh ops _ hops ⟨rfl, fun r hr => by cases hr⟩
  exact Ex.step_ok hcfg { s with tape := t } hG hs acts hS

/-- the getters do not raise either: in such a state `get_reward` of a learning agent returns (the
reward dict has an entry for every learning agent), and so do `get_done` / `get_all_done` of the two
maze classes (for `SmartGridWorldSimulation.get_done` see `Ex.smartDone_ok`) -/
theorem examples_get_reward_total (cfg : Ex.Cfg) (w0 : World) (hcfg : CfgOK w0) (hfresh : w0.vitalsAlive = true)
    (t0 : Tape) (ops : List Ex.EOp) (hops : ∀ op ∈ ops, Ex.OpOK cfg w0 op)
    (a : Aid) (ha : a < w0.n) (hl : cfg.isLearning a = true) :
    let s := (Ex.runOps cfg { w := w0, tape := t0 } ops).2
    s.rewards.isSome = true → ∃ x s', Ex.getReward cfg s a = .ok (x, s') := by
  intro s hs
  have hG : Ex.GoodL cfg w0 s :=
    Ex.runOps_goodL hcfg hfresh ops _ hops ⟨rfl, fun r hr => by cases hr⟩
  cases hr : s.rewards with
  | none => rw [hr] at hs; cases hs
  | some r =>
    have hfull := hG.2 r hr a ha hl
    have hI : Ex.Inv cfg w0 s.w := by
      have := hG.1
      unfold Ex.Good at this
      rw [hr] at this
      exact this
    have hn : s.w.n = w0.n := sframe_n hI.xinv.frame
    obtain ⟨x, hx⟩ : ∃ x, r.lookup a = some x := Option.isSome_iff_exists.mp hfull
    unfold Ex.getReward
    simp only [hr, Ex.rewardVal, hx]
    exact ⟨_, _, rfl⟩

/-! ## C02: observations -/

/-- **observations of a packaged example lie in the declared spaces**: in every state reached by a
history as in `examples_reachable_WInv` (after a successful reset), for **every** agent of the
simulation, alive or dead (a dead agent's stored position stays on the grid: `Ex.AllInGrid`), and every
tape, `get_obs` returns; the observation is a dict with exactly the keys of the observers that support
the agent, each value inside the space that observer declared (`Ex.obsInSpace`, the Boolean the judge
evaluates) — in particular every channel is the channel of one of the class's observers with a value
inside `Observers.declared`.  Hypotheses as in `C02_grid_observations`: positive encodings,
non-negative initial ammunition. -/
theorem examples_observations_in_space (cfg : Ex.Cfg) (w0 : World) (hcfg : CfgOK w0)
    (hfresh : w0.vitalsAlive = true) (t0 : Tape) (ops : List Ex.EOp) (hops : ∀ op ∈ ops, Ex.OpOK cfg w0 op)
    (ks : List Observers.Kind) (hobs : cfg.observers = some ks)
    (henc : ∀ b < w0.n, 0 < w0.encOf b) (hammo : ∀ b < w0.n, 0 ≤ (w0.cfgOf b).initAmmo)
    (a : Aid) (ha : a < w0.n) :
    let s := (Ex.runOps cfg { w := w0, tape := t0 } ops).2
    s.rewards.isSome = true →
    ∀ t, ∃ o s', Ex.getObs cfg { s with tape := t } a = .ok (o, s') ∧ Ex.obsInSpace s.w a ks o = true ∧
      ∀ p ∈ o, ∃ k ∈ ks, Ex.keyOf k = p.1 ∧ Observers.declared s.w a k p.2 = true := by
  intro s hs t
  have hG : Ex.GoodP cfg w0 s := Ex.runOps_goodP hcfg hfresh ops _ hops (Ex.goodP_init cfg w0 t0)
  obtain ⟨hI, hF⟩ := examples_reachable_WInv cfg w0 hcfg hfresh t0 ops hops hs
  have hn : s.w.n = w0.n := sframe_n hF
  have ha' : a < s.w.n := by rw [hn]; exact ha
  have henc' : ∀ b < s.w.n, 0 < s.w.encOf b :=
    fun b hb => by rw [sframe_encOf hF]; exact henc b (by rw [← hn]; exact hb)
  obtain ⟨o, s', hget, hdecl⟩ := Ex.getObs_in_space cfg { s with tape := t } a ks hobs hs hI ha'
    (Or.inr (hG.2 hs a ha')) henc' (by rw [sframe_cfgOf hF]; exact hammo a ha)
  refine ⟨o, s', hget, ?_, hdecl⟩
  exact Ex.getObs_obsInSpace (s := { s with tape := t }) hobs hI (hG.2 hs) henc'
    (fun b hb => by rw [sframe_cfgOf hF]; exact hammo b (by rw [← hn]; exact hb)) hget

/-! ## The judge the driver evaluates (`gexample`) -/

/-- **the form the judge evaluates**: for every configuration, constructed world, tape and history, if
the hypotheses `exPre` hold — the world is as the constructors leave it, the history starts with a
reset, every reset order is covered, every step's moves are in the declared spaces — then the model's
own trace satisfies `specEx`: every world after a reset / step
satisfies `WInv` and has the constructed static part; every observation is a dict with exactly the
keys of the observers that support the agent, each value inside the space that observer declared;
`get_obs` / `get_done` / `get_all_done` change neither world nor reward dict and the done getters
return the class's done rule on the current world; `reset` leaves exactly a zero entry per learning
agent, `step` keeps the key list, `get_reward` returns what was in the entry it read and leaves 0
there (read-and-reset, all five classes); a `step` that `stepMustNotRaise` does not raise; the trace
ends with the first call that raises. -/
theorem examples_hist (cfg : Ex.Cfg) (w0 : World) (t0 : Tape) (ops : List Ex.EOp)
    (hpre : Ex.exPre cfg w0 ops = true) :
    Ex.specEx cfg w0 (Ex.zipOps ops (Ex.runOps cfg { w := w0, tape := t0 } ops).1) = true := by
  obtain ⟨hW, hops⟩ := Ex.exPre_hyps hpre
  exact Ex.specFrom_model hW ops { w := w0, tape := t0 } hops (Ex.goodP_init cfg w0 t0)

/-! ## C08: reset forgets -/

/-- **`reset` of a packaged example forgets**: two objects of the same configuration whose worlds agree
on what the class's state components do not own (`Ex.SameBut`: for `TeamBattleSim` with
`PositionState` and `HealthState` and agents without ammunition or orientation that is just "same
configuration"), reset under the same seed, end in the SAME state — the same world, the same zeroed
reward dict, the same remaining tape — or raise the same error, whatever cells, positions, health,
rewards either had before. -/
theorem examples_reset_forgets (cfg : Ex.Cfg) (order : List StateComp) (s1 s2 : Ex.St)
    (hw : Ex.SameBut order s1.w s2.w) (ht : s1.tape = s2.tape) (hp : order.any StateComp.resetsPos = true) :
    Ex.reset cfg order s1 = Ex.reset cfg order s2 :=
  Ex.reset_forgets cfg order s1 s2 hw ht hp

/-- **C08, used versus fresh twin, for the packaged examples under every manager**: a manager whose
example simulation went through anything (`m1`) and a manager over a newly built one (`m2`), same
kind, same `randomize_action_input`, same seeds: if the reset returns, the episode after it — any
follow-up history — has the same trace on both. -/
theorem examples_fresh_twin (cfg : Ex.Cfg) (n : Nat) (k : MKind)
    (hl : k = .turnBased → (Ex.toSimIface cfg n).learners ≠ []) (m1 m2 : MState Ex.St)
    (hw : Ex.SameBut cfg.comps m1.sim.w m2.sim.w) (hp : cfg.comps.any StateComp.resetsPos = true)
    (hseed : m1.sim.tape = m2.sim.tape) (hok : ∃ s', Ex.reset cfg cfg.comps m2.sim = .ok s')
    (hsh : m1.shuffle = m2.shuffle) (ht : m1.tape = m2.tape) (follow : List (Op Ex.Act)) :
    runOps (Ex.toSimIface cfg n) k m1 (.reset :: follow) = runOps (Ex.toSimIface cfg n) k m2 (.reset :: follow) := by
  apply runOps_reset_eq_of (Ex.toSimIface cfg n) k hl m1 m2 ?_ hsh ht
  obtain ⟨s', hs'⟩ := hok
  have := Ex.reset_forgets cfg cfg.comps m1.sim m2.sim hw hseed hp
  simp only [Ex.toSimIface, this, hs']

/-- in every state the managers can reach, what the class's state components do not own is what it
was in the constructed world: the ghost fields, and health / activity if there is no `HealthState` -/
theorem examples_reach_keeps (cfg : Ex.Cfg) (w0 : World) (n : Nat) (hcfg : CfgOK w0)
    (hfresh : w0.vitalsAlive = true) (hR : Ex.ResetOK cfg w0 cfg.comps) (hlen : w0.st.length = w0.cfg.length)
    {s : Ex.St} (h : Ex.Reach cfg w0 n s) : SFrame w0 s.w ∧ Ex.Keeps (Ex.NoHealthComp cfg) w0 s.w := by
  have hframe : ∀ {s : Ex.St}, Ex.Good cfg w0 s → SFrame w0 s.w := by
    intro s hG
    unfold Ex.Good at hG
    cases hr : s.rewards with
    | none => rw [hr] at hG; simp only at hG; rw [hG]; exact SFrame.refl w0
    | some r => rw [hr] at hG; exact hG.xinv.frame
  induction h with
  | init t => exact ⟨SFrame.refl w0, Ex.Keeps.refl _ _⟩
  | @reset s hs ih =>
    have hG := examples_simIface_reachable cfg w0 n hcfg hfresh hR hs
    have hG' := examples_simIface_reachable cfg w0 n hcfg hfresh hR (Ex.Reach.reset hs)
    refine ⟨hframe hG', ?_⟩
    cases hr : Ex.reset cfg cfg.comps s with
    | error e => simpa [Ex.toSimIface, hr] using ih.2
    | ok s' =>
      have hk := Ex.reset_keeps hcfg hR ih.1 hlen hr
      have : (Ex.toSimIface cfg n).reset s = s' := by simp [Ex.toSimIface, hr]
      rw [this]
      exact ih.2.trans hk (fun a => sframe_cfgOf ih.1 a)
  | @step s acts hs hA ih =>
    have hG := examples_simIface_reachable cfg w0 n hcfg hfresh hR hs
    have hG' := examples_simIface_reachable cfg w0 n hcfg hfresh hR (Ex.Reach.step acts hs hA)
    refine ⟨hframe hG', ?_⟩
    cases hr : Ex.step cfg s acts with
    | error e => simpa [Ex.toSimIface, hr] using ih.2
    | ok s' =>
      have hk := Ex.step_keeps hcfg hR hA hG hr
      have : (Ex.toSimIface cfg n).step s acts = s' := by simp [Ex.toSimIface, hr]
      rw [this]
      exact ih.2.trans hk (fun a => sframe_cfgOf ih.1 a)
  | @obs s a hs ih =>
    simp only [Ex.toSimIface]
    cases hr : Ex.getObs cfg s a with
    | error e => exact ih
    | ok r =>
      obtain ⟨o, s'⟩ := r
      obtain ⟨t', rfl⟩ := Ex.getObs_shape hr
      exact ih
  | @reward s a hs ih =>
    simp only [Ex.toSimIface]
    cases hr : Ex.getReward cfg s a with
    | error e => exact ih
    | ok r =>
      obtain ⟨x, s'⟩ := r
      obtain ⟨r0, _, _, rfl⟩ := Ex.getReward_shape hr
      exact ih

/-- a used object and a newly built one are `Ex.SameBut`: the used world — whatever history of manager
calls it went through — agrees with the constructed one on everything the class's state components do
not reset.  Hypotheses: an `AmmoState` is among the components or no agent has ammunition; an
`OrientationState` is among them or no agent has an orientation (otherwise spent ammunition and the
orientation really do survive `reset`). -/
theorem examples_used_sameBut_fresh (cfg : Ex.Cfg) (w0 : World) (n : Nat) (hcfg : CfgOK w0)
    (hfresh : w0.vitalsAlive = true) (hR : Ex.ResetOK cfg w0 cfg.comps) (hlen : w0.st.length = w0.cfg.length)
    (hammo : cfg.comps.any StateComp.resetsAmmo = true ∨ ∀ a, (w0.cfgOf a).hasAmmo = false)
    (horient : cfg.comps.any StateComp.resetsOrient = true ∨ ∀ a, (w0.cfgOf a).hasOrient = false)
    {s : Ex.St} (h : Ex.Reach cfg w0 n s) : Ex.SameBut cfg.comps s.w w0 := by
  obtain ⟨hF, hK⟩ := examples_reach_keeps cfg w0 n hcfg hfresh hR hlen h
  refine ⟨⟨hF.rows, hF.cols, hF.overlap, hF.cfg, by rw [hF.len, hF.cfg]; exact hlen, hlen, ?_, ?_⟩, ?_, ?_, ?_⟩
  · intro a ha; exact hK.ammo a (by rw [← sframe_cfgOf hF]; exact ha)
  · intro a ha; exact hK.orient a (by rw [← sframe_cfgOf hF]; exact ha)
  · intro hh a; exact hK.health hh a
  · intro hh a
    rcases hammo with h1 | h1
    · rw [hh] at h1; cases h1
    · exact hK.ammo a (h1 a)
  · intro hh a
    rcases horient with h1 | h1
    · rw [hh] at h1; cases h1
    · exact hK.orient a (h1 a)

/-- **C08 for the packaged examples, used versus fresh, full form**: a manager whose example simulation
went through ANY history of manager calls (`m1.sim` reachable from the constructed world) and a manager
over the newly built simulation (`m2.sim` is the constructed world), same kind, same
`randomize_action_input`, same seeds: if the reset returns, the episode after it — any follow-up
history — has the same trace on both. -/
theorem examples_fresh_twin_reachable (cfg : Ex.Cfg) (w0 : World) (n : Nat) (k : MKind) (hcfg : CfgOK w0)
    (hfresh : w0.vitalsAlive = true) (hR : Ex.ResetOK cfg w0 cfg.comps) (hlen : w0.st.length = w0.cfg.length)
    (hammo : cfg.comps.any StateComp.resetsAmmo = true ∨ ∀ a, (w0.cfgOf a).hasAmmo = false)
    (horient : cfg.comps.any StateComp.resetsOrient = true ∨ ∀ a, (w0.cfgOf a).hasOrient = false)
    (hl : k = .turnBased → (Ex.toSimIface cfg n).learners ≠ []) (m1 m2 : MState Ex.St)
    (hused : Ex.Reach cfg w0 n m1.sim) (seed : Tape) (hnew : m2.sim = { w := w0, tape := seed })
    (hseed : m1.sim.tape = seed) (hok : ∃ s', Ex.reset cfg cfg.comps m2.sim = .ok s')
    (hsh : m1.shuffle = m2.shuffle) (ht : m1.tape = m2.tape) (follow : List (Op Ex.Act)) :
    runOps (Ex.toSimIface cfg n) k m1 (.reset :: follow) = runOps (Ex.toSimIface cfg n) k m2 (.reset :: follow) := by
  have hsb := examples_used_sameBut_fresh cfg w0 n hcfg hfresh hR hlen hammo horient hused
  have hp : cfg.comps.any StateComp.resetsPos = true := by
    obtain ⟨kind, o, hm⟩ := hR.pos
    exact List.any_eq_true.mpr ⟨_, hm, rfl⟩
  exact examples_fresh_twin cfg n k hl m1 m2 (by rw [hnew]; exact hsb) hp (by rw [hnew]; exact hseed) hok hsh ht follow

/-! ## Non-vacuity: a concrete `TeamBattleSim` history with a kill, reward reads, two episodes -/

/-- a `TeamBattleSim` with two `BattleAgent`s of opposing teams facing each other on a 1×2 grid -/
def exTBCfg : Ex.Cfg :=
  { which := .teamBattle, learning := [true, true], comps := [.position .position {}, .health],
    observers := some [.centered true], dones := some [.oneTeam],
    attack := ⟨.binary, [(1, [2]), (2, [1])], false⟩ }

def exTBAgent (enc : Int) (p : Pos) : AgentCfg :=
  { enc := enc, initPos := some p, initHealth := some 1, moving := true, moveRange := 1, attacking := true,
    attackRange := 1, strength := 1, accuracy := 1, simAttacks := 1, observing := true, viewRange := 1 }

def exTBWorld : World :=
  { rows := 1, cols := 2, overlap := [(1, [1]), (2, [2])], cells := [[], []],
    cfg := [exTBAgent 1 (0, 0), exTBAgent 2 (0, 1)], st := [{}, {}] }

/-- reset; agent 0 attacks (and kills agent 1, which tries to move) — rewards +1−0.01 and −1−0.01; reads;
a second episode -/
def exTBOps : List Ex.EOp :=
  [.reset [.health, .position .position {}] [],
   .step [(1, { move := (0, -1), attack := .count 0 }), (0, { move := (0, 0), attack := .count 1 })] [0, 0, 0],
   .rew 0, .rew 1, .rew 1, .done 1, .allDone, .obs 0 [0, 0, 0],
   .reset [.position .position {}, .health] [], .allDone]

example : Ex.exPre exTBCfg exTBWorld exTBOps = true := by decide +kernel

/-- the history really contains a death, the rewards 0.99 and −1.01 (in hundredths), a second read that
gives 0, a finished episode and a second one that is not finished -/
example :
    ((Ex.runOps exTBCfg { w := exTBWorld } exTBOps).1.map (·.res)) =
      [.unit, .unit, .int 99, .int (-101), .int 0, .bool true, .bool true,
       .obs [("position_centered_encoding", .grid [[-1, -1, -1], [-1, 1, 0], [-1, -1, -1]])],
       .unit, .bool false] := by
  decide +kernel

/-- … and it passes the judge, by the theorem -/
example : Ex.specEx exTBCfg exTBWorld
    (Ex.zipOps exTBOps (Ex.runOps exTBCfg { w := exTBWorld } exTBOps).1) = true :=
  examples_hist _ _ _ _ (by decide +kernel)

/-- the judge rejects a trace in which the dead agent's reward is delivered twice -/
example :
    let tr := (Ex.runOps exTBCfg { w := exTBWorld } exTBOps).1
    Ex.specEx exTBCfg exTBWorld
      (Ex.zipOps exTBOps (tr.modify 4 fun e => { e with res := .int (-101) })) = false := by
  decide +kernel

/-- a `MultiMazeNavigationSim`: the target (agent 0, encoding 1) and a navigator (agent 1, encoding 3)
on a 1×2 grid -/
def exMMCfg : Ex.Cfg :=
  { which := .multiMaze, learning := [false, true], comps := [.position .position {}],
    observers := some [.centered true], dones := none, target := 0, navs := [1] }

def exMMWorld : World :=
  { rows := 1, cols := 2, overlap := [(1, [3]), (3, [1, 3])], cells := [[], []],
    cfg := [{ enc := 1, initPos := some (0, 1) },
            { enc := 3, initPos := some (0, 0), moving := true, moveRange := 1, observing := true, viewRange := 1 }],
    st := [{}, {}] }

/-- reset; the navigator bumps into the border (−0.1 −0.01), then steps onto the target (+1 −0.01);
the reward is read twice -/
def exMMOps : List Ex.EOp :=
  [.reset [.position .position {}] [],
   .step [(1, { move := (0, -1) })] [], .rew 1,
   .step [(1, { move := (0, 1) })] [], .done 1, .allDone, .rew 1, .rew 1]

/-- the reward for reaching the target is delivered exactly once (what finding C01-E1 was about): 0.99
at the first read after the arrival, 0 at the second, although the navigator still stands there -/
example :
    ((Ex.runOps exMMCfg { w := exMMWorld } exMMOps).1.map (·.res)) =
      [.unit, .unit, .int (-11), .unit, .bool true, .bool true, .int 99, .int 0] := by
  decide +kernel

example : Ex.specEx exMMCfg exMMWorld
    (Ex.zipOps exMMOps (Ex.runOps exMMCfg { w := exMMWorld } exMMOps).1) = true :=
  examples_hist _ _ _ _ (by decide +kernel)

end Abmarl
