import Abmarl.Lemmas.C02
import Abmarl.Lemmas.C02Wrap
/-!
# C02 — Observations and actions always live in the agents' declared spaces

A **composition** of what the other properties prove; nothing is re-modelled here.

*Grid part* (`Model/GridSim.lean`: a grid-world simulation is a history of component calls `GOp` —
moves of the three move actors, attacks of the four attack actors with the deaths they cause,
resets of the state components — after a first full reset; every `step` of a simulation built from
the library's components is such a history, whatever its interleaving):

* `C02_grid_observations` — in **every reachable world** (every history of every length, every
  agent mix, grid size, overlap table, blocking layout, range, tape), for every agent that is
  active or whose stored position is a grid cell, **every** built-in observer (absolute, centred with
  `observe_self` on/off, stacked, position, ammunition) returns without error an observation inside
  the space its constructor declared (`Observers.declared`).  From C03 (`runGOps_inv`: reachable
  worlds satisfy `WInv`), C09 (`C09_observers`: the observation satisfies the judge) and the C09
  lemmas `*_in_declared_space`.
* `C02_grid_actions` — in every reachable world **every point of the declared action space** of each
  of the three move actors (`MoveCall.inSpace`) and four attack actors (`World.inSpace`) is processed
  without error, and the world afterwards is reachable again (the history extended by that call runs
  to its end and still satisfies the hypotheses) — so the statement iterates over action sequences of
  every length.  From C12 (`C12_moves`) and C11 (`attackOK_all`).
* `C02_null_observations`, `C02_null_actions` — the null observation each observer declares
  (`Observers.nullObs`: −2-filled arrays of the declared shape, `[0, 0]`, `0`) lies in the declared
  space, and the null action each actor declares (`nullMove`/`nullCross`/`nullDrift`: zero move;
  `nullAttack`: no attack in each of the four encodings) lies in the declared action space.

*Wrapper part* (over `Space` / `Pt` of `Model/Spaces.lean`; each statement has the form "if the inner
observation is in the inner declared space then the wrapped observation is in the wrapped declared
space"):

* `C02_ravel_layer` (C04), `C02_flatten_layer` (C05), `C02_comm_layer` and `C02_comm_model` (the
  model of C20: `commSim`), `C02_super_layer` and `C02_super_model` (the model of C14: `supObs` —
  the super observation is the Dict of the covered agents' observations, each either a real inner
  observation or the declared null observation, plus the mask with one bit per covered agent);
* `C02_stack` — any stack of unary layers keeps membership (composition); `C02_stack_ravel_comm`
  etc. are instances.

**Not modelled — covered by the runtime monitor of `harness/p_c02.py`, not by a theorem:**
gymnasium's / `abmarl.tools.Box`'s `contains` itself (the monitor compares it with `mem` on every
dumped pair: op `gmember`), the assembly of the per-observer channels into one `Dict` by
`SmartGridWorldSimulation.get_obs` and `finalize` (`make_dict`), the `step` glue, rewards and
hand-written observers of the packaged example simulations (`abmarl/examples/sim/*`), the
action side of the wrappers (`unravel` / `unflatten` of a sampled wrapped action reaching the inner
simulation: C04/C05 prove the round trips, the monitor checks that no sampled wrapped action
raises), `ravel` of spaces with `2^63` points or more (finding K3), `Discrete(start ≠ 0)` (K1) and
non-`int` integer dtypes (K5) — outside `WF04` / `WF05`.
-/
namespace Abmarl
open World Observers

/-! ## Grid simulations: observations -/

/-- **C02, observations**: after a first full reset, every history `ops` of moves, attacks and
further full resets that runs to its end leaves a world in which every observer gives every agent
(active, or dead with its stored position in the grid) an observation inside the declared space —
for every tape.  Hypotheses: those of `C03_reachable` (`CfgOK`, `NoAmmoC`, full resets: what the
constructors guarantee), positive encodings and non-negative initial ammunition (the documented
domain of the agent classes). -/
theorem C02_grid_observations (w0 : World) (cs0 : List StateComp) (t0 : Tape) (ops : List (GOp × Tape))
    (hcfg : CfgOK w0) (hn : NoAmmoC w0) (h0 : FullReset w0 cs0) (hR : ResetsFull w0 ops)
    (henc : ∀ b < w0.n, 0 < w0.encOf b) (hammo : ∀ b < w0.n, 0 ≤ (w0.cfgOf b).initAmmo)
    {w : World} (h : runGOps w0 ((.reset cs0, t0) :: ops) = .ok w)
    (a : Aid) (ha : a < w0.n)
    (hpos : (w.stOf a).active = true ∨ w.inGrid (w.stOf a).pos = true) (k : Kind) (t : Tape) :
    ∃ o t', getObs w a k t = .ok (o, t') ∧ declared w a k o = true := by
  obtain ⟨hF, hI⟩ := reachable_inv hcfg hn ⟨cs0, t0, ops, h0, hR, h⟩
  have ha' : a < w.n := by rw [sframe_n hF]; exact ha
  have hpos' : w.inGrid (w.stOf a).pos = true := by
    rcases hpos with hact | hp
    · exact observer_inGrid_of_active hI ha' hact
    · exact hp
  refine getObs_declared w a k t hI ha' hpos' ?_ ?_
  · intro b hb
    rw [sframe_encOf hF]; exact henc b (by rw [← sframe_n hF]; exact hb)
  · rw [sframe_cfgOf hF]; exact hammo a ha

/-! ## Grid simulations: actions -/

/-- **C02, actions**: in every reachable world `w`, every action of the declared action space of each
of the three move actors and of each of the four attack actors, by any active agent, with any tape, is
processed without error; the history extended by that call runs to its end, ends in the world the call
returned, and satisfies the hypotheses again (no new reset), so every further action is covered too. -/
theorem C02_grid_actions (w0 : World) (cs0 : List StateComp) (t0 : Tape) (ops : List (GOp × Tape))
    (hcfg : CfgOK w0) (hn : NoAmmoC w0) (h0 : FullReset w0 cs0) (hR : ResetsFull w0 ops)
    {w : World} (h : runGOps w0 ((.reset cs0, t0) :: ops) = .ok w) :
    (∀ (c : MoveCall) (t : Tape), c.agent < w.n → (w.stOf c.agent).active = true → c.inSpace w = true →
      ∃ o, runMoveCall w c = .ok o ∧
        runGOps w0 ((.reset cs0, t0) :: (ops ++ [(.move c, t)])) = .ok o.post ∧
        ResetsFull w0 (ops ++ [(.move c, t)])) ∧
    (∀ (cfg : AttackCfg) (a : Aid) (act : AttackAct) (t : Tape), a < w.n → (w.stOf a).active = true →
      inSpace cfg w a act = true →
      ∃ st H w' t', processAttack cfg w a act t = .ok ((st, H), w', t') ∧
        runGOps w0 ((.reset cs0, t0) :: (ops ++ [(.attack cfg a act, t)])) = .ok w' ∧
        ResetsFull w0 (ops ++ [(.attack cfg a act, t)])) := by
  obtain ⟨_, hI⟩ := reachable_inv hcfg hn ⟨cs0, t0, ops, h0, hR, h⟩
  have hext : ∀ (op : GOp) (t : Tape) (w' : World), (∀ cs, op ≠ .reset cs) → runGOp w t op = .ok w' →
      runGOps w0 ((.reset cs0, t0) :: (ops ++ [(op, t)])) = .ok w' ∧ ResetsFull w0 (ops ++ [(op, t)]) := by
    intro op t w' hne hop
    constructor
    · have := runGOps_append ((GOp.reset cs0, t0) :: ops) [(op, t)] w0
      rw [List.cons_append] at this
      rw [this, h]
      simp only [runGOps, hop]
    · intro cs t' hm
      rcases List.mem_append.mp hm with hm | hm
      · exact hR cs t' hm
      · simp only [List.mem_singleton, Prod.mk.injEq] at hm
        exact absurd hm.1.symm (hne cs)
  constructor
  · intro c t ha hact hsp
    have h12 := C12_moves w c hI ha hact hsp
    cases hm : runMoveCall w c with
    | error e => rw [hm] at h12; cases c <;> simp [specC12] at h12
    | ok o =>
      refine ⟨o, rfl, hext (.move c) t o.post (fun cs hc => by cases hc) ?_⟩
      simp [runGOp, ha, hact, hsp, hm, Except.map]
  · intro cfg a act t ha hact hsp
    have hpre : attackPre cfg w a act = true := by
      simp [attackPre, hI, ha, hact, hsp]
    obtain ⟨st, H, w', t', hp, _, _⟩ := attackOK_all cfg w a act t hpre
    refine ⟨st, H, w', t', hp, hext (.attack cfg a act) t w' (fun cs hc => by cases hc) ?_⟩
    simp [runGOp, ha, hact, hp, Except.map]

/-! ## Null points -/

/-- **C02, null observations**: for every observer kind and option, the null observation the
constructor assigns lies in the space the same constructor declares.  (`0 < rows, cols` is asserted
by `build_sim`.) -/
theorem C02_null_observations (w : World) (a : Aid) (k : Kind) (ha : a < w.n)
    (henc : ∀ b < w.n, 0 < w.encOf b) (hrows : 0 < w.rows) (hcols : 0 < w.cols)
    (hammo : 0 ≤ (w.cfgOf a).initAmmo) :
    declared w a k (nullObs w a k) = true :=
  nullObs_declared w a k ha henc hrows hcols hammo

/-- **C02, null actions**: the zero move lies in the action space of each of the three move actors
(for every move range), and the null attack of each of the four attack actors lies in the action space
that actor declares (the attack mapping has the row `s`, a set, for the attacker's encoding — without
one the actor cannot be used by that agent, see `World.inSpace`). -/
theorem C02_null_actions (w : World) (a : Aid) :
    (nullMove a).inSpace w = true ∧ (nullCross a).inSpace w = true ∧ (nullDrift a).inSpace w = true ∧
    ∀ (cfg : AttackCfg) (s : List Int), cfg.mapping.lookup (w.encOf a) = some s → s.Nodup →
      inSpace cfg w a (nullAttack cfg w a) = true :=
  ⟨(nullMove_inSpace w a).1, (nullMove_inSpace w a).2.1, (nullMove_inSpace w a).2.2,
   fun cfg _ hmap hs => nullAttack_inSpace cfg w a hmap hs⟩

/-- hence (with `C02_grid_actions`) the null actions are processed without error in every reachable
world: stated for a consistent world -/
theorem C02_null_actions_processed (w : World) (a : Aid) (hI : w.WInv = true) (ha : a < w.n)
    (hact : (w.stOf a).active = true) :
    (∃ o, runMoveCall w (nullMove a) = .ok o) ∧ (∃ o, runMoveCall w (nullCross a) = .ok o) ∧
    (∃ o, runMoveCall w (nullDrift a) = .ok o) ∧
    ∀ (cfg : AttackCfg) (s : List Int) (t : Tape), cfg.mapping.lookup (w.encOf a) = some s → s.Nodup →
      ∃ r, processAttack cfg w a (nullAttack cfg w a) t = .ok r := by
  have mv : ∀ c : MoveCall, c.agent = a → c.inSpace w = true → ∃ o, runMoveCall w c = .ok o := by
    intro c hc hsp
    have h12 := C12_moves w c hI (by rw [hc]; exact ha) (by rw [hc]; exact hact) hsp
    cases hm : runMoveCall w c with
    | error e => rw [hm] at h12; cases c <;> simp [specC12] at h12
    | ok o => exact ⟨o, rfl⟩
  refine ⟨mv _ rfl (nullMove_inSpace w a).1, mv _ rfl (nullMove_inSpace w a).2.1,
    mv _ rfl (nullMove_inSpace w a).2.2, ?_⟩
  intro cfg s t hmap hs
  have hpre : attackPre cfg w a (nullAttack cfg w a) = true := by
    simp [attackPre, hI, ha, hact, nullAttack_inSpace cfg w a hmap hs]
  obtain ⟨st, H, w', t', hp, _, _⟩ := attackOK_all cfg w a _ t hpre
  exact ⟨_, hp⟩

/-! ## Wrappers keep membership -/

/-- **ravel** (`RavelDiscreteWrapper`, C04): a member of the inner space is ravelled to a member of
`ravel_space(inner)` -/
theorem C02_ravel_layer (s : Space) (p : Pt) (hW : WF04 s = true) (hm : mem s p = true) :
    ∃ s' v, ravelSpace s = some s' ∧ ravel s p = some v ∧ mem s' (.scalar (.int v)) = true := by
  obtain ⟨s', p', h1, h2, h3⟩ := ravel_sound s p hW hm
  simp only [MLayer.ravel] at h1 h2
  cases hr : ravel s p with
  | none => rw [hr] at h2; cases h2
  | some v =>
    rw [hr] at h2
    simp only [Option.map_some, Option.some.injEq] at h2
    subst h2
    exact ⟨s', v, h1, rfl, h3⟩

/-- **flatten** (`FlattenWrapper`, C05): a member of the inner space is flattened to a member of
`flatten_space(inner)` (`memFlat` = `abmarl.tools.Box.contains` on a one-dimensional array; as a
`Space` the flattened Box is `FlatBox.toSpace`) -/
theorem C02_flatten_layer (s : Space) (p : Pt) (hW : WF05 s = true) (hm : mem s p = true) :
    ∃ a fb, flatten s p = some a ∧ flattenSpace s = some fb ∧ memFlat fb a = true ∧
      mem fb.toSpace (.arr a) = true := by
  obtain ⟨a, fb, h1, h2, h3⟩ := C05_flatten_mem s p hW hm
  exact ⟨a, fb, h1, h2, h3, by rw [toSpace_mem]; exact h3⟩

/-- **communication** (`CommunicationHandshakeWrapper`): `{'obs': p, 'message_buffer': row}` lies in
`Dict(obs = inner, message_buffer = Dict(other ↦ Discrete(2)))` as soon as `p` lies in the inner
space and the row has exactly one bit per other agent -/
theorem C02_comm_layer (kb ko : Nat) (oth : List Nat) (buffer : List (Nat × Bool)) (s : Space) (p : Pt)
    (hkeys : buffer.map (·.1) = oth) (hm : mem s p = true) :
    mem (commSpace kb ko oth s) (commPt kb ko buffer p) = true :=
  commPt_mem kb ko oth buffer s p hkeys hm

/-- … which is what the model of C20 produces (`comm_spaces_mem`): for every wrapped simulation whose
(fused) observations lie in the inner spaces `sp`, every wrapper state and every agent -/
theorem C02_comm_model {σ α ι : Type} (S : CommIface σ α Pt ι) (sp : Aid → Space) (kb ko : Nat)
    (hobs : ∀ s a row, a < S.n → mem (sp a) (S.obsF s a row).1 = true)
    (c : CState σ) (a : Aid) (ha : a < S.n) :
    mem (commSpace kb ko (others S.n a) (sp a)) (commPtOf kb ko ((commSim S).obs c a).1) = true := by
  obtain ⟨h1, h2⟩ := (comm_spaces_mem S (fun a o => mem (sp a) o = true) (fun _ (_ : α) => True) hobs).1 c a ha
  exact commPt_mem kb ko _ _ _ _ h2 h1

/-- **super agent** (`SuperAgentWrapper`): `{'mask': {c: [bit]}, c: obs_c}` lies in
`Dict(mask = Dict(c ↦ MultiBinary(1)), c ↦ space_c)` as soon as every covered agent's entry lies in
that agent's space -/
theorem C02_super_layer (km : Nat) (sp : Nat → Space) (items : List (Nat × Bool × Pt))
    (h : ∀ i ∈ items, mem (sp i.1) i.2.2 = true) :
    mem (superSpace km (items.map (·.1)) sp)
      (superPt km (items.map fun i => (i.1, i.2.1)) (items.map fun i => (i.1, i.2.2))) = true :=
  superPt_mem km sp items h

/-- … which is what the model of C14 produces: for every inner simulation whose observations lie in
the declared spaces `sp` (in the states of an invariant `I` that `get_obs` keeps) and whose declared
null observations lie in them too (C19: `finalize` checks it), the observation of every super agent is
a member of its Dict space — mask keys and observation keys are exactly the covered agents, every
entry (a real inner observation or the declared null observation) is a member — and an uncovered
agent's observation is handed through. -/
theorem C02_super_model {σ α ι : Type} (S : SimIface σ α Pt ι) (cfg : SuperCfg Pt) (sp : Aid → Space)
    (km : Nat) (I : σ → Prop)
    (hobs : ∀ s c, I s → mem (sp c) (S.obs s c).1 = true ∧ I (S.obs s c).2)
    (hnull : ∀ c o, cfg.usableNull c = some o → mem (sp c) o = true)
    (st : SupSt σ) (hI : I st.sim) :
    (∀ cov, mem (superSpace km cov sp) (superPtOf km (supObs S cfg st (.sup cov)).1) = true ∧
      I (supObs S cfg st (.sup cov)).2.2.sim) ∧
    (∀ a, mem (sp a) (superPtOf km (supObs S cfg st (.unc a)).1) = true ∧
      I (supObs S cfg st (.unc a)).2.2.sim) := by
  constructor
  · intro cov
    obtain ⟨h1, h2, h3⟩ := supObsLoop_mem S cfg sp I hobs hnull cov st hI
    refine ⟨?_, h3⟩
    have := superPt_mem km sp ((supObsLoop S cfg cov st).1.map fun i => (i.agent, i.mask, i.obs))
      (by
        intro i hi
        obtain ⟨j, hj, rfl⟩ := List.mem_map.mp hi
        exact h2 j hj)
    simp only [List.map_map, Function.comp_def] at this
    rw [h1] at this
    simpa [supObs, superPtOf, packObs] using this
  · intro a
    simp only [supObs, superPtOf]
    exact hobs st.sim a hI

/-- **stacks**: any stack of unary layers, each sound on its domain and meeting a space of its domain,
maps a member of the innermost space to a member of the outermost space -/
theorem C02_stack (Ls : List (MLayer × (Space → Prop))) (s : Space) (p : Pt)
    (hS : ∀ Ld ∈ Ls, Ld.1.Sound Ld.2) (hD : stackDom Ls s) (hm : mem s p = true) :
    ∃ s' p', stackRun (Ls.map (·.1)) s p = some (s', p') ∧ mem s' p' = true :=
  stack_sound Ls s p hS hD hm

/-- the three unary layers are sound: ravel on `WF04`, flatten on `WF05`, communication everywhere -/
theorem C02_layers_sound :
    MLayer.ravel.Sound (fun s => WF04 s = true) ∧ MLayer.flatten.Sound (fun s => WF05 s = true) ∧
    ∀ kb ko oth buffer, buffer.map (·.1) = oth → (MLayer.comm kb ko oth buffer).Sound (fun _ => True) :=
  ⟨ravel_sound, flatten_sound, fun kb ko oth buffer h => comm_sound kb ko oth buffer h⟩

/-- instance: `CommunicationHandshakeWrapper(RavelDiscreteWrapper(sim))` — communication over ravel -/
theorem C02_stack_ravel_comm (s : Space) (p : Pt) (hW : WF04 s = true) (hm : mem s p = true)
    (kb ko : Nat) (oth : List Nat) (buffer : List (Nat × Bool)) (hkeys : buffer.map (·.1) = oth) :
    ∃ s' p', stackRun [MLayer.ravel, MLayer.comm kb ko oth buffer] s p = some (s', p') ∧ mem s' p' = true :=
  C02_stack [(MLayer.ravel, fun s => WF04 s = true), (MLayer.comm kb ko oth buffer, fun _ => True)] s p
    (by
      intro Ld hLd
      simp only [List.mem_cons, List.not_mem_nil, or_false] at hLd
      rcases hLd with rfl | rfl
      · exact ravel_sound
      · exact comm_sound kb ko oth buffer hkeys)
    ⟨hW, fun _ _ => ⟨trivial, fun _ _ => trivial⟩⟩ hm

/-- instance: `FlattenWrapper(CommunicationHandshakeWrapper(sim))` — flatten over communication (the
augmented space must be flattenable: `WF05`) -/
theorem C02_stack_comm_flatten (s : Space) (p : Pt) (hm : mem s p = true)
    (kb ko : Nat) (oth : List Nat) (buffer : List (Nat × Bool)) (hkeys : buffer.map (·.1) = oth)
    (hW : WF05 (commSpace kb ko oth s) = true) :
    ∃ s' p', stackRun [MLayer.comm kb ko oth buffer, MLayer.flatten] s p = some (s', p') ∧ mem s' p' = true :=
  C02_stack [(MLayer.comm kb ko oth buffer, fun _ => True), (MLayer.flatten, fun s => WF05 s = true)] s p
    (by
      intro Ld hLd
      simp only [List.mem_cons, List.not_mem_nil, or_false] at hLd
      rcases hLd with rfl | rfl
      · exact comm_sound kb ko oth buffer hkeys
      · exact flatten_sound)
    ⟨trivial, fun s' hs' => by
      simp only [MLayer.comm, Option.some.injEq] at hs'
      subst hs'
      exact ⟨hW, fun _ _ => trivial⟩⟩ hm

/-! ## Readings -/

/-- what `declared` says of a grid view: an array of the declared shape (`rows × cols` for the absolute
view, `(2R+1)²` for the centred one) whose entries lie between −2 and the largest encoding -/
theorem declared_grid_reading (w : World) (a : Aid) (k : Kind) (g : List (List Int)) (hn : 0 < w.n) :
    declared w a k (.grid g) = true ↔
      (k = .absolute ∧ Observers.TabP w.rows w.cols (fun _ _ (v : Int) => -2 ≤ v ∧ v ≤ Observers.maxEnc w) g) ∨
      (∃ os, k = .centered os ∧
        Observers.TabP (2*(w.cfgOf a).viewRange+1) (2*(w.cfgOf a).viewRange+1)
          (fun _ _ (v : Int) => -2 ≤ v ∧ v ≤ Observers.maxEnc w) g) := by
  cases k <;>
    simp [declared, topEnc_eq w hn, inBox2, specTab_iff, Bool.and_eq_true, decide_eq_true_eq]

/-- … of a position: inside `[0, rows−1] × [0, cols−1]`; of an ammunition value: inside `[0, initial]` -/
theorem declared_vec_scalar_reading (w : World) (a : Aid) (p : Pos) (v : Int) :
    (declared w a .position (.vec p) = true ↔
      0 ≤ p.1 ∧ p.1 ≤ (w.rows : Int) - 1 ∧ 0 ≤ p.2 ∧ p.2 ≤ (w.cols : Int) - 1) ∧
    (declared w a .ammo (.scalar v) = true ↔ 0 ≤ v ∧ v ≤ (w.cfgOf a).initAmmo) := by
  simp [declared, Bool.and_eq_true, decide_eq_true_eq, and_assoc]

/-! ## Non-vacuity: a 2×3 world, a full reset, a move, an attack that kills, observations -/

/-- as the constructors leave it: nobody placed; agent 0 observes, moves, attacks (range 1, full
strength) and has ammunition, agent 1 (encoding 2) is its victim -/
def exW02 : World :=
  { rows := 2, cols := 3, overlap := [],
    cells := [[], [], [], [], [], []],
    cfg := [{ enc := 1, observing := true, viewRange := 1, moving := true, moveRange := 1,
              attacking := true, attackRange := 1, strength := 1, accuracy := 1, simAttacks := 1,
              hasAmmo := true, initAmmo := 2, initPos := some (0, 0), initHealth := some 1 },
            { enc := 2, initPos := some (1, 2), initHealth := some (1/2), observing := true, viewRange := 0 }],
    st := [{}, {}] }

def exCs02 : List StateComp := [.health, .position .position {}, .orient, .ammo]
def exAtk02 : AttackCfg := ⟨.binary, [(1, [2])], false⟩
/-- reset; move right (next to the victim's diagonal); attack: the victim dies -/
def exOps02 : List (GOp × Tape) := [(.move (.move 0 (0, 1)), []), (.attack exAtk02 0 (.count 1), [0, 0, 0])]

theorem exFull02 : FullReset exW02 exCs02 := by
  refine ⟨⟨.position, {}, by simp [exCs02]⟩, by simp [exCs02], by simp [exCs02], by simp [exCs02], by simp [exCs02], ?_⟩
  intro kind o hm
  simp only [exCs02, List.mem_cons, List.not_mem_nil, or_false, reduceCtorEq, false_or,
    StateComp.position.injEq] at hm
  obtain ⟨rfl, rfl⟩ := hm
  decide

/-- the hypotheses of the theorems are inhabited … -/
example : (∀ b < exW02.n, 0 < exW02.encOf b) ∧ (∀ b < exW02.n, 0 ≤ (exW02.cfgOf b).initAmmo) ∧
    ResetsFull exW02 exOps02 := by
  refine ⟨by decide, by decide, ?_⟩
  intro cs t hm
  simp [exOps02] at hm

/-- … the history runs to its end: the attacker stands on (0, 1) with one round left, the victim is
dead (on no cell, stored position (1, 2)) … -/
example : (match runGOps exW02 ((.reset exCs02, []) :: exOps02) with
    | .ok w => (w.stOf 0).pos == (0, 1) && (w.stOf 0).ammo == 1 && !(w.stOf 1).active &&
               (w.stOf 1).pos == (1, 2) && w.cells == [[], [0], [], [], [], []] && w.WInv
    | .error _ => false) = true := by decide +kernel

/-- … and in the world it reaches the dead agent still observes inside its declared spaces (absolute
view: everything beyond range 0 masked; the own cell is empty, not −1: the agent is on no cell) -/
example : (match runGOps exW02 ((.reset exCs02, []) :: exOps02) with
    | .ok w =>
      (match getObs w 1 .absolute [] with
       | .ok (o, _) => o == .grid [[-2, -2, -2], [-2, -2, 0]] && declared w 1 .absolute o
       | .error _ => false) &&
      (match getObs w 0 (.centered true) [0] with
       | .ok (o, _) => o == .grid [[-1, -1, -1], [0, 1, 0], [0, 0, 0]] && declared w 0 (.centered true) o
       | .error _ => false) &&
      (match getObs w 0 .ammo [] with
       | .ok (o, _) => o == .scalar 1 && declared w 0 .ammo o
       | .error _ => false)
    | .error _ => false) = true := by decide +kernel

/-- the declared spaces really exclude something: an encoding above the largest one, a wrong shape, a
position outside the grid, more ammunition than the initial amount -/
example : declared exW02 0 .absolute (.grid [[0, 0, 3], [0, 0, 0]]) = false ∧
    declared exW02 0 .absolute (.grid [[0, 0], [0, 0], [0, 0]]) = false ∧
    declared exW02 0 .position (.vec (2, 0)) = false ∧ declared exW02 0 .ammo (.scalar 3) = false ∧
    declared exW02 0 .absolute (nullObs exW02 0 .absolute) = true ∧
    nullObs exW02 0 .stacked = .stack [[[-2, -2], [-2, -2], [-2, -2]], [[-2, -2], [-2, -2], [-2, -2]],
      [[-2, -2], [-2, -2], [-2, -2]]] := by decide

/-- null attacks of the four actors for the example attacker, all in space -/
example : nullAttack ⟨.encoding, [(1, [2])], false⟩ exW02 0 = .perEnc [(2, 0)] ∧
    nullAttack ⟨.selective, [(1, [2])], false⟩ exW02 0 = .grid [0, 0, 0, 0, 0, 0, 0, 0, 0] ∧
    nullAttack ⟨.restricted, [(1, [2])], false⟩ exW02 0 = .cells [0] ∧
    inSpace ⟨.encoding, [(1, [2])], false⟩ exW02 0 (.perEnc [(2, 0)]) = true ∧
    inSpace ⟨.restricted, [(1, [2])], false⟩ exW02 0 (.cells [10]) = false := by decide

/-- a stack on a concrete observation space: `{'position': Box([0,0],[1,2]), 'ammo': Box(0,2,(1,))}`,
ravelled (18 points; the point is number 11), then wrapped by the communication wrapper (two other
agents, one pending message) -/
example : (match stackRun [MLayer.ravel, MLayer.comm 0 1 [5, 7] [(5, false), (7, true)]]
      (.dict [0, 1] [.box [1] [0] [2] true, .box [2] [0, 0] [1, 2] true])
      (.dict [0, 1] [.arr [.int 1], .arr [.int 1, .int 2]]) with
    | some (s', p') =>
      mem s' p' &&
      (p' == .dict [0, 1] [.dict [5, 7] [.scalar (.int 0), .scalar (.int 1)], .scalar (.int 11)]) &&
      (match s' with
       | .dict [0, 1] [.dict [5, 7] [.discrete 2 0, .discrete 2 0], .discrete 18 0] => true
       | _ => false)
    | none => false) = true := by decide

/-- the flattened space of the same Dict as a `Space`, and a super observation over two such agents
(a missing mask entry is rejected) -/
example : (match MLayer.flatten.space (.dict [0, 1] [.box [1] [0] [2] true, .box [2] [0, 0] [1, 2] true]) with
    | some (.box [3] lo hi true) => lo == [0, 0, 0] && hi == [2, 1, 2]
    | _ => false) = true ∧
    mem (superSpace 9 [0, 1] fun _ => .box [1] [0] [2] true)
      (superPt 9 [(0, true), (1, false)] [(0, .arr [.int 2]), (1, .arr [.int 0])]) = true ∧
    mem (superSpace 9 [0, 1] fun _ => .box [1] [0] [2] true)
      (superPt 9 [(0, true)] [(0, .arr [.int 2]), (1, .arr [.int 0])]) = false := by decide

end Abmarl
