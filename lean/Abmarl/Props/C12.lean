import Abmarl.Lemmas.Grid
import Abmarl.Lemmas.MoversInactive
/-!
# C12 — Moves succeed exactly when the destination is free, and change only the mover

* `C12_moves` — for **every** world satisfying the consistency invariant `WInv` (C03), every
  active agent and every action of the actor's action space, each of the three move actors
  returns without error and its outcome satisfies the decidable specification `specC12`
  (`specMoveBy` / `specDrift` of `Spec/Grid.lean`).
* `c12_*` — readings: what `specMoveBy` says in Prop form.
* `C12_inactive_mover`, `C12_moves_any` — calls made for an agent that is NOT active (judge `specMoveAny`): the
  call raises or returns with the world unchanged, for every action value; both cases together.
* `inactive_mover_outcome` (`inactive_move_outcome`, `inactive_cross_outcome`, `inactive_drift_outcome`) — which
  of the two it is: `KeyError` exactly when an attempt would have been carried out (`World.wouldMove`).
-/
namespace Abmarl
open World

theorem placed_of_WInv {w : World} {a : Aid} (hI : w.WInv = true) (ha : a < w.n)
    (hact : (w.stOf a).active = true) : Placed w a := by
  simp only [WInv, Bool.and_eq_true, List.all_eq_true] at hI
  obtain ⟨⟨⟨hshape, hcells⟩, hagents⟩, _⟩ := hI
  simp only [wShape, Bool.and_eq_true, beq_iff_eq] at hshape
  obtain ⟨hlen, hst⟩ := hshape
  have hA := hagents a (by simpa [allAgents] using ha)
  simp only [wAgent, Bool.and_eq_true] at hA
  have hA1 := hA.1.1.1.1.1.1
  rw [hact] at hA1
  simp only [Bool.not_true, Bool.false_or, Bool.and_eq_true, decide_eq_true_eq] at hA1
  refine ⟨hlen, by rw [hst]; exact ha, hA1.1, hA1.2, ?_⟩
  intro i hi
  by_cases hil : i < w.rows * w.cols
  · have hc := hcells i (by simpa [allCells] using hil)
    simp only [wCell, Bool.and_eq_true, List.all_eq_true, beq_iff_eq] at hc
    exact (hc.1.2 a hi).2.symm
  · have : w.cells.getD i [] = [] := by
      simp only [List.getD_eq_getElem?_getD]
      rw [List.getElem?_eq_none (by omega)]; rfl
    rw [this] at hi; cases hi

/-- **C12** for all worlds, agents and actions. -/
theorem C12_moves (w : World) (c : MoveCall) (hI : w.WInv = true) (ha : c.agent < w.n)
    (hact : (w.stOf c.agent).active = true) (hsp : c.inSpace w = true) :
    specC12 w c (runMoveCall w c) = true := by
  have hP := placed_of_WInv hI ha hact
  cases c with
  | move a d =>
    simp only [MoveCall.agent] at ha hact hP
    obtain ⟨ok, w', hm, hs⟩ := moveBy_sound hP d
    by_cases hmv : (w.cfgOf a).moving = true
    · simp [runMoveCall, moveAct, hmv, hm, specC12, Except.map, hs]
    · simp [runMoveCall, moveAct, hmv, specC12, Except.map]
  | cross a x =>
    simp only [MoveCall.agent] at ha hact hP
    simp only [MoveCall.inSpace, Bool.and_eq_true, decide_eq_true_eq] at hsp
    by_cases hmv : (w.cfgOf a).moving = true
    · obtain ⟨d, hd⟩ : ∃ d, crossTable x = some d := by
        have : x = 0 ∨ x = 1 ∨ x = 2 ∨ x = 3 ∨ x = 4 := by omega
        rcases this with h | h | h | h | h <;> subst h <;> exact ⟨_, rfl⟩
      obtain ⟨ok, w', hm, hs⟩ := moveBy_sound hP d
      simp [runMoveCall, crossAct, hmv, hd, hm, specC12, Except.map, hs]
    · simp [runMoveCall, crossAct, hmv, specC12, Except.map]
  | drift a x =>
    simp only [MoveCall.agent] at ha hact hP
    simp only [MoveCall.inSpace, Bool.and_eq_true, decide_eq_true_eq] at hsp
    by_cases hsup : ((w.cfgOf a).moving && (w.cfgOf a).hasOrient) = true
    · have hmv : (w.cfgOf a).moving = true := by
        simp only [Bool.and_eq_true] at hsup; exact hsup.1
      have hor : (w.cfgOf a).hasOrient = true := by
        simp only [Bool.and_eq_true] at hsup; exact hsup.2
      -- the orientation is one of the four directions (C03)
      have horient : 1 ≤ (w.stOf a).orient ∧ (w.stOf a).orient ≤ 4 := by
        simp only [WInv, Bool.and_eq_true, List.all_eq_true] at hI
        have hA := hI.1.2 a (by simpa [allAgents] using ha)
        simp only [wAgent, hor, Bool.not_true, Bool.false_or, Bool.and_eq_true, decide_eq_true_eq] at hA
        exact hA.2
      obtain ⟨do_, hdo⟩ : ∃ d, crossTable ((w.stOf a).orient : Int) = some d := by
        have : (w.stOf a).orient = 1 ∨ (w.stOf a).orient = 2 ∨ (w.stOf a).orient = 3 ∨
            (w.stOf a).orient = 4 := by omega
        rcases this with h | h | h | h <;> rw [h] <;> exact ⟨_, rfl⟩
      obtain ⟨d, hd⟩ : ∃ d, crossTable x = some d := by
        have : x = 0 ∨ x = 1 ∨ x = 2 ∨ x = 3 ∨ x = 4 := by omega
        rcases this with h | h | h | h | h <;> subst h <;> exact ⟨_, rfl⟩
      -- the drift attempt from `w`
      obtain ⟨okd, wd, hmd, hsd⟩ := moveBy_sound hP do_
      have hdriftw : w.crossAct a ((w.stOf a).orient : Int) = .ok (some okd, wd) := by
        simp [crossAct, hmv, hdo, hmd]
      by_cases hx0 : x = 0
      · subst hx0
        simp [runMoveCall, driftAct, hsup, hdriftw, specC12, specDrift, Except.map, hdo, hsd,
          show crossTable 0 = some (0, 0) from rfl]
      · obtain ⟨ok, w1, hm, hs⟩ := moveBy_sound hP d
        have hcross : w.crossAct a x = .ok (some ok, w1) := by simp [crossAct, hmv, hd, hm]
        obtain ⟨hokfree, hstat, hmoved, hstay⟩ := specMoveBy_reading hs
        cases hok : ok with
        | true =>
          subst hok
          have hfree : w.destFree a d = true := hokfree.symm
          -- the orientation of the mover is untouched by the relocation
          have hor1 : (w1.stOf a).orient = (w.stOf a).orient := by
            by_cases hmove : ((w.stOf a).pos.1 + d.1, (w.stOf a).pos.2 + d.2) ≠ (w.stOf a).pos
            · rw [(hmoved ⟨rfl, hmove⟩).1]
            · rw [hstay (fun hp => hmove hp.2)]
          have hlen1 : a < w1.st.length := by
            simp only [sameStatic, Bool.and_eq_true, beq_iff_eq] at hstat
            rw [← hstat.2]; exact hP.aSt
          have hback := setSt_back (w1 := w1) (a := a) x.toNat (w.stOf a).orient hlen1 hor1
          have hnew : ((w1.setSt a { w1.stOf a with orient := x.toNat }).stOf a).orient = x.toNat := by
            rw [stOf_setSt_same _ _ _ hlen1]
          have hx0' : (x != 0) = true := by simpa using hx0
          simp [runMoveCall, driftAct, hsup, hx0, hcross, specC12, specDrift, Except.map, hd, hfree,
            hx0', hnew, hback, hs]
        | false =>
          subst hok
          have hfree : w.destFree a d = false := hokfree.symm
          have hw1 : w1 = w := hstay (fun hp => by cases hp.1)
          subst hw1
          simp [runMoveCall, driftAct, hsup, hx0, hcross, hdriftw, specC12, specDrift, Except.map, hd,
            hfree, hdo, hsd]
    · have hsup' : ((w.cfgOf a).moving && (w.cfgOf a).hasOrient) = false := by simpa using hsup
      simp [runMoveCall, driftAct, hsup', specC12, specDrift, Except.map]

end Abmarl

namespace Abmarl
open World

/-! ## Readings of the specification -/

/-- a move succeeds **iff** the destination is inside the grid and is either the agent's current
cell or a cell where every occupant may overlap with the mover -/
theorem c12_move_succeeds_iff {w w' : World} {a : Aid} {d : Pos} {ok : Bool}
    (h : specMoveBy w a d ok w' = true) :
    ok = true ↔
      (w.inGrid ((w.stOf a).pos.1 + d.1, (w.stOf a).pos.2 + d.2) = true ∧
        (((w.stOf a).pos.1 + d.1, (w.stOf a).pos.2 + d.2) = (w.stOf a).pos ∨
          ∀ o ∈ w.cell ((w.stOf a).pos.1 + d.1, (w.stOf a).pos.2 + d.2),
            w.pairOK (w.encOf a) (w.encOf o) = true)) := by
  rw [(specMoveBy_reading h).1]
  simp [destFree, List.all_eq_true]

/-- on success the position changes by exactly the requested offset and only the mover's cell
membership changes; on failure nothing changes; no other agent is ever affected -/
theorem c12_move_effect {w w' : World} {a : Aid} {d : Pos} {ok : Bool}
    (h : specMoveBy w a d ok w' = true) :
    (ok = true → (w'.stOf a).pos = ((w.stOf a).pos.1 + d.1, (w.stOf a).pos.2 + d.2)) ∧
    (ok = false → w' = w) ∧
    (∀ b < w.n, b ≠ a → w'.stOf b = w.stOf b) := by
  obtain ⟨_, _, hmoved, hstay⟩ := specMoveBy_reading h
  refine ⟨?_, ?_, ?_⟩
  · intro hok
    by_cases hne : ((w.stOf a).pos.1 + d.1, (w.stOf a).pos.2 + d.2) ≠ (w.stOf a).pos
    · rw [(hmoved ⟨hok, hne⟩).1]
    · rw [hstay (fun hp => hne hp.2)]
      exact (Classical.not_not.mp hne).symm
  · intro hok
    exact hstay (fun hp => by rw [hok] at hp; cases hp.1)
  · intro b hb hba
    by_cases hp : ok = true ∧ ((w.stOf a).pos.1 + d.1, (w.stOf a).pos.2 + d.2) ≠ (w.stOf a).pos
    · exact (hmoved hp).2.1 b hb hba
    · rw [hstay hp]

/-- the cross actor's table: 0 stay, 1 left, 2 down, 3 right, 4 up -/
theorem c12_cross_table :
    crossTable 0 = some (0, 0) ∧ crossTable 1 = some (0, -1) ∧ crossTable 2 = some (1, 0) ∧
    crossTable 3 = some (0, 1) ∧ crossTable 4 = some (-1, 0) := ⟨rfl, rfl, rfl, rfl, rfl⟩

/-! ## Non-vacuity: a 2×3 world with a mover next to an agent it may not overlap with -/

def exWorld : World :=
  { rows := 2, cols := 3, overlap := [(1, [1])],
    cells := [[0], [1], [], [], [], [2]],
    cfg := [{ enc := 1, moving := true, moveRange := 2, hasOrient := true }, { enc := 2 }, { enc := 1 }],
    st := [{ pos := (0, 0), orient := 3 }, { pos := (0, 1) }, { pos := (1, 2) }] }

example : exWorld.WInv = true := by decide
/-- blocked to the right (encoding 2 may not be joined), free downwards, and the drift actor
asked to go right keeps drifting … which is blocked as well; asked to go down it turns -/
example :
    (match runMoveCall exWorld (.cross 0 3) with | .ok o => o.ret == some false | _ => false) = true ∧
    (match runMoveCall exWorld (.cross 0 2) with | .ok o => o.ret == some true | _ => false) = true ∧
    (match runMoveCall exWorld (.drift 0 2) with
      | .ok o => o.ret == some true && (o.post.stOf 0).orient == 2 && (o.post.stOf 0).pos == (1, 0)
      | _ => false) = true ∧
    specC12 exWorld (.drift 0 2) (runMoveCall exWorld (.drift 0 2)) = true := by decide

end Abmarl

namespace Abmarl
open World

/-! ### Calls made for any agent (round 6): the judge of the driver is `specMoveAny` -/

/-- for an active mover the judge is `specC12` -/
theorem specMoveAny_active (w : World) (c : MoveCall) (o : Except GErr MoveOut)
    (hact : (w.stOf c.agent).active = true) : specMoveAny w c o = specC12 w c o := by
  simp [specMoveAny, hact]

/-- for an active mover the invariant judge is `specC03Move` -/
theorem specC03MoveAny_active (w : World) (c : MoveCall) (o : Except GErr MoveOut)
    (hact : (w.stOf c.agent).active = true) : specC03MoveAny w c o = specC03Move w o := by
  simp [specC03MoveAny, hact]

/-- **C12**, active movers, in the form the driver judges -/
theorem C12_moves_judge (w : World) (c : MoveCall) (hI : w.WInv = true) (ha : c.agent < w.n)
    (hact : (w.stOf c.agent).active = true) (hsp : c.inSpace w = true) :
    specMoveAny w c (runMoveCall w c) = true := by
  rw [specMoveAny_active w c _ hact]; exact C12_moves w c hI ha hact hsp

end Abmarl

namespace Abmarl
open World

/-! ### The mover is not active (round 6)

Under `WInv` an agent that is not active stands in no cell (`World.not_mem_cell_of_inactive`), so the only
operation of a move actor that could change the world - `Grid.remove` followed by `Grid.place` - raises
`KeyError` at its first half (`World.remove_inactive`).  Everything before it only reads. -/

/-- the drift actor's attempt along the stored orientation returns the world it was given -/
theorem ghostDrift_world {w : World} {a : Aid} {r : Option Bool × World × Int}
    (h : w.ghostDrift a = .ok r) : r.2.1 = w := by
  unfold ghostDrift at h
  split at h
  · cases h
  · split at h
    · cases h
    · cases h; rfl

/-- **C12, inactive mover**, without any bound on the agent index and for EVERY action value (inside the
declared action space or not): the call raises, or returns with the world unchanged. -/
theorem C12_inactive_mover_any (w : World) (c : MoveCall) (hI : w.WInv = true)
    (hin : (w.stOf c.agent).active = false) : specMoveAny w c (runMoveCall w c) = true := by
  cases c with
  | move a d =>
    simp only [MoveCall.agent] at hin
    simp only [specMoveAny, MoveCall.agent, hin, runMoveCall, moveAct_inactive hI hin]
    by_cases hm : (w.cfgOf a).moving = true <;> by_cases h : w.wouldMove a d = true <;>
      simp [hm, h, Except.map]
  | cross a x =>
    simp only [MoveCall.agent] at hin
    simp only [specMoveAny, MoveCall.agent, hin, runMoveCall, crossAct_inactive hI hin]
    by_cases hm : (w.cfgOf a).moving = true
    · cases hd : crossTable x with
      | none => simp [hm, Except.map]
      | some d => by_cases h : w.wouldMove a d = true <;> simp [hm, h, Except.map]
    · simp [hm, Except.map]
  | drift a x =>
    simp only [MoveCall.agent] at hin
    simp only [specMoveAny, MoveCall.agent, hin, runMoveCall]
    cases hr : w.driftAct a x with
    | error e => simp [Except.map]
    | ok r =>
      have hw : r.2.1 = w := by
        rw [driftAct_inactive hI hin] at hr
        by_cases hsup : ((w.cfgOf a).moving && (w.cfgOf a).hasOrient) = true
        · rw [if_pos hsup] at hr
          by_cases hx : x = 0
          · rw [if_neg (by simpa using hx)] at hr
            exact ghostDrift_world hr
          · rw [if_pos hx] at hr
            cases hd : crossTable x with
            | none => rw [hd] at hr; cases hr
            | some d =>
              rw [hd] at hr
              by_cases h : w.wouldMove a d = true
              · simp only [h, if_true] at hr; cases hr
              · simp only [h, Bool.false_eq_true, if_false] at hr
                exact ghostDrift_world hr
        · rw [if_neg hsup] at hr
          cases hr; rfl
      simp [Except.map, hw]

/-- **C12, inactive mover** (the clause the driver judges with `specMoveAny` when the agent of the call is
not active): for every world satisfying `WInv`, every agent that is not active and EVERY action value - no
`inSpace` hypothesis is needed - the call raises or returns with the world unchanged.  (The bound `ha` is
not used: `C12_inactive_mover_any`.) -/
theorem C12_inactive_mover (w : World) (c : MoveCall) (hI : w.WInv = true) (_ha : c.agent < w.n)
    (hin : (w.stOf c.agent).active = false) : specMoveAny w c (runMoveCall w c) = true :=
  C12_inactive_mover_any w c hI hin

end Abmarl

namespace Abmarl
open World

/-- **C12 for a call made for any agent**, active or not, in the form the driver judges: for every world
satisfying `WInv`, every agent and every action of the action space the outcome satisfies `specMoveAny`. -/
theorem C12_moves_any (w : World) (c : MoveCall) (hI : w.WInv = true) (ha : c.agent < w.n)
    (hsp : c.inSpace w = true) : specMoveAny w c (runMoveCall w c) = true := by
  cases hact : (w.stOf c.agent).active with
  | true => exact C12_moves_judge w c hI ha hact hsp
  | false => exact C12_inactive_mover w c hI ha hact

end Abmarl

namespace Abmarl
open World

/-! ### What exactly happens to a mover that is not active

`World.wouldMove w a d`: the destination of the offset `d` from the STORED position of `a` is another cell,
inside the grid, and `Grid.query` accepts `a` there.  `World.staysPut w a d`: the destination is the stored
position itself and lies inside the grid (the actors answer `True` without touching the grid). -/

/-- `MoveActor`: raises `KeyError` exactly when the move would have been carried out; otherwise answers with
the world it was given (`True` only for the trivial move onto the stored position) -/
theorem inactive_move_outcome (w : World) (a : Aid) (d : Pos) (hI : w.WInv = true)
    (hin : (w.stOf a).active = false) (hmv : (w.cfgOf a).moving = true) :
    runMoveCall w (.move a d) =
      if w.wouldMove a d then .error .keyError else .ok ⟨some (w.staysPut a d), w, 0⟩ := by
  simp only [runMoveCall, moveAct_inactive hI hin, hmv, if_true]
  by_cases h : w.wouldMove a d = true <;> simp [h, Except.map]

/-- `CrossMoveActor`, an action of the table -/
theorem inactive_cross_outcome (w : World) (a : Aid) (x : Int) (d : Pos) (hI : w.WInv = true)
    (hin : (w.stOf a).active = false) (hmv : (w.cfgOf a).moving = true) (hd : crossTable x = some d) :
    runMoveCall w (.cross a x) =
      if w.wouldMove a d then .error .keyError else .ok ⟨some (w.staysPut a d), w, x⟩ := by
  simp only [runMoveCall, crossAct_inactive hI hin, hmv, if_true, hd]
  by_cases h : w.wouldMove a d = true <;> simp [h, Except.map]

/-- `CrossMoveActor`, an action outside the table: the assertion of `grid_action` -/
theorem inactive_cross_outside (w : World) (a : Aid) (x : Int) (hI : w.WInv = true)
    (hin : (w.stOf a).active = false) (hmv : (w.cfgOf a).moving = true) (hd : crossTable x = none) :
    runMoveCall w (.cross a x) = .error .assertion := by
  simp [runMoveCall, crossAct_inactive hI hin, hmv, hd, Except.map]

/-- `DriftMoveActor`, stored orientation inside the table (offset `d'`): asked for a new direction `x ≠ 0` the
FIRST attempt (offset of `x`) decides whenever it raises; when it is refused the SECOND attempt (along the
stored orientation) decides; for `x = 0` only the second attempt is made.  A call that returns leaves the
stored orientation in the action dictionary. -/
theorem inactive_drift_outcome (w : World) (a : Aid) (x : Int) (d' : Pos) (hI : w.WInv = true)
    (hin : (w.stOf a).active = false)
    (hsup : ((w.cfgOf a).moving && (w.cfgOf a).hasOrient) = true)
    (ho : crossTable ((w.stOf a).orient : Int) = some d') :
    runMoveCall w (.drift a x) =
      if x ≠ 0 then
        match crossTable x with
        | none => .error .assertion
        | some d =>
          if w.wouldMove a d then .error .keyError
          else if w.wouldMove a d' then .error .keyError
          else .ok ⟨some (w.staysPut a d'), w, ((w.stOf a).orient : Int)⟩
      else if w.wouldMove a d' then .error .keyError
      else .ok ⟨some (w.staysPut a d'), w, ((w.stOf a).orient : Int)⟩ := by
  have hg : (w.ghostDrift a).map (fun r => (⟨r.1, r.2.1, r.2.2⟩ : MoveOut)) =
      if w.wouldMove a d' then .error .keyError
      else .ok ⟨some (w.staysPut a d'), w, ((w.stOf a).orient : Int)⟩ := by
    simp only [ghostDrift, ho]
    by_cases h : w.wouldMove a d' = true <;> simp [h, Except.map]
  simp only [runMoveCall, driftAct_inactive hI hin, hsup, if_true]
  by_cases hx : x = 0
  · simp only [hx, ne_eq, not_true_eq_false, if_false]; exact hg
  · simp only [ne_eq, hx, not_false_eq_true, if_true]
    cases hd : crossTable x with
    | none => rfl
    | some d =>
      by_cases h : w.wouldMove a d = true
      · simp [h, Except.map]
      · simp only [h, Bool.false_eq_true, if_false]; exact hg

/-- the agent is one the actor supports -/
def MoveCall.supported (w : World) : MoveCall → Bool
  | .move a _ => (w.cfgOf a).moving
  | .cross a _ => (w.cfgOf a).moving
  | .drift a _ => (w.cfgOf a).moving && (w.cfgOf a).hasOrient

/-- the offsets a call tries, in the order it tries them -/
def MoveCall.attempts (w : World) : MoveCall → List Pos
  | .move _ d => [d]
  | .cross _ x => (crossTable x).toList
  | .drift a x => (if x = 0 then [] else (crossTable x).toList) ++
      (crossTable ((w.stOf a).orient : Int)).toList

/-- the value in `action_dict['move']` after a call that returns -/
def MoveCall.leftInactive (w : World) : MoveCall → Int
  | .move _ _ => 0
  | .cross _ x => x
  | .drift a _ => ((w.stOf a).orient : Int)

/-- under the invariant the stored orientation of an agent with an orientation is a real direction -/
theorem orient_in_table {w : World} {a : Aid} (hI : w.WInv = true) (ha : a < w.n)
    (hor : (w.cfgOf a).hasOrient = true) :
    ∃ d, crossTable ((w.stOf a).orient : Int) = some d ∧ d ≠ (0, 0) := by
  have hA := ((WInv_parts_iff w).1 hI).2.2.1 a ha
  have h := ((wAgent_reading w a).1 hA).2.2.2.2.2.2 hor
  have : (w.stOf a).orient = 1 ∨ (w.stOf a).orient = 2 ∨ (w.stOf a).orient = 3 ∨
      (w.stOf a).orient = 4 := by omega
  rcases this with h | h | h | h <;> rw [h] <;> exact ⟨_, rfl, by decide⟩

/-- **the outcome of a call for a supported agent that is not active, action in the action space**: the call
raises `KeyError` exactly when one of its attempts would have been carried out (the first such attempt raises:
`inactive_drift_outcome`); otherwise it returns, with the world it was given, and with `False` unless its
last attempt is the trivial move onto the stored position (possible for `MoveActor` with offset `(0,0)` and
`CrossMoveActor` with action 0 only). -/
theorem inactive_mover_outcome (w : World) (c : MoveCall) (hI : w.WInv = true) (ha : c.agent < w.n)
    (hin : (w.stOf c.agent).active = false) (hsp : c.inSpace w = true) (hsup : c.supported w = true) :
    runMoveCall w c =
      if (c.attempts w).any (w.wouldMove c.agent) then .error .keyError
      else .ok ⟨some ((c.attempts w).getLast?.elim false (w.staysPut c.agent)), w, c.leftInactive w⟩ := by
  cases c with
  | move a d =>
    simp only [MoveCall.agent, MoveCall.supported] at ha hin hsup
    rw [inactive_move_outcome w a d hI hin hsup]
    simp [MoveCall.attempts, MoveCall.agent, MoveCall.leftInactive]
  | cross a x =>
    simp only [MoveCall.agent, MoveCall.supported] at ha hin hsup
    simp only [MoveCall.inSpace, Bool.and_eq_true, decide_eq_true_eq] at hsp
    obtain ⟨d, hd⟩ : ∃ d, crossTable x = some d := by
      have : x = 0 ∨ x = 1 ∨ x = 2 ∨ x = 3 ∨ x = 4 := by omega
      rcases this with h | h | h | h | h <;> subst h <;> exact ⟨_, rfl⟩
    rw [inactive_cross_outcome w a x d hI hin hsup hd]
    simp [MoveCall.attempts, MoveCall.agent, MoveCall.leftInactive, hd]
  | drift a x =>
    simp only [MoveCall.agent, MoveCall.supported] at ha hin hsup
    simp only [MoveCall.inSpace, Bool.and_eq_true, decide_eq_true_eq] at hsp
    have hor : (w.cfgOf a).hasOrient = true := by
      simp only [Bool.and_eq_true] at hsup; exact hsup.2
    obtain ⟨d', hd', hne'⟩ := orient_in_table hI ha hor
    obtain ⟨d, hd⟩ : ∃ d, crossTable x = some d := by
      have : x = 0 ∨ x = 1 ∨ x = 2 ∨ x = 3 ∨ x = 4 := by omega
      rcases this with h | h | h | h | h <;> subst h <;> exact ⟨_, rfl⟩
    rw [inactive_drift_outcome w a x d' hI hin hsup hd']
    have hs : w.staysPut a d' = false := staysPut_of_ne hne'
    by_cases hx : x = 0
    · subst hx
      simp [MoveCall.attempts, MoveCall.agent, MoveCall.leftInactive, hd', hs]
    · by_cases h1 : w.wouldMove a d = true <;> by_cases h2 : w.wouldMove a d' = true <;>
        simp [MoveCall.attempts, MoveCall.agent, MoveCall.leftInactive, hd', hd, hs, hx, h1, h2]

end Abmarl

namespace Abmarl
open World

/-! ## Non-vacuity: a 2×2 world with one dead agent

Agent 0 (encoding 1, a mover with an orientation `o`) is dead: health 0, not active, in no cell, its stored
position still `(0,0)`.  Agent 1 (encoding 2, which 1 may not join) stands at `(0,1)`; the cell below, `(1,0)`,
is empty. -/

def exDead (o : Nat) : World :=
  { rows := 2, cols := 2, overlap := [(1, [1])],
    cells := [[], [1], [], []],
    cfg := [{ enc := 1, moving := true, moveRange := 1, hasOrient := true }, { enc := 2 }],
    st := [{ pos := (0, 0), health := 0, active := false, orient := o }, { pos := (0, 1) }] }

example : (exDead 2).WInv = true ∧ (exDead 4).WInv = true := by decide
example : ((exDead 2).stOf 0).active = false ∧ (0 : Aid) < (exDead 2).n := by decide
/-- both outcomes, all three actors: downwards (free cell) the call raises `KeyError`; to the right (a cell the
mover may not join) and upwards (outside the grid) it is refused and the world stays; the trivial move
answers `True` -/
example :
    (match runMoveCall (exDead 2) (.move 0 (1, 0)) with | .error .keyError => true | _ => false) = true ∧
    (match runMoveCall (exDead 2) (.move 0 (0, 1)) with
      | .ok o => o.ret == some false && o.post == exDead 2 | _ => false) = true ∧
    (match runMoveCall (exDead 2) (.move 0 (0, 0)) with
      | .ok o => o.ret == some true && o.post == exDead 2 | _ => false) = true ∧
    (match runMoveCall (exDead 2) (.cross 0 2) with | .error .keyError => true | _ => false) = true ∧
    (match runMoveCall (exDead 2) (.cross 0 3) with
      | .ok o => o.ret == some false && o.post == exDead 2 | _ => false) = true ∧
    (match runMoveCall (exDead 2) (.cross 0 7) with | .error .assertion => true | _ => false) = true := by
  decide
/-- the drift actor: the first attempt raises (down); the first is refused (right) and the second (down, the
stored orientation) raises; both are refused (right, then up out of the grid) and the stored orientation is
left in the action dictionary -/
example :
    (match runMoveCall (exDead 4) (.drift 0 2) with | .error .keyError => true | _ => false) = true ∧
    (match runMoveCall (exDead 2) (.drift 0 3) with | .error .keyError => true | _ => false) = true ∧
    (match runMoveCall (exDead 2) (.drift 0 0) with | .error .keyError => true | _ => false) = true ∧
    (match runMoveCall (exDead 4) (.drift 0 3) with
      | .ok o => o.ret == some false && o.post == exDead 4 && o.left == 4 | _ => false) = true := by
  decide
/-- the judge accepts both kinds of outcome, and it is not trivially true: a returned world that differs is
rejected -/
example :
    specMoveAny (exDead 2) (.cross 0 2) (runMoveCall (exDead 2) (.cross 0 2)) = true ∧
    specMoveAny (exDead 2) (.cross 0 3) (runMoveCall (exDead 2) (.cross 0 3)) = true ∧
    specMoveAny (exDead 2) (.cross 0 3) (.ok ⟨some false, exDead 3, 3⟩) = false := by decide
example :
    ((MoveCall.drift 0 3).attempts (exDead 2) = [(0, 1), (1, 0)]) ∧
    ((exDead 2).wouldMove 0 (0, 1) = false) ∧ ((exDead 2).wouldMove 0 (1, 0) = true) ∧
    ((exDead 2).staysPut 0 (0, 0) = true) := by decide

end Abmarl
