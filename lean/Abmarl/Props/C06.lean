import Abmarl.Lemmas.Wrappers
import Abmarl.Lemmas.WrappersExcl
import Abmarl.Props.C01
import Abmarl.Props.C04
import Abmarl.Props.C05
import Abmarl.Props.C08
/-!
# C06 — Space-converting wrappers commute with the wrapped simulation

Property theorems only (helper lemmas: `Lemmas/Wrappers.lean`, `Lemmas/WrappersExcl.lean`; the
ravel / flatten facts come from C04 / C05).  The model is `Model/Wrappers.lean`, the decidable
specifications are in `Spec/Wrappers.lean`.

* `sar_commutes` / `sar_commutes_every_history` / `sar_inner_steps` — for **every** inner simulation
  (any state, action, observation and info types), every decoder / encoder pair and **every** call
  history: the trace of the wrapped simulation is the trace of the inner simulation under the decoded
  calls seen through the encoder (`obsW = enc obs`), the inner simulation ends in the same state, and
  the arguments its `step` receives are exactly the decoded action dictionaries.
* `ravel_commutes`, `flatten_commutes`, `flattenAction_commutes` — the three wrappers; with C04 / C05:
  every wrapped action of the wrapped space decodes (to a member of the inner space), every wrapped
  observation is a member of the wrapped observation space (`ravel_obs_mem`, `flatten_obs_mem`).
* `C06_wrapped_lawful`, `C06_wrapped_WF`, `C06_wrapped_resetForgets`, `C06_managers_over_wrapped`,
  `C06_fresh_twin_over_wrapped` — the wrapper is a functor on `SimIface`: C01 and C08 hold for every
  manager over every wrapped simulation.
* `actorWrapper_commutes` (+ the ravel / exclusive instances around the three movers).
* `exclusive_decode`, `exclusive_encode`, `exclusive_bijection`, `exclDims_formula` — the real content
  of the exclusive-channel wrapper.
* `unwrapped_innermost`.
* readings of the decidable specifications, the model's outcome satisfies them, stub instance,
  examples.
-/
namespace Abmarl

/-! ## the SAR wrapper commutes with the wrapped simulation -/

section sar
variable {σ α α' ω ω' ι : Type}

/-- **C06 (commuting)**: for every inner simulation, decoder, encoder, start state and history all of
whose actions decode (to `ds`): the trace of the wrapped simulation is the trace of the inner
simulation under the decoded history with every observation encoded, the inner simulation ends
in the same state, and the inner `step` arguments are the decoded ones. -/
theorem sar_commutes (S : SimIface σ α ω ι) (dec : Aid → α' → Except Err α) (enc : Aid → ω → ω')
    (s : σ) (cs : List (WCall α')) (ds : List (WCall α)) (h : decodeCalls dec cs = .ok ds) :
    runWith (sarCall S dec enc) s cs =
      (encTrace enc (runWith (simCall S) s ds).1, (runWith (simCall S) s ds).2) := by
  rw [runWith_sar, runWith_simCallE_ok S dec cs ds s h]

/-- the same for **every** history, undecodable actions included: such a call raises and is a no-op
on the inner simulation -/
theorem sar_commutes_every_history (S : SimIface σ α ω ι) (dec : Aid → α' → Except Err α)
    (enc : Aid → ω → ω') (s : σ) (cs : List (WCall α')) :
    runWith (sarCall S dec enc) s cs =
      (encTrace enc (runWith (simCallE S) s (cs.map (decodeCall dec))).1,
       (runWith (simCallE S) s (cs.map (decodeCall dec))).2) :=
  runWith_sar S dec enc cs s

/-- the inner step log of the wrapped run is the list of decoded action dictionaries -/
theorem sar_inner_steps (S : SimIface σ α ω ι) (dec : Aid → α' → Except Err α) (enc : Aid → ω → ω')
    (s : σ) (cs : List (WCall α')) (ds : List (WCall α)) (h : decodeCalls dec cs = .ok ds) :
    (runWith (sarCall S dec enc) s cs).1.map (·.2) = ds.map WCall.stepArgs := by
  rw [sar_commutes S dec enc s cs ds h]
  simp only [encTrace, List.map_map]
  exact runWith_simCall_ghosts S ds s

/-- each wrapped observation is the encoding of the inner observation (per call) -/
theorem sar_obs (S : SimIface σ α ω ι) (dec : Aid → α' → Except Err α) (enc : Aid → ω → ω')
    (s : σ) (a : Aid) :
    (sarCall S dec enc s (.obs a)).1 = .obs a (enc a (S.obs s a).1) ∧
    (sarCall S dec enc s (.obs a)).2.1 = (S.obs s a).2 := ⟨rfl, rfl⟩

/-- the total `SimIface` (`sarSim`, what the managers are run over) has the same values and states
as the faithful wrapper on every decodable history -/
theorem sarSim_commutes (S : SimIface σ α ω ι) (dec : Aid → α' → Except Err α) (enc : Aid → ω → ω') :
    ∀ (cs : List (WCall α')) (ds : List (WCall α)) (s : σ), decodeCalls dec cs = .ok ds →
      (runWith (simCall (sarSim S dec enc)) s cs).1.map (·.1) =
        (runWith (sarCall S dec enc) s cs).1.map (·.1) ∧
      (runWith (simCall (sarSim S dec enc)) s cs).2 = (runWith (sarCall S dec enc) s cs).2
  | [], _, _, _ => ⟨rfl, rfl⟩
  | c :: cs, ds, s, h => by
    simp only [decodeCalls] at h
    cases hc : decodeCall dec c with
    | error e => simp [hc] at h
    | ok d =>
      cases hcs : decodeCalls dec cs with
      | error e => simp [hc, hcs] at h
      | ok ds' =>
        obtain ⟨h1, h2⟩ := sarSim_call_ok S dec enc s c d hc
        obtain ⟨g1, g2⟩ := sarSim_commutes S dec enc cs ds' (sarCall S dec enc s c).2.1 hcs
        simp only [runWith, List.map_cons, h1, h2, g1, g2, and_self]

/-! ### the wrapper is a functor: manager theorems and C08 apply to wrapped simulations -/

theorem C06_wrapped_lawful {S : SimIface σ α ω ι} (hS : Lawful S) (dec : Aid → α' → Except Err α)
    (enc : Aid → ω → ω') : Lawful (sarSim S dec enc) := sarSim_lawful hS dec enc

theorem C06_wrapped_WF {S : SimIface σ α ω ι} {k : MKind} (hW : WF S k)
    (dec : Aid → α' → Except Err α) (enc : Aid → ω → ω') : WF (sarSim S dec enc) k :=
  sarSim_WF hW dec enc

theorem C06_wrapped_resetForgets {S : SimIface σ α ω ι} (hR : ResetForgets S)
    (dec : Aid → α' → Except Err α) (enc : Aid → ω → ω') : ResetForgets (sarSim S dec enc) :=
  fun s1 s2 => hR s1 s2

/-- C01 for every manager over every SAR-wrapped simulation, every history -/
theorem C06_managers_over_wrapped [DecidableEq α'] (S : SimIface σ α ω ι) (k : MKind) (hW : WF S k)
    (dec : Aid → α' → Except Err α) (enc : Aid → ω → ω') (m0 : MState σ) (ops : List (Op α')) :
    specC01 k S.n S.learning m0.shuffle (runOps (sarSim S dec enc) k m0 ops) = true :=
  C01_managers_honour_done_protocol (sarSim S dec enc) k (sarSim_WF hW dec enc) m0 ops

/-- C08 for every manager over every SAR-wrapped simulation whose inner reset forgets -/
theorem C06_fresh_twin_over_wrapped (S : SimIface σ α ω ι) (hR : ResetForgets S) (k : MKind)
    (hl : k = .turnBased → S.learners ≠ []) (dec : Aid → α' → Except Err α) (enc : Aid → ω → ω')
    (m0 : MState σ) (history follow : List (Op α')) (seed : Tape) :
    runOps (sarSim S dec enc) k { finalState (sarSim S dec enc) k m0 history with tape := seed }
        (.reset :: follow) =
      runOps (sarSim S dec enc) k { m0 with tape := seed } (.reset :: follow) :=
  fresh_twin_managers (sarSim S dec enc) (C06_wrapped_resetForgets hR dec enc) k hl m0 history follow seed

end sar

/-! ## RavelDiscreteWrapper -/

/-- every action of the step is a number of the agent's wrapped action space `Discrete(card)`,
over a well-formed inner action space -/
def RavelStepOK (sp : AgentSpaces) (acts : List (Aid × Nat)) : Prop :=
  ∀ p ∈ acts, ∃ s, actSpace? sp p.1 = some s ∧ WF04 s = true ∧ p.2 < card s

def RavelHistOK (sp : AgentSpaces) (cs : List (WCall Nat)) : Prop :=
  ∀ c ∈ cs, ∀ acts, c = .step acts → RavelStepOK sp acts

/-- a wrapped action of the wrapped space decodes to a member of the inner action space that
ravels back to it -/
theorem ravel_dec_ok (sp : AgentSpaces) (a : Aid) (k : Nat) (s : Space) (hs : actSpace? sp a = some s)
    (hW : WF04 s = true) (hk : k < card s) :
    ∃ p, ravelDec sp a k = .ok p ∧ mem s p = true ∧ ravel s p = some (k : Int) := by
  obtain ⟨p, h1, h2, h3⟩ := C04_ravel_unravel s k hW hk
  exact ⟨p, by simp [ravelDec, hs, h1, optE], h2, h3⟩

/-- `d` is `acts` with every number replaced by a member of the agent's action space that ravels to it -/
def DecodedBy (sp : AgentSpaces) : List (Aid × Nat) → List (Aid × Pt) → Prop
  | [], [] => True
  | p :: ps, q :: qs =>
    (q.1 = p.1 ∧ ∃ s, actSpace? sp p.1 = some s ∧ mem s q.2 = true ∧ ravel s q.2 = some (p.2 : Int)) ∧
      DecodedBy sp ps qs
  | _, _ => False

theorem ravel_decodeAll_ok (sp : AgentSpaces) : ∀ (acts : List (Aid × Nat)), RavelStepOK sp acts →
    ∃ d, decodeAll (ravelDec sp) acts = .ok d ∧ DecodedBy sp acts d
  | [], _ => ⟨[], rfl, trivial⟩
  | p :: rest, h => by
    obtain ⟨s, hs, hW, hk⟩ := h p (by simp)
    obtain ⟨q, hq, hm, hr⟩ := ravel_dec_ok sp p.1 p.2 s hs hW hk
    obtain ⟨d, hd, hf⟩ := ravel_decodeAll_ok sp rest (fun x hx => h x (by simp [hx]))
    exact ⟨(p.1, q) :: d, by simp only [decodeAll, hq, hd], ⟨rfl, s, hs, hm, hr⟩, hf⟩

theorem ravel_decodeCalls_ok (sp : AgentSpaces) : ∀ (cs : List (WCall Nat)), RavelHistOK sp cs →
    ∃ ds, decodeCalls (ravelDec sp) cs = .ok ds
  | [], _ => ⟨[], rfl⟩
  | c :: cs, h => by
    obtain ⟨ds, hds⟩ := ravel_decodeCalls_ok sp cs (fun x hx => h x (by simp [hx]))
    have hc : ∃ d, decodeCall (ravelDec sp) c = .ok d := by
      cases c with
      | step acts =>
        obtain ⟨d, hd, _⟩ := ravel_decodeAll_ok sp acts (h _ (by simp) acts rfl)
        exact ⟨.step d, by simp only [decodeCall, hd]⟩
      | reset => exact ⟨_, rfl⟩
      | obs a => exact ⟨_, rfl⟩
      | reward a => exact ⟨_, rfl⟩
      | done a => exact ⟨_, rfl⟩
      | allDone => exact ⟨_, rfl⟩
      | info a => exact ⟨_, rfl⟩
    obtain ⟨d, hd⟩ := hc
    exact ⟨d :: ds, by simp only [decodeCalls, hd, hds]⟩

/-- **C06 for `RavelDiscreteWrapper`**: for every inner simulation with point-valued actions and
observations, every assignment of well-formed spaces and every history whose actions are numbers
of the wrapped action spaces, the wrapped run is the inner run under the unravelled actions, seen
through `ravel`; same final state; the inner `step` received exactly the unravelled actions. -/
theorem ravel_commutes {σ ι : Type} (S : SimIface σ Pt Pt ι) (sp : AgentSpaces) (s : σ)
    (cs : List (WCall Nat)) (h : RavelHistOK sp cs) :
    ∃ ds, decodeCalls (ravelDec sp) cs = .ok ds ∧
      runWith (sarCall S (ravelDec sp) (ravelEnc sp)) s cs =
        (encTrace (ravelEnc sp) (runWith (simCall S) s ds).1, (runWith (simCall S) s ds).2) ∧
      (runWith (sarCall S (ravelDec sp) (ravelEnc sp)) s cs).1.map (·.2) = ds.map WCall.stepArgs := by
  obtain ⟨ds, hds⟩ := ravel_decodeCalls_ok sp cs h
  exact ⟨ds, hds, sar_commutes S _ _ s cs ds hds, sar_inner_steps S _ _ s cs ds hds⟩

/-- the ravelled observation of a member of the (well-formed) observation space is a number of the
wrapped observation space `ravel_space(space) = Discrete(card)`, and it is *the* encoding: it
unravels to the inner observation -/
theorem ravel_obs_mem (sp : AgentSpaces) (a : Aid) (o : Pt) (s : Space) (hs : obsSpace? sp a = some s)
    (hW : WF04 s = true) (hm : mem s o = true) :
    ∃ k : Nat, ravelEnc sp a o = some (k : Int) ∧ k < card s ∧ unravel s k = some o ∧
      ravelSpace s = some (.discrete (card s) 0) ∧ ravelMemW sp a (ravelEnc sp a o) = true := by
  obtain ⟨k, h1, h2⟩ := C04_ravel_lt s o hW hm
  obtain ⟨k', g1, g2⟩ := C04_unravel_ravel s o hW hm
  have hk : k' = k := by
    rw [h1] at g1
    simp only [Option.some.injEq] at g1
    exact (Int.ofNat.inj g1).symm
  subst hk
  refine ⟨k', by simp [ravelEnc, hs, h1], h2, g2, C04_ravelSpace_card s hW, ?_⟩
  simp only [ravelMemW, ravelEnc, hs, h1, Int.toNat_natCast, Bool.and_eq_true, decide_eq_true_eq]
  exact ⟨Int.natCast_nonneg _, h2⟩

/-! ## FlattenWrapper, FlattenActionWrapper -/

/-- every action of the step has the length of the agent's flattened action Box (in particular:
every member of that Box), over a well-formed inner action space -/
def FlatStepOK (sp : AgentSpaces) (acts : List (Aid × List Num)) : Prop :=
  ∀ p ∈ acts, ∃ s, actSpace? sp p.1 = some s ∧ WF05 s = true ∧ p.2.length = flatdim s

def FlatHistOK (sp : AgentSpaces) (cs : List (WCall (List Num))) : Prop :=
  ∀ c ∈ cs, ∀ acts, c = .step acts → FlatStepOK sp acts

/-- a member of the flattened Box has the right length -/
theorem flat_member_length (s : Space) (fb : FlatBox) (x : List Num) (hW : WF05 s = true)
    (hf : flattenSpace s = some fb) (hm : memFlat fb x = true) : x.length = flatdim s := by
  obtain ⟨fb', h1, _, h3, _⟩ := flattenSpace_ok s hW
  rw [hf] at h1
  cases h1
  simp only [memFlat, Bool.and_eq_true] at hm
  have := memBoxQ_length _ _ _ hm.2
  omega

theorem flat_decodeAll_ok (sp : AgentSpaces) : ∀ (acts : List (Aid × List Num)), FlatStepOK sp acts →
    ∃ d, decodeAll (flatDec sp) acts = .ok d
  | [], _ => ⟨[], rfl⟩
  | p :: rest, h => by
    obtain ⟨s, hs, hW, hl⟩ := h p (by simp)
    obtain ⟨q, hq⟩ := unflatten_total s p.2 hW hl
    obtain ⟨d, hd⟩ := flat_decodeAll_ok sp rest (fun x hx => h x (by simp [hx]))
    exact ⟨(p.1, q) :: d, by simp only [decodeAll, flatDec, hs, hq, optE, hd]⟩

theorem flat_decodeCalls_ok (sp : AgentSpaces) : ∀ (cs : List (WCall (List Num))), FlatHistOK sp cs →
    ∃ ds, decodeCalls (flatDec sp) cs = .ok ds
  | [], _ => ⟨[], rfl⟩
  | c :: cs, h => by
    obtain ⟨ds, hds⟩ := flat_decodeCalls_ok sp cs (fun x hx => h x (by simp [hx]))
    have hc : ∃ d, decodeCall (flatDec sp) c = .ok d := by
      cases c with
      | step acts =>
        obtain ⟨d, hd⟩ := flat_decodeAll_ok sp acts (h _ (by simp) acts rfl)
        exact ⟨.step d, by simp only [decodeCall, hd]⟩
      | reset => exact ⟨_, rfl⟩
      | obs a => exact ⟨_, rfl⟩
      | reward a => exact ⟨_, rfl⟩
      | done a => exact ⟨_, rfl⟩
      | allDone => exact ⟨_, rfl⟩
      | info a => exact ⟨_, rfl⟩
    obtain ⟨d, hd⟩ := hc
    exact ⟨d :: ds, by simp only [decodeCalls, hd, hds]⟩

/-- **C06 for `FlattenWrapper`** -/
theorem flatten_commutes {σ ι : Type} (S : SimIface σ Pt Pt ι) (sp : AgentSpaces) (s : σ)
    (cs : List (WCall (List Num))) (h : FlatHistOK sp cs) :
    ∃ ds, decodeCalls (flatDec sp) cs = .ok ds ∧
      runWith (sarCall S (flatDec sp) (flatEnc sp)) s cs =
        (encTrace (flatEnc sp) (runWith (simCall S) s ds).1, (runWith (simCall S) s ds).2) ∧
      (runWith (sarCall S (flatDec sp) (flatEnc sp)) s cs).1.map (·.2) = ds.map WCall.stepArgs := by
  obtain ⟨ds, hds⟩ := flat_decodeCalls_ok sp cs h
  exact ⟨ds, hds, sar_commutes S _ _ s cs ds hds, sar_inner_steps S _ _ s cs ds hds⟩

theorem encRet_id {ω ι : Type} (r : SRet ω ι) : encRet (fun (_ : Aid) (o : ω) => o) r = r := by
  cases r <;> rfl

/-- **C06 for `FlattenActionWrapper`**: observations pass through unchanged, so the wrapped trace
*is* the inner trace under the unflattened actions -/
theorem flattenAction_commutes {σ ι : Type} (S : SimIface σ Pt Pt ι) (sp : AgentSpaces) (s : σ)
    (cs : List (WCall (List Num))) (h : FlatHistOK sp cs) :
    ∃ ds, decodeCalls (flatDec sp) cs = .ok ds ∧
      runWith (sarCall S (flatDec sp) (fun _ o => o)) s cs = runWith (simCall S) s ds ∧
      (runWith (sarCall S (flatDec sp) (fun _ o => o)) s cs).1.map (·.2) = ds.map WCall.stepArgs := by
  obtain ⟨ds, hds⟩ := flat_decodeCalls_ok sp cs h
  refine ⟨ds, hds, ?_, sar_inner_steps S _ _ s cs ds hds⟩
  rw [sar_commutes S _ _ s cs ds hds]
  simp only [encTrace, encRet_id, List.map_id']

/-- the flattened observation of a member of the (well-formed) observation space is a member of
the wrapped observation space `flatten_space(space)`, and it is *the* encoding: unflattening gives a
point with the same structure and values (the same point when every leaf is integer-typed) -/
theorem flatten_obs_mem (sp : AgentSpaces) (a : Aid) (o : Pt) (s : Space) (hs : obsSpace? sp a = some s)
    (hW : WF05 s = true) (hm : mem s o = true) :
    ∃ x fb q, flatEnc sp a o = some x ∧ flattenSpace s = some fb ∧ memFlat fb x = true ∧
      unflatten s x = some q ∧ ptEqv q o = true ∧ (allLeavesInt s = true → q = o) ∧
      flatMemW sp a (flatEnc sp a o) = true := by
  obtain ⟨x, fb, h1, h2, h3⟩ := C05_flatten_mem s o hW hm
  obtain ⟨x', q, g1, g2, g3⟩ := C05_unflatten_flatten s o hW hm
  rw [h1] at g1; cases g1
  refine ⟨x, fb, q, by simp [flatEnc, hs, h1], h2, h3, g2, g3, ?_, ?_⟩
  · intro hi
    obtain ⟨x'', k1, k2, _⟩ := C05_int_roundtrip_mem s o hW hm hi
    rw [h1] at k1; cases k1
    rw [g2] at k2
    exact Option.some.inj k2
  · simp only [flatMemW, flatEnc, hs, h1, h2, h3]

/-! ## the exclusive-channel encoding -/

theorem wfExcl_dict {s : Space} (h : wfExcl s = true) :
    ∃ keys ss, s = .dict keys ss ∧ ss ≠ [] ∧ wfL ss = true := by
  cases s with
  | dict keys ss =>
    simp only [wfExcl, wf, Bool.and_eq_true, Bool.not_eq_true', List.isEmpty_eq_false_iff] at h
    exact ⟨keys, ss, rfl, h.1.2, h.2⟩
  | discrete n st => simp [wfExcl] at h
  | multiBinary n => simp [wfExcl] at h
  | multiDiscrete v => simp [wfExcl] at h
  | box a b c d => simp [wfExcl] at h
  | fbox a b c => simp [wfExcl] at h
  | ubox a => simp [wfExcl] at h
  | tuple ss => simp [wfExcl] at h

/-- **`dims = Σ nᵢ − m + 1`** (`nᵢ` the number of points of channel `i`, `m` the number of channels) -/
theorem exclDims_formula (keys : List Nat) (ss : List Space) (hw : wfExcl (.dict keys ss) = true) :
    exclWrapSpace (.dict keys ss) = some (.discrete (sum (cardL ss) - ss.length + 1) 0) ∧
    exclDims (.dict keys ss) = sum (cardL ss) - ss.length + 1 ∧
    exclDims (.dict keys ss) + ss.length = sum (cardL ss) + 1 := by
  obtain ⟨keys', ss', he, _, hwl⟩ := wfExcl_dict hw
  cases he
  have hch := exclChannels_wfL ss hwl
  have hle := length_le_sum (cardL ss) (allPosP_cardL ss hwl)
  rw [length_cardL] at hle
  have h1 : exclWrapSpace (.dict keys ss) = some (.discrete (sum (cardL ss) - ss.length + 1) 0) := by
    simp only [exclWrapSpace, hch, exclDimsL, length_cardL]
    rw [if_pos (by omega)]
  refine ⟨h1, ?_, ?_⟩
  · simp only [exclDims, h1]
  · simp only [exclDims, h1]; omega

theorem exclDims_eq (keys : List Nat) (ss : List Space) (hwl : wfL ss = true) :
    exclDims (.dict keys ss) = exclDimsL (cardL ss) := by
  have hch := exclChannels_wfL ss hwl
  simp only [exclDims, exclWrapSpace, hch, exclDimsL_pos, if_true]

/-- **decoding**: every number below `dims` decodes to a member of the Dict that uses at most one
channel and encodes back to the number -/
theorem exclusive_decode (s : Space) (k : Nat) (hw : wfExcl s = true) (hk : k < exclDims s) :
    ∃ p, exclDecode s k = some p ∧ mem s p = true ∧ usesAtMostOne s p = true ∧
      exclEncode s p = some (k : Int) := by
  obtain ⟨keys, ss, he, hne, hwl⟩ := wfExcl_dict hw
  subst he
  rw [exclDims_eq keys ss hwl] at hk
  have hch := exclChannels_wfL ss hwl
  have hpos := allPosP_cardL ss hwl
  have hargs := exclArgs_find ss 0 k hne hpos hk
  have hin := xDigits_inRange (cardL ss) k hpos hk
  obtain ⟨ps, h1, h2, h3⟩ := unravelL_bwd ss (xDigits (cardL ss) k) hwl hin
  refine ⟨.dict keys ps, ?_, ?_, ?_, ?_⟩
  · simp only [exclDecode, hch, hargs, h1, Option.map_some]
  · simp only [mem, h2, decide_true, Bool.and_self]
  · simp only [usesAtMostOne, h3, decide_true, Bool.true_and, decide_eq_true_eq]
    exact xDigits_nonZeros (cardL ss) k
  · have hlen : (ofNats (xDigits (cardL ss) k)).length = (cardL ss).length := by
      simp only [ofNats, List.length_map]
      exact inRange_length _ _ hin
    have hemp : ss.isEmpty = false := by
      cases ss with
      | nil => exact absurd rfl hne
      | cons _ _ => rfl
    simp only [exclEncode, if_true, hch, h3, hemp, hlen, Bool.false_eq_true, if_false,
      exclSum_xDigits (cardL ss) k 0 hpos hk]
    by_cases hk0 : k = 0
    · subst hk0; rfl
    · simp only [hk0, if_false, Int.zero_add]

/-- **encoding**: every member of the Dict that uses at most one channel encodes to a number below
`dims` that decodes back to it -/
theorem exclusive_encode (s : Space) (p : Pt) (hw : wfExcl s = true) (hm : mem s p = true)
    (hu : usesAtMostOne s p = true) :
    ∃ k : Nat, exclEncode s p = some (k : Int) ∧ k < exclDims s ∧ exclDecode s k = some p := by
  obtain ⟨keys, ss, he, hne, hwl⟩ := wfExcl_dict hw
  subst he
  cases p with
  | scalar v => simp [mem] at hm
  | arr vs => simp [mem] at hm
  | tuple ps => simp [mem] at hm
  | dict pkeys ps =>
    simp only [mem, Bool.and_eq_true, decide_eq_true_eq] at hm
    obtain ⟨hk, hml⟩ := hm
    subst hk
    have hch := exclChannels_wfL ss hwl
    have hpos := allPosP_cardL ss hwl
    obtain ⟨ks, h1, h2, h3⟩ := ravelL_fwd ss ps hwl hml
    simp only [usesAtMostOne, h1, decide_true, Bool.true_and, decide_eq_true_eq] at hu
    have hlt := xCode_lt (cardL ss) ks hpos h2
    have hdig := xDigits_xCode (cardL ss) ks hpos h2 hu
    have hargs := exclArgs_find ss 0 (xCode (cardL ss) ks) hne hpos hlt
    refine ⟨xCode (cardL ss) ks, ?_, ?_, ?_⟩
    · have hlen : (ofNats ks).length = (cardL ss).length := by
        simp only [ofNats, List.length_map]
        exact inRange_length _ _ h2
      have hemp : ss.isEmpty = false := by
        cases ss with
        | nil => exact absurd rfl hne
        | cons _ _ => rfl
      simp only [exclEncode, if_true, hch, h1, hemp, hlen, Bool.false_eq_true, if_false,
        exclSum_xCode (cardL ss) ks 0 h2]
      by_cases hc : xCode (cardL ss) ks = 0
      · simp only [hc, if_true]; rfl
      · simp only [hc, if_false, Int.zero_add]
    · rw [exclDims_eq keys ss hwl]; exact hlt
    · simp only [exclDecode, hch, hargs, hdig, h3, Option.map_some]

/-- two numbers below `dims` that decode to the same action are equal -/
theorem exclusive_decode_injective (s : Space) (k k' : Nat) (hw : wfExcl s = true)
    (hk : k < exclDims s) (hk' : k' < exclDims s) (h : exclDecode s k = exclDecode s k') : k = k' := by
  obtain ⟨p, h1, _, _, h4⟩ := exclusive_decode s k hw hk
  obtain ⟨p', g1, _, _, g4⟩ := exclusive_decode s k' hw hk'
  rw [h1, g1] at h
  cases h
  rw [h4] at g4
  simp only [Option.some.injEq] at g4
  exact Int.ofNat.inj g4

/-- **C06 (exclusive channels)**: `exclDecode` is a bijection from `range (exclDims s)` onto the
actions of the Dict that use at most one channel, and `exclEncode` is its inverse -/
theorem exclusive_bijection (s : Space) (hw : wfExcl s = true) :
    ∃ f : Fin (exclDims s) → {p : Pt // mem s p = true ∧ usesAtMostOne s p = true},
      (∀ a b, f a = f b → a = b) ∧ (∀ y, ∃ a, f a = y) ∧
      (∀ a, exclDecode s a.1 = some (f a).1) ∧ (∀ a, exclEncode s (f a).1 = some ((a.1 : Nat) : Int)) := by
  have hex : ∀ a : Fin (exclDims s), ∃ p, exclDecode s a.1 = some p ∧ mem s p = true ∧
      usesAtMostOne s p = true ∧ exclEncode s p = some ((a.1 : Nat) : Int) :=
    fun a => exclusive_decode s a.1 hw a.2
  refine ⟨fun a => ⟨(hex a).choose, (hex a).choose_spec.2.1, (hex a).choose_spec.2.2.1⟩, ?_, ?_, ?_, ?_⟩
  · intro a b hab
    have hab' : (hex a).choose = (hex b).choose := congrArg Subtype.val hab
    apply Fin.ext
    apply exclusive_decode_injective s a.1 b.1 hw a.2 b.2
    rw [(hex a).choose_spec.1, (hex b).choose_spec.1, hab']
  · intro y
    obtain ⟨k, h1, h2, h3⟩ := exclusive_encode s y.1 hw y.2.1 y.2.2
    refine ⟨⟨k, h2⟩, ?_⟩
    apply Subtype.ext
    have h4 : exclDecode s k = some (hex ⟨k, h2⟩).choose := (hex ⟨k, h2⟩).choose_spec.1
    exact (Option.some.inj (h3.symm.trans h4)).symm
  · intro a; exact (hex a).choose_spec.1
  · intro a; exact (hex a).choose_spec.2.2.2

/-! ## actor wrappers -/

/-- **C06 (actors)**: for every model actor, the wrapper hands the wrapped actor exactly the decoded
action: processing `k` through the wrapper *is* processing `dec k` with the unwrapped actor -/
theorem actorWrapper_commutes {ρ : Type} (supported : World → Aid → Bool) (fromSpace : Aid → Option Space)
    (dec : Space → Nat → Option Pt) (proc : World → Aid → Pt → ρ) (w : World) (a : Aid) (k : Nat)
    (sp : Space) (p : Pt) (hs : supported w a = true) (hf : fromSpace a = some sp)
    (hd : dec sp k = some p) :
    actorWrap supported fromSpace dec proc w a k = .ok (some (proc w a p)) := by
  simp only [actorWrap, hs, if_true, hf, hd]

/-- an unsupported agent: `None`, the wrapped actor is not called -/
theorem actorWrapper_unsupported {ρ : Type} (supported : World → Aid → Bool) (fromSpace : Aid → Option Space)
    (dec : Space → Nat → Option Pt) (proc : World → Aid → Pt → ρ) (w : World) (a : Aid) (k : Nat)
    (hs : supported w a = false) : actorWrap supported fromSpace dec proc w a k = .ok none := by
  simp only [actorWrap, hs, Bool.false_eq_true, if_false]

/-- `RavelActionWrapper` around any actor: every number of the wrapped channel `Discrete(card)` is
processed as the member of the original space that ravels to it -/
theorem ravelActor_commutes {ρ : Type} (supported : World → Aid → Bool) (fromSpace : Aid → Option Space)
    (proc : World → Aid → Pt → ρ) (w : World) (a : Aid) (k : Nat) (sp : Space)
    (hs : supported w a = true) (hf : fromSpace a = some sp) (hW : WF04 sp = true) (hk : k < card sp) :
    ∃ p, unravel sp k = some p ∧ mem sp p = true ∧ ravel sp p = some (k : Int) ∧
      ravelActor supported fromSpace proc w a k = .ok (some (proc w a p)) := by
  obtain ⟨p, h1, h2, h3⟩ := C04_ravel_unravel sp k hW hk
  exact ⟨p, h1, h2, h3, actorWrapper_commutes supported fromSpace unravel proc w a k sp p hs hf h1⟩

/-- `ExclusiveChannelActionWrapper` around any actor: every number of the wrapped channel
`Discrete(dims)` is processed as the at-most-one-channel action it stands for -/
theorem exclusiveActor_commutes {ρ : Type} (supported : World → Aid → Bool)
    (fromSpace : Aid → Option Space) (proc : World → Aid → Pt → ρ) (w : World) (a : Aid) (k : Nat)
    (sp : Space) (hs : supported w a = true) (hf : fromSpace a = some sp) (hW : wfExcl sp = true)
    (hk : k < exclDims sp) :
    ∃ p, exclDecode sp k = some p ∧ mem sp p = true ∧ usesAtMostOne sp p = true ∧
      exclEncode sp p = some (k : Int) ∧
      exclusiveActor supported fromSpace proc w a k = .ok (some (proc w a p)) := by
  obtain ⟨p, h1, h2, h3, h4⟩ := exclusive_decode sp k hW hk
  exact ⟨p, h1, h2, h3, h4, actorWrapper_commutes supported fromSpace exclDecode proc w a k sp p hs hf h1⟩

/-- instance: the ravel-wrapped `CrossMoveActor` with `k` is the `CrossMoveActor` with `k`
(`Discrete(5)` ravels to itself) — for every world, agent and number -/
theorem ravelActor_cross (w : World) (a : Aid) (k : Nat) :
    ravelActor (moverSupported 1) (fun b => some (moverSpace 1 w b)) (moverPt 1) w a k =
      if (w.cfgOf a).moving then
        .ok (some ((w.crossAct a (k : Int)).map fun r => (r.1, r.2, (k : Int))))
      else .ok none := by
  simp only [ravelActor, actorWrap, moverSupported, moverSpace, unravel, moverPt, ptInt?]

/-- instance: the ravel-wrapped `DriftMoveActor` -/
theorem ravelActor_drift (w : World) (a : Aid) (k : Nat) :
    ravelActor (moverSupported 2) (fun b => some (moverSpace 2 w b)) (moverPt 2) w a k =
      if (w.cfgOf a).moving && (w.cfgOf a).hasOrient then .ok (some (w.driftAct a (k : Int)))
      else .ok none := by
  simp only [ravelActor, actorWrap, moverSupported, moverSpace, unravel, moverPt, ptInt?]

/-- `unravel` on the `MoveActor`'s `Box(-R, R, (2,), int)` -/
theorem unravel_moveBox (R k : Nat) (hk : k < (2 * R + 1) * (2 * R + 1)) :
    unravel (.box [2] [-(R : Int), -(R : Int)] [(R : Int), (R : Int)] true) k =
      some (.arr [.int (((k / (2 * R + 1) : Nat) : Int) - R), .int (((k % (2 * R + 1) : Nat) : Int) - R)]) := by
  have hr : ((R : Int) + 1 - -(R : Int)).toNat = 2 * R + 1 := by omega
  simp only [unravel, radices, hr, decode, prod, Nat.mul_one, hk, if_true, Option.map_some, decodeAux,
    Nat.div_one, addLow]
  rfl

/-- instance: the ravel-wrapped `MoveActor` with `k` is the `MoveActor` with the offset
`(k / (2R+1) − R, k % (2R+1) − R)` (`R` the agent's move range) — every number of `Discrete((2R+1)²)` -/
theorem ravelActor_move (w : World) (a : Aid) (k : Nat)
    (hk : k < (2 * (w.cfgOf a).moveRange + 1) * (2 * (w.cfgOf a).moveRange + 1)) :
    ravelActor (moverSupported 0) (fun b => some (moverSpace 0 w b)) (moverPt 0) w a k =
      if (w.cfgOf a).moving then
        .ok (some ((w.moveAct a (((k / (2 * (w.cfgOf a).moveRange + 1) : Nat) : Int) - (w.cfgOf a).moveRange,
                                 ((k % (2 * (w.cfgOf a).moveRange + 1) : Nat) : Int) - (w.cfgOf a).moveRange)).map
          fun r => (r.1, r.2, (0 : Int))))
      else .ok none := by
  simp only [ravelActor, actorWrap, moverSupported, moverSpace, unravel_moveBox _ k hk, moverPt, ptPos?]

/-! ## `unwrapped` -/

/-- **C06 (`unwrapped`)**: any non-empty stack of wrappers exposes the innermost object -/
theorem unwrapped_innermost (stack : List Layer) (b : Nat) (h : stack ≠ []) :
    (wrapAll stack (.base b)).unwrapped? = some (.base b) :=
  unwrapped_wrapAll stack b h

/-- and so does every wrapper inside the stack: the model's outcome satisfies `specUnwrapped` -/
theorem C06_specUnwrapped_model (stack : List Layer) (b : Nat) :
    specUnwrapped stack.length (unwrappedIdx (wrapAll stack (.base b))) = true := by
  simp only [unwrappedIdx, unwrappedIdxAux_wrapAll, posOf_base, specUnwrapped, List.length_replicate,
    beq_self_eq_true, Bool.true_and, List.all_eq_true]
  intro i hi
  rw [List.mem_replicate] at hi
  simp [hi.2]

theorem specUnwrapped_reading (depth : Nat) (out : List Int) :
    specUnwrapped depth out = true ↔ out = List.replicate depth (depth : Int) := by
  simp only [specUnwrapped, Bool.and_eq_true, beq_iff_eq, List.all_eq_true]
  constructor
  · rintro ⟨h1, h2⟩
    rw [List.eq_replicate_iff]
    exact ⟨h1, h2⟩
  · intro h
    rw [List.eq_replicate_iff] at h
    exact h

/-! ## readings of `specCommute` and the model's outcome satisfies it -/

section readings
variable {α' α ω' ω ι : Type}

theorem SRet.beq_iff [BEq ω] [BEq ι] [LawfulBEq ω] [LawfulBEq ι] (x y : SRet ω ι) :
    SRet.beq x y = true ↔ x = y := by
  cases x <;> cases y <;> simp [SRet.beq]

/-- `commuteEntry` says: equal inner states; an undecodable action raised and nothing was stepped;
otherwise the twin answered the mirrored call, the wrapper returned the twin's value through `enc`
(`obsW = enc obs`), the inner `step` of the wrapped copy and the twin both received the decoded
actions, and a returned observation is a member of the wrapped space (model's and real `in`) -/
theorem commuteEntry_reading [BEq α] [BEq ω'] [BEq ω] [BEq ι] [LawfulBEq α] [LawfulBEq ω']
    [LawfulBEq ι] (dec : Aid → α' → Except Err α) (enc : Aid → ω → ω') (memW : Aid → ω' → Bool)
    (e : WEntry α' α ω' ω ι) :
    commuteEntry dec enc memW e = true ↔
      e.stW = e.stT ∧
      ((∃ er, decodeCall dec e.call = .error er ∧ e.retW.isRaised = true ∧ e.inW = none ∧ e.argsT = none) ∨
       (∃ c, decodeCall dec e.call = .ok c ∧ c.answers e.retT = true ∧ e.retW = encRet enc e.retT ∧
          e.inW = c.stepArgs ∧ e.argsT = c.stepArgs ∧
          ∀ a o', e.retW = .obs a o' → memW a o' = true ∧ e.isIn = true)) := by
  simp only [commuteEntry, Bool.and_eq_true, beq_iff_eq]
  constructor
  · rintro ⟨h1, h2⟩
    refine ⟨h1, ?_⟩
    cases hd : decodeCall dec e.call with
    | error er =>
      simp only [hd, Bool.and_eq_true, Option.isNone_iff_eq_none] at h2
      exact Or.inl ⟨er, rfl, h2.1.1, h2.1.2, h2.2⟩
    | ok c =>
      simp only [hd, Bool.and_eq_true, beq_iff_eq, SRet.beq_iff] at h2
      refine Or.inr ⟨c, rfl, h2.1.1.1.1, h2.1.1.1.2, h2.1.1.2, h2.1.2, ?_⟩
      intro a o' hr
      have h3 := h2.2
      rw [hr] at h3
      simpa using h3
  · rintro ⟨h1, h2⟩
    refine ⟨h1, ?_⟩
    rcases h2 with ⟨er, hd, h3, h4, h5⟩ | ⟨c, hd, h3, h4, h5, h6, h7⟩
    · simp only [hd, Bool.and_eq_true, Option.isNone_iff_eq_none]
      exact ⟨⟨h3, h4⟩, h5⟩
    · simp only [hd, Bool.and_eq_true, beq_iff_eq, SRet.beq_iff]
      refine ⟨⟨⟨⟨h3, h4⟩, h5⟩, h6⟩, ?_⟩
      cases hr : e.retW with
      | obs a o' => simpa using h7 a o' hr
      | unit => rfl
      | reward r => rfl
      | flag b => rfl
      | info i => rfl
      | raised er => rfl

theorem specCommute_reading [BEq α] [BEq ω'] [BEq ω] [BEq ι] (dec : Aid → α' → Except Err α)
    (enc : Aid → ω → ω') (memW : Aid → ω' → Bool) (tr : List (WEntry α' α ω' ω ι)) :
    specCommute dec enc memW tr = true ↔ ∀ e ∈ tr, commuteEntry dec enc memW e = true := by
  simp [specCommute, List.all_eq_true]

end readings

section model
variable {σ α α' ω ω' ι : Type}

theorem answers_simCall (S : SimIface σ α ω ι) (s : σ) (d : WCall α) : d.answers (simCall S s d).1 = true := by
  cases d <;> simp [WCall.answers, simCall]

theorem SRet.beq_refl [BEq ω] [BEq ι] [LawfulBEq ω] [LawfulBEq ι] (x : SRet ω ι) : SRet.beq x x = true :=
  (SRet.beq_iff x x).mpr rfl

/-- one call of the model's twin pair started from equal states satisfies the specification and
leaves equal states -/
theorem twinCall_sound [BEq α] [BEq ω'] [BEq ω] [BEq ι] [LawfulBEq α] [LawfulBEq ω'] [LawfulBEq ι]
    (S : SimIface σ α ω ι) (dec : Aid → α' → Except Err α) (enc : Aid → ω → ω')
    (memW : Aid → ω' → Bool) (dump : σ → List Int) (s : σ) (c : WCall α')
    (hObs : ∀ a, c = .obs a → memW a (enc a (S.obs s a).1) = true) :
    commuteEntry dec enc memW (twinCall S dec enc memW dump (s, s) c).1 = true ∧
    (twinCall S dec enc memW dump (s, s) c).2.1 = (twinCall S dec enc memW dump (s, s) c).2.2 := by
  simp only [twinCall, sarCall_eq, and_true]
  simp only [commuteEntry, beq_self_eq_true, Bool.true_and]
  cases hd : decodeCall dec c with
  | error er => simp [simCallE, encRet, SRet.isRaised]
  | ok d =>
    simp only [simCallE, answers_simCall, SRet.beq_refl, simCall_ghost, beq_self_eq_true, Bool.true_and]
    cases c with
    | obs a =>
      simp only [decodeCall, Except.ok.injEq] at hd
      subst hd
      simp only [simCall, encRet, retIn, hObs a rfl, Bool.and_self]
    | step acts =>
      simp only [decodeCall] at hd
      cases hda : decodeAll dec acts with
      | error er => simp [hda] at hd
      | ok dd =>
        simp only [hda, Except.ok.injEq] at hd
        subst hd
        simp [simCall, encRet]
    | reset => simp only [decodeCall, Except.ok.injEq] at hd; subst hd; simp [simCall, encRet]
    | reward a => simp only [decodeCall, Except.ok.injEq] at hd; subst hd; simp [simCall, encRet]
    | done a => simp only [decodeCall, Except.ok.injEq] at hd; subst hd; simp [simCall, encRet]
    | allDone => simp only [decodeCall, Except.ok.injEq] at hd; subst hd; simp [simCall, encRet]
    | info a => simp only [decodeCall, Except.ok.injEq] at hd; subst hd; simp [simCall, encRet]

/-- **the model's twin run satisfies `specCommute`** (what the driver self-tests): for every inner
simulation, codec and history, provided every observation the history asks for encodes to a member
of the wrapped observation space -/
theorem C06_specCommute_model [BEq α] [BEq ω'] [BEq ω] [BEq ι] [LawfulBEq α] [LawfulBEq ω']
    [LawfulBEq ι] (S : SimIface σ α ω ι) (dec : Aid → α' → Except Err α) (enc : Aid → ω → ω')
    (memW : Aid → ω' → Bool) (dump : σ → List Int) :
    ∀ (cs : List (WCall α')) (s : σ),
      (∀ a, WCall.obs a ∈ cs → ∀ s', memW a (enc a (S.obs s' a).1) = true) →
      specCommute dec enc memW (twinRun S dec enc memW dump (s, s) cs) = true
  | [], _, _ => rfl
  | c :: cs, s, hObs => by
    obtain ⟨h1, h2⟩ := twinCall_sound S dec enc memW dump s c
      (fun a hc => hObs a (by simp [hc]) s)
    obtain ⟨st, hst⟩ : ∃ st, st = (twinCall S dec enc memW dump (s, s) c).2 := ⟨_, rfl⟩
    have heq : st = (st.1, st.1) := by
      rw [hst]
      exact Prod.ext rfl h2.symm
    have ih := C06_specCommute_model S dec enc memW dump cs st.1
      (fun a ha s' => hObs a (by simp [ha]) s')
    simp only [specCommute, twinRun, List.all_cons, h1, Bool.true_and] at ih ⊢
    rw [← hst, heq]
    exact ih

/-- the wrapped side predicted from the twin's side satisfies the specification whenever the twin
answered the mirrored call and its observation encodes to a member -/
theorem predictW_spec [BEq α] [BEq ω'] [BEq ω] [BEq ι] [LawfulBEq α] [LawfulBEq ω'] [LawfulBEq ι]
    (dec : Aid → α' → Except Err α) (enc : Aid → ω → ω') (memW : Aid → ω' → Bool) (c : WCall α')
    (retT : SRet ω ι) (stT : List Int)
    (h : ∀ d, decodeCall dec c = .ok d →
      d.answers retT = true ∧ ∀ a o, retT = .obs a o → memW a (enc a o) = true) :
    commuteEntry dec enc memW (predictW dec enc memW c retT stT) = true := by
  simp only [predictW]
  cases hd : decodeCall dec c with
  | error er => simp [commuteEntry, hd, SRet.isRaised]
  | ok d =>
    obtain ⟨h1, h2⟩ := h d hd
    simp only [commuteEntry, hd, beq_self_eq_true, Bool.true_and, h1, SRet.beq_refl]
    cases retT with
    | obs a o => simp [encRet, retIn, h2 a o rfl]
    | unit => rfl
    | reward r => rfl
    | flag b => rfl
    | info i => rfl
    | raised er => rfl

end model

/-! ## the scripted stub with nested spaces -/

/-- the script's observation points are members of well-formed observation spaces (what the
harness generates) -/
def StubObsOK (sc : SpaceScript) : Prop :=
  ∀ a s, obsSpace? sc.spaces a = some s →
    WF04 s = true ∧ sc.obsPts.getD a [] ≠ [] ∧ ∀ p ∈ sc.obsPts.getD a [], mem s p = true

theorem getD_mem {β : Type} (l : List β) (i : Nat) (d : β) (h : i < l.length) : l.getD i d ∈ l := by
  rw [List.getD_eq_getElem?_getD, List.getElem?_eq_getElem h]
  exact List.getElem_mem h

theorem spaceObs_mem (sc : SpaceScript) (st : StubSt) (a : Aid) (h : sc.obsPts.getD a [] ≠ []) :
    spaceObs sc st a ∈ sc.obsPts.getD a [] := by
  have hpos : 0 < (sc.obsPts.getD a []).length := List.length_pos_iff.mpr h
  exact getD_mem _ _ _ (Nat.mod_lt _ hpos)

theorem spaceStub_lawful (sc : SpaceScript) (flat : Bool) : Lawful (spaceStub sc flat) where
  obs_done := by intros; rfl
  obs_allDone := by intros; rfl
  obs_next := by intros; rfl
  obs_pending := by intros; rfl
  rew_done := by intros; rfl
  rew_allDone := by intros; rfl
  rew_next := by intros; rfl
  rew_val := by intros; rfl
  rew_pending := by
    intro s a b
    show (s.pend.set a 0).getD b 0 = if b = a then 0 else s.pend.getD b 0
    by_cases h : b = a
    · subst h
      by_cases hb : b < s.pend.length
      · simp [List.getD, hb]
      · simp [List.getD, hb]
    · have : a ≠ b := fun e => h e.symm
      simp [List.getD, List.getElem?_set_ne this, h]

theorem spaceStub_forgets (sc : SpaceScript) : ResetForgets (spaceStub sc true) := fun _ _ => rfl

/-- **stub instance**: on the scripted family the judge is sound — the ravel twins of the model
always pass `specCommute`, for every script with member observations and every history -/
theorem C06_stub_ravel (sc : SpaceScript) (flat : Bool) (h : StubObsOK sc) (cs : List (WCall Nat))
    (st : StubSt) (hcs : ∀ a, WCall.obs a ∈ cs → (obsSpace? sc.spaces a).isSome = true) :
    specCommute (ravelDec sc.spaces) (ravelEnc sc.spaces) (ravelMemW sc.spaces)
      (twinRun (spaceStub sc flat) (ravelDec sc.spaces) (ravelEnc sc.spaces) (ravelMemW sc.spaces)
        stubDump (st, st) cs) = true := by
  apply C06_specCommute_model
  intro a ha s'
  obtain ⟨s, hs⟩ := Option.isSome_iff_exists.mp (hcs a ha)
  obtain ⟨hW, hne, hmem⟩ := h a s hs
  have hm : mem s ((spaceStub sc flat).obs s' a).1 = true := hmem _ (spaceObs_mem sc s' a hne)
  obtain ⟨_, _, _, _, _, h6⟩ := ravel_obs_mem sc.spaces a _ s hs hW hm
  exact h6

/-- the same for the flatten twins (observation spaces may contain float Boxes) -/
theorem C06_stub_flatten (sc : SpaceScript) (flat : Bool) (cs : List (WCall (List Num))) (st : StubSt)
    (h : ∀ a, WCall.obs a ∈ cs → ∃ s, obsSpace? sc.spaces a = some s ∧ WF05 s = true ∧
      sc.obsPts.getD a [] ≠ [] ∧ ∀ p ∈ sc.obsPts.getD a [], mem s p = true) :
    specCommute (flatDec sc.spaces) (flatEnc sc.spaces) (flatMemW sc.spaces)
      (twinRun (spaceStub sc flat) (flatDec sc.spaces) (flatEnc sc.spaces) (flatMemW sc.spaces)
        stubDump (st, st) cs) = true := by
  apply C06_specCommute_model
  intro a ha s'
  obtain ⟨s, hs, hW, hne, hmem⟩ := h a ha
  have hm : mem s ((spaceStub sc flat).obs s' a).1 = true := hmem _ (spaceObs_mem sc s' a hne)
  obtain ⟨_, _, _, _, _, _, _, _, _, h10⟩ := flatten_obs_mem sc.spaces a _ s hs hW hm
  exact h10

/-! ## the model's exclusive-channel outcomes satisfy the specifications; readings -/

/-- `specExclusive` holds of an outcome exactly when it is the decoding of `k` (accepted by the real
`in`, re-encoded to `k` by the real `unwrap_point`) -/
theorem specExclusive_reading (s : Space) (k : Nat) (hw : wfExcl s = true) (hk : k < exclDims s)
    (out : Option (Pt × Bool × Int)) :
    specExclusive s k out = true ↔ ∃ p, out = some (p, true, (k : Int)) ∧ exclDecode s k = some p := by
  cases out with
  | none => simp [specExclusive]
  | some o =>
    obtain ⟨p, isIn, re⟩ := o
    simp only [specExclusive, Bool.and_eq_true, beq_iff_eq, Option.some.injEq, Prod.mk.injEq]
    constructor
    · rintro ⟨⟨⟨⟨h1, h2⟩, h3⟩, h4⟩, h5⟩
      obtain ⟨k', g1, _, g3⟩ := exclusive_encode s p hw h2 h3
      rw [h4] at g1
      simp only [Option.some.injEq] at g1
      have : k = k' := Int.ofNat.inj g1
      subst this
      exact ⟨p, ⟨rfl, h1, h5⟩, g3⟩
    · rintro ⟨p', ⟨rfl, rfl, rfl⟩, hd⟩
      obtain ⟨q, g1, g2, g3, g4⟩ := exclusive_decode s k hw hk
      rw [hd] at g1
      cases g1
      exact ⟨⟨⟨⟨rfl, g2⟩, g3⟩, g4⟩, rfl⟩

/-- the model's decode outcome (with the model's own membership and re-encoding) passes -/
theorem C06_specExclusive_model (s : Space) (k : Nat) (hw : wfExcl s = true) (hk : k < exclDims s) :
    specExclusive s k ((exclDecode s k).map fun p => (p, mem s p, (exclEncode s p).getD (-1))) = true := by
  obtain ⟨p, h1, h2, h3, h4⟩ := exclusive_decode s k hw hk
  simp only [h1, Option.map_some, specExclusive, h2, h3, h4, Option.getD_some, beq_self_eq_true,
    Bool.and_self]

/-- the model's encode outcome passes -/
theorem C06_specExclEnc_model (s : Space) (p : Pt) (hw : wfExcl s = true) :
    specExclEnc s p (match exclEncode s p with
      | some c => (match exclDecode s c.toNat with
        | some q => some (c, q)
        | none => none)
      | none => none) = true := by
  simp only [specExclEnc]
  split
  · rename_i h
    simp only [Bool.and_eq_true] at h
    obtain ⟨k, h1, h2, h3⟩ := exclusive_encode s p hw h.1 h.2
    simp only [h1, Int.toNat_natCast, h3, Bool.and_eq_true, decide_eq_true_eq, beq_self_eq_true,
      and_true]
    exact ⟨Int.natCast_nonneg k, h2⟩
  · rfl

theorem C06_specExclDims_model (keys : List Nat) (ss : List Space) (hw : wfExcl (.dict keys ss) = true) :
    specExclDims (.dict keys ss) (some (exclDims (.dict keys ss))) = true := by
  obtain ⟨_, _, h3⟩ := exclDims_formula keys ss hw
  simp only [specExclDims, decide_eq_true_eq]
  exact h3

/-- the actor clause on the model: wrapper and twin (the unwrapped actor fed the decoded action)
trivially agree, for every actor -/
theorem C06_specActor_model (dec : Space → Nat → Option Pt) (sp : Space) (k : Nat) (p : Pt)
    (ret : List Int) (post : World) (hd : dec sp k = some p) :
    specActor dec sp k (some ⟨some p, ret, post, ret, post⟩) = true := by
  simp only [specActor, hd, beq_self_eq_true, decide_true, Bool.and_self]

/-! ## Non-vacuity -/

/-- three channels of sizes 2, 4 and 3 (a nested one in the middle): `dims = 2 + 4 + 3 − 3 + 1 = 7` -/
def exExcl : Space := .dict [1, 2, 3] [.discrete 2 0, .tuple [.multiBinary 1, .discrete 2 0], .discrete 3 0]

example : wfExcl exExcl = true ∧ exclDims exExcl = 7 := by decide
example : (exclDecode exExcl 4 ==
    some (.dict [1, 2, 3] [.scalar (.int 0), .tuple [.arr [.int 1], .scalar (.int 1)], .scalar (.int 0)])) = true := by
  decide
/-- all seven numbers decode to valid, pairwise different actions that encode back -/
example : (List.range 7).all (fun k =>
    specExclusive exExcl k ((exclDecode exExcl k).map fun p => (p, mem exExcl p, (exclEncode exExcl p).getD (-1)))) = true := by
  decide
/-- an action using two channels is outside the image: it encodes to the code of its first channel -/
example : usesAtMostOne exExcl (.dict [1, 2, 3] [.scalar (.int 1), .tuple [.arr [.int 0], .scalar (.int 0)], .scalar (.int 2)]) = false ∧
    exclEncode exExcl (.dict [1, 2, 3] [.scalar (.int 1), .tuple [.arr [.int 0], .scalar (.int 0)], .scalar (.int 2)]) = some 1 := by
  decide
/-- an off-by-one decode (channel 3 shifted) is rejected by the judge -/
example : specExclusive exExcl 5 (some (.dict [1, 2, 3] [.scalar (.int 0), .tuple [.arr [.int 0], .scalar (.int 0)], .scalar (.int 2)], true, 5)) = false := by
  decide

def exSpaces : AgentSpaces :=
  [some (.tuple [.discrete 3 0, .multiBinary 1], .dict [0, 1] [.discrete 2 0, .box [2] [-1, 0] [1, 1] true]),
   none,
   some (.multiDiscrete [2, 2], .discrete 4 0)]

def exStub : SpaceScript :=
  { base := { n := 3, learning := [true, false, true], doneAt := [3, 9, 2], finishAt := 4, noms := [] },
    spaces := exSpaces,
    obsPts := [[.dict [0, 1] [.scalar (.int 1), .arr [.int (-1), .int 1]], .dict [0, 1] [.scalar (.int 0), .arr [.int 1, .int 0]]],
               [], [.scalar (.int 3), .scalar (.int 1)]] }

def exCalls : List (WCall Nat) :=
  [.reset, .obs 0, .obs 2, .step [(0, 5), (2, 3)], .obs 0, .reward 0, .obs 2, .done 2, .step [(2, 9)], .allDone]

/-- a concrete twin run: ravelled observations, a decoded step, an undecodable action (`9 ≥ 4`)
that raises, and the judge accepts the whole trace -/
example :
    let tr := twinRun (spaceStub exStub) (ravelDec exSpaces) (ravelEnc exSpaces) (ravelMemW exSpaces)
      stubDump ({}, {}) exCalls
    specCommute (ravelDec exSpaces) (ravelEnc exSpaces) (ravelMemW exSpaces) tr = true ∧
    (tr.map fun e => match e.retW with | .obs _ (some k) => k | _ => -1) = [-1, 7, 3, -1, 7, -1, 3, -1, -1, -1] ∧
    (tr.any fun e => e.retW.isRaised) = true := by
  decide +kernel

example : specUnwrapped 3 (unwrappedIdx (wrapAll [.comm, .ravel, .superAgent] (.base 0))) = true := by decide

end Abmarl
