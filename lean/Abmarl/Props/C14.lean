import Abmarl.Lemmas.SuperAgentInv
import Abmarl.Lemmas.SuperAgentLawful
import Abmarl.Model.StubSim
import Abmarl.Props.C01
import Abmarl.Props.C07
import Abmarl.Props.C15
import Abmarl.Props.C16
/-!
# C14 — Super agents faithfully aggregate, mask and filter their covered agents

Model: `Model/SuperAgent.lean` (the wrapper as a functor `superSim` on `SimIface`, and the call-level
interface `supCall` / `supRun` / `supSession`).  Specification: `specC14` in `Spec/SuperAgent.lean`.

* `C14_trace` — for **every** inner simulation `S` satisfying the frame conditions `Lawful`, every
  mapping (a mapping that is not a partition of learning agents is rejected by the constructor; null
  observations are used when declared — `NullTruthy`), every initial state and **every** history of
  calls, the model's session satisfies `specC14`.
* `C14_every_call` — hence every call of every history made after the first `reset` satisfies its
  clause `c14Entry` in the ghost state folded from the trace before it.
* `mask_iff`, `obs_handover`, `reward_sum`, `counted_once`, `done_iff_all`, `actions_filtered`,
  `uncovered_transparent`, `covered_rejected` — the clauses of the property for the model, for any
  `S`, partition and history; each is the corresponding reading `c14_*` of the Bool specification
  (which therefore says what the property says — also when the driver evaluates it on an
  implementation trace) applied to `C14_every_call`.
* `superSim_lawful`, `superSim_WF` (in `Lemmas/SuperAgentLawful.lean`) — the functor lemma — and the
  corollaries `C01_wrapped`, `C07_wrapped`, `C15_wrapped`, `C16_wrapped`: every manager / adapter /
  trainer theorem holds of a wrapped simulation.
* `C14_stub`, `example`s — the scripted family the correspondence check drives satisfies the
  hypotheses; a concrete history exercises every clause (`decide`).
-/
namespace Abmarl
variable {σ α ω ι : Type}

section main
variable [DecidableEq α] [DecidableEq ω] [DecidableEq ι]

/-- **C14** for every lawful inner simulation, every mapping, every initial state and every history. -/
theorem C14_trace (S : SimIface σ α ω ι) (hS : Lawful S) (cfg : SuperCfg ω) (hn : NullTruthy cfg)
    (s0 : σ) (calls : List (SCall α)) :
    specC14 S.n S.learning cfg (supSession S cfg s0 calls) = true := by
  unfold specC14 supSession
  by_cases hc : ctorOK S.n S.learning cfg = true
  · simp only [hc, if_true]
    exact supRun_sound hS hc hn calls _ {} (by intro h; simp at h)
  · simp [hc]

/-! ## What `specC14` says -/

/-- ghost state before entry `i` of a trace -/
def sgAt (cfg : SuperCfg ω) (g0 : SG) (tr : List (SupEntry α ω ι)) (i : Nat) : SG :=
  (tr.take i).foldl (sgNext cfg) g0

/-- the caller protocol holds up to and including entry `i`: no getter or step before the first reset -/
def StartedOK (cfg : SuperCfg ω) (g0 : SG) (tr : List (SupEntry α ω ι)) (i : Nat) : Prop :=
  ∀ j ≤ i, ∀ e, tr[j]? = some e → sup_isReset e.call = false → (sgAt cfg g0 tr j).started = true

/-- `c14Loop` means: the per-call clause holds at every call reached under the protocol. -/
theorem c14Loop_at (n : Nat) (cfg : SuperCfg ω) :
    ∀ (tr : List (SupEntry α ω ι)) (g0 : SG), c14Loop n cfg g0 tr = true →
      ∀ i e, tr[i]? = some e → StartedOK cfg g0 tr i → c14Entry n cfg (sgAt cfg g0 tr i) e = true := by
  intro tr
  induction tr with
  | nil => intro g0 _ i e h; simp at h
  | cons e0 es ih =>
    intro g0 hspec i e hi hp
    have hboth : c14Entry n cfg g0 e0 = true ∧ c14Loop n cfg (sgNext cfg g0 e0) es = true := by
      unfold c14Loop at hspec
      by_cases hr : sup_isReset e0.call = true
      · simpa [hr] using hspec
      · have hr' : sup_isReset e0.call = false := by simpa using hr
        have := hp 0 (Nat.zero_le _) e0 (by simp) hr'
        simp only [sgAt, List.take_zero, List.foldl_nil] at this
        simpa [hr', this] using hspec
    cases i with
    | zero =>
      simp only [List.getElem?_cons_zero, Option.some.injEq] at hi
      subst hi
      simpa [sgAt] using hboth.1
    | succ i =>
      simp only [List.getElem?_cons_succ] at hi
      have hp' : StartedOK cfg (sgNext cfg g0 e0) es i := by
        intro j hj e' he' hr'
        have := hp (j + 1) (by omega) e' (by simpa using he') hr'
        simpa [sgAt] using this
      have := ih (sgNext cfg g0 e0) hboth.2 i e hi hp'
      simpa [sgAt] using this

/-- `e` is the `i`-th call of the model's trace for the history `calls` started in `s0`, reached
under the caller protocol, and `g` is the ghost state (inner done flags and pending rewards after
the previous call, hand-over sets) folded from the trace before it -/
structure ModelCall (S : SimIface σ α ω ι) (cfg : SuperCfg ω) (s0 : σ) (calls : List (SCall α))
    (i : Nat) (e : SupEntry α ω ι) (g : SG) : Prop where
  entry : (supRun S cfg { st := { sim := s0 } } calls)[i]? = some e
  proto : StartedOK cfg {} (supRun S cfg { st := { sim := s0 } } calls) i
  ghost : g = sgAt cfg {} (supRun S cfg { st := { sim := s0 } } calls) i

/-- every call of every history satisfies its clause -/
theorem C14_every_call {S : SimIface σ α ω ι} (hS : Lawful S) {cfg : SuperCfg ω}
    (hc : ctorOK S.n S.learning cfg = true) (hn : NullTruthy cfg) {s0 : σ} {calls : List (SCall α)}
    {i : Nat} {e : SupEntry α ω ι} {g : SG} (hm : ModelCall S cfg s0 calls i e g) :
    c14Entry S.n cfg g e = true := by
  have h := C14_trace S hS cfg hn s0 calls
  unfold specC14 supSession at h
  simp only [hc, if_true] at h
  rw [hm.ghost]
  exact c14Loop_at S.n cfg _ {} h i e hm.entry hm.proto

end main

/-! ### `expectObs`: the hand-over rule -/

/-- what a successful replay of the hand-over rule pins down: one entry per covered agent in
mapping order; the inner reads are exactly the due ones, in order; a due entry is the value of
the inner read of that agent, any other entry is the declared null observation -/
theorem expectObs_spec (due : Aid → Bool) (null : Aid → Option ω) :
    ∀ (cov : List Aid) (log ol : List (Aid × ω)), expectObs due null cov log = some ol →
      ol.map (·.1) = cov ∧ log.map (·.1) = cov.filter due ∧
      ∀ p ∈ ol, (due p.1 = true → p ∈ log) ∧ (due p.1 = false → null p.1 = some p.2) := by
  intro cov
  induction cov with
  | nil =>
    intro log ol h
    cases log with
    | nil => simp only [expectObs, Option.some.injEq] at h; subst h; simp
    | cons x xs => simp [expectObs] at h
  | cons c cs ih =>
    intro log ol h
    unfold expectObs at h
    by_cases hd : due c = true
    · rw [if_pos hd] at h
      cases log with
      | nil => simp at h
      | cons x rest =>
        obtain ⟨c', o⟩ := x
        simp only at h
        by_cases hcc : c' = c
        · subst hcc
          simp only [if_true] at h
          cases hr : expectObs due null cs rest with
          | none => simp [hr] at h
          | some ol' =>
            simp only [hr, Option.map_some, Option.some.injEq] at h
            subst h
            obtain ⟨i1, i2, i3⟩ := ih rest ol' hr
            refine ⟨by simp [i1], by simp [hd, i2], ?_⟩
            intro p hp
            rcases List.mem_cons.mp hp with rfl | hp
            · exact ⟨fun _ => List.mem_cons_self .., fun hf => by simp [hd] at hf⟩
            · exact ⟨fun h1 => List.mem_cons_of_mem _ ((i3 p hp).1 h1), (i3 p hp).2⟩
        · simp [hcc] at h
    · rw [if_neg hd] at h
      have hd' : due c = false := by simpa using hd
      cases hn : null c with
      | none => simp [hn] at h
      | some o =>
        simp only [hn] at h
        cases hr : expectObs due null cs log with
        | none => simp [hr] at h
        | some ol' =>
          simp only [hr, Option.map_some, Option.some.injEq] at h
          subst h
          obtain ⟨i1, i2, i3⟩ := ih log ol' hr
          refine ⟨by simp [i1], by simp [hd', i2], ?_⟩
          intro p hp
          rcases List.mem_cons.mp hp with rfl | hp
          · exact ⟨fun h1 => by simp [hd'] at h1, fun _ => hn⟩
          · exact i3 p hp

/-- inserting pairs with distinct keys one after the other gives the list itself -/
theorem dictOf_nodup {β : Type} (l : List (Aid × β)) (h : (l.map (·.1)).Nodup) : supDictOf l = l := by
  unfold supDictOf
  suffices H : ∀ (l d : List (Aid × β)), ((d ++ l).map (·.1)).Nodup →
      l.foldl (fun d p => supDictSet d p.1 p.2) d = d ++ l by
    simpa using H l [] (by simpa using h)
  intro l
  induction l with
  | nil => intro d _; simp
  | cons p ps ih =>
    intro d hnd
    simp only [List.foldl_cons]
    have hfresh : d.any (fun q => q.1 == p.1) = false := by
      rw [List.any_eq_false]
      intro q hq
      simp only [beq_iff_eq]
      intro e
      rw [List.map_append, List.nodup_append] at hnd
      exact hnd.2.2 q.1 (List.mem_map.mpr ⟨q, hq, rfl⟩) p.1 (by simp) e
    have hset : supDictSet d p.1 p.2 = d ++ [p] := by
      unfold supDictSet
      rw [hfresh]; simp
    rw [hset, ih (d ++ [p]) (by simpa [List.append_assoc] using hnd)]
    simp

section readings
variable [DecidableEq α] [DecidableEq ω] [DecidableEq ι] {n : Nat} {cfg : SuperCfg ω} {g : SG}
  {e : SupEntry α ω ι}

omit [DecidableEq α] [DecidableEq ω] [DecidableEq ι] in
theorem resolve_sup_of {j : Nat} {cov : List Aid} (hg : cfg.groups[j]? = some cov) :
    resolve n cfg (.sup j) = .ok (.sup cov) := by
  simp [resolve, hg]

omit [DecidableEq α] [DecidableEq ω] [DecidableEq ι] in
theorem resolve_inner_of {a : Aid} (hnc : a ∉ cfg.covered) (hlt : a < n) :
    resolve n cfg (.inner a) = .ok (.unc a) := by
  simp [resolve, hnc, hlt]

omit [DecidableEq α] [DecidableEq ω] [DecidableEq ι] in
theorem resolve_covered {c : Aid} (hc : c ∈ cfg.covered) :
    resolve n cfg (.inner c) = .error .rejected := by
  simp [resolve, hc]

/-- **mask**: a super observation's mask entry for covered agent `c` is true exactly while the inner
simulation does not report `c` done; there is one observation entry per covered agent, in mapping
order; the call neither steps the simulation nor changes done flags or pending rewards -/
theorem c14_mask_iff (h : c14Entry n cfg g e = true) {j : Nat} {cov : List Aid}
    (hcall : e.call = .getObs (.sup j)) (hg : cfg.groups[j]? = some cov) :
    ∃ ol, e.res = .obs (.super (cov.map fun c => (c, !g.isDone c)) ol) ∧ ol.map (·.1) = cov ∧
      e.simArgs = none ∧ e.simDone = g.done ∧ e.pending = g.pend := by
  simp only [c14Entry, hcall, resolve_sup_of hg, Bool.and_eq_true, frameOK, beq_iff_eq,
    Option.isNone_iff_eq_none] at h
  obtain ⟨⟨h1, ⟨⟨h2, h3⟩, _⟩⟩, h5⟩ := h
  cases hx : expectObs (g.obsDue cfg) cfg.declared cov e.obsReads with
  | none => simp [hx] at h1
  | some ol =>
    simp only [hx, beq_iff_eq] at h1
    exact ⟨ol, h1, (expectObs_spec _ _ cov _ ol hx).1, h2, h3, h5⟩

/-- **observation hand-over**: the entry of covered agent `c` in a super observation is the value of
an inner `get_obs(c)` made during this very call ("its own observation") as long as `c` is not done
or has not yet been reported after it became done (or declares no null observation: the code's
fallback), and is the declared null observation otherwise — in which case the inner simulation is
not read for `c` at all: the inner reads of the call are exactly the due ones, in mapping order -/
theorem c14_obs_handover (h : c14Entry n cfg g e = true) {j : Nat} {cov : List Aid}
    (hcall : e.call = .getObs (.sup j)) (hg : cfg.groups[j]? = some cov) :
    ∃ mask ol, e.res = .obs (.super mask ol) ∧
      e.obsReads.map (·.1) = cov.filter (g.obsDue cfg) ∧
      ∀ p ∈ ol,
        ((g.isDone p.1 = false ∨ p.1 ∉ g.obsRep ∨ cfg.declared p.1 = none) → p ∈ e.obsReads) ∧
        ((g.isDone p.1 = true ∧ p.1 ∈ g.obsRep) → ∀ o, cfg.declared p.1 = some o → p.2 = o) := by
  simp only [c14Entry, hcall, resolve_sup_of hg, Bool.and_eq_true] at h
  obtain ⟨⟨h1, _⟩, _⟩ := h
  cases hx : expectObs (g.obsDue cfg) cfg.declared cov e.obsReads with
  | none => simp [hx] at h1
  | some ol =>
    simp only [hx, beq_iff_eq] at h1
    obtain ⟨_, s2, s3⟩ := expectObs_spec _ _ cov _ ol hx
    refine ⟨_, ol, h1, s2, ?_⟩
    intro p hp
    constructor
    · intro hdue
      apply (s3 p hp).1
      unfold SG.obsDue
      rcases hdue with h' | h' | h'
      · simp [h']
      · simp [h']
      · simp [h']
    · rintro ⟨hd, hr⟩ o ho
      have hnd : g.obsDue cfg p.1 = false := by
        unfold SG.obsDue; simp [hd, hr, ho]
      have := (s3 p hp).2 hnd
      rw [ho] at this
      exact (Option.some.inj this).symm

omit [DecidableEq α] [DecidableEq ω] [DecidableEq ι] in
/-- when is a covered agent "reported after done": it was so before, or this super observation was
taken while it is done; `reset` forgets everything -/
theorem c14_obsRep_next (cfg : SuperCfg ω) (g : SG) (e : SupEntry α ω ι) {j : Nat} {cov : List Aid}
    (hcall : e.call = .getObs (.sup j)) (hg : cfg.groups[j]? = some cov) {o : SObs ω}
    (hres : e.res = .obs o) (c : Aid) :
    c ∈ (sgNext cfg g e).obsRep ↔ c ∈ g.obsRep ∨ (c ∈ cov ∧ g.isDone c = true) := by
  simp [sgNext, hcall, hres, hg, List.mem_filter]

omit [DecidableEq α] [DecidableEq ω] [DecidableEq ι] in
theorem c14_reset_clears (cfg : SuperCfg ω) (g : SG) (e : SupEntry α ω ι) (hcall : e.call = .reset) :
    (sgNext cfg g e).obsRep = [] ∧ (sgNext cfg g e).rewRep = [] ∧ (sgNext cfg g e).started = true := by
  simp [sgNext, hcall]

theorem mem_counted {g : SG} {cov : List Aid} {c : Aid} :
    c ∈ g.counted cov ↔ c ∈ cov ∧ ¬(g.isDone c = true ∧ c ∈ g.rewRep) := by
  simp only [SG.counted, List.mem_filter, and_congr_right_iff]
  intro _
  cases g.isDone c <;> simp

/-- **reward**: a super agent's reward is the sum of what was pending for its covered agents that
have not had their final count; exactly those agents are left with nothing pending, every other
agent of the simulation (in particular a finally counted one) keeps what it had: nothing is lost,
nothing is delivered twice, nothing is delivered after the final count -/
theorem c14_reward_sum (h : c14Entry n cfg g e = true) {j : Nat} {cov : List Aid}
    (hcall : e.call = .getReward (.sup j)) (hg : cfg.groups[j]? = some cov) :
    e.res = .reward ((g.counted cov).map g.pendOf).sum ∧
    (∀ a < n, e.pending.getD a 0 = if a ∈ g.counted cov then 0 else g.pendOf a) ∧
    e.simArgs = none ∧ e.simDone = g.done ∧ e.obsReads = [] := by
  simp only [c14Entry, hcall, resolve_sup_of hg, Bool.and_eq_true, frameOK, beq_iff_eq,
    Option.isNone_iff_eq_none, pendingAfter, List.all_eq_true, List.mem_range, List.isEmpty_iff] at h
  obtain ⟨⟨⟨h1, ⟨_, h2⟩⟩, ⟨⟨h3, h4⟩, _⟩⟩, h6⟩ := h
  exact ⟨h1, h2, h3, h4, h6⟩

omit [DecidableEq α] [DecidableEq ω] [DecidableEq ι] in
/-- **counted once after done**: a covered agent that is done when its super agent's reward is taken
is finally counted from then on, and a finally counted agent that is (still) done is not counted -/
theorem c14_counted_once (cfg : SuperCfg ω) (g : SG) (e : SupEntry α ω ι) {j : Nat} {cov : List Aid}
    (hcall : e.call = .getReward (.sup j)) (hg : cfg.groups[j]? = some cov) {r : Int}
    (hres : e.res = .reward r) (c : Aid) :
    (c ∈ (sgNext cfg g e).rewRep ↔ c ∈ g.rewRep ∨ (c ∈ cov ∧ g.isDone c = true)) ∧
    (∀ cov', c ∈ g.rewRep → g.isDone c = true → c ∉ g.counted cov') := by
  refine ⟨by simp [sgNext, hcall, hres, hg, List.mem_filter], ?_⟩
  intro cov' hr hd hm
  exact (mem_counted.mp hm).2 ⟨hd, hr⟩

/-- **done**: a super agent is done exactly when all its covered agents are done -/
theorem c14_done_iff_all (h : c14Entry n cfg g e = true) {j : Nat} {cov : List Aid}
    (hcall : e.call = .getDone (.sup j)) (hg : cfg.groups[j]? = some cov) :
    ∃ b, e.res = .done b ∧ (b = true ↔ ∀ c ∈ cov, g.isDone c = true) ∧ untouched g e = true := by
  simp only [c14Entry, hcall, resolve_sup_of hg, Bool.and_eq_true, beq_iff_eq] at h
  exact ⟨_, h.1, by simp [List.all_eq_true], h.2⟩

omit [DecidableEq α] [DecidableEq ω] [DecidableEq ι] in
/-- the actions one item of an accepted action dict contributes -/
theorem mem_expect1 {g : SG} {p : Outer × SAct α} {q : Aid × α} :
    q ∈ expect1 g p ↔
      (∃ cov l, p = (Outer.sup cov, SAct.joint l) ∧ q ∈ l ∧ g.isDone q.1 = false) ∨
      (∃ a v, p = (Outer.unc a, SAct.plain v) ∧ q = (a, v)) := by
  obtain ⟨o, a⟩ := p
  cases o with
  | bad => cases a <;> simp [expect1]
  | unc b =>
    cases a with
    | joint l => simp [expect1]
    | plain v =>
      simp only [expect1, List.mem_singleton]
      constructor
      · rintro rfl; exact Or.inr ⟨b, v, rfl, rfl⟩
      · rintro (⟨_, _, h, _⟩ | ⟨a', v', h, rfl⟩)
        · cases h
        · cases h; rfl
  | sup cov =>
    cases a with
    | plain v => simp [expect1]
    | joint l =>
      simp only [expect1, List.mem_filter, Bool.not_eq_true']
      constructor
      · rintro ⟨h1, h2⟩; exact Or.inl ⟨cov, l, rfl, h1, h2⟩
      · rintro (⟨_, _, h, h1, h2⟩ | ⟨_, _, h, _⟩)
        · cases h; exact ⟨h1, h2⟩
        · cases h

/-- **action filtering**: an accepted `step` hands the inner simulation exactly the dictionary built
from the joint actions' entries for covered agents that are not done at that moment and from the
uncovered agents' actions, unchanged and in the order given; no getter is involved -/
theorem c14_actions_filtered (h : c14Entry n cfg g e = true) {acts : List (Ref × SAct α)}
    {oacts : List (Outer × SAct α)} (hcall : e.call = .step acts)
    (hchk : checkActs n cfg acts = .ok oacts) :
    e.res = .unit ∧ e.simArgs = some (supDictOf (oacts.flatMap (expect1 g))) ∧ e.obsReads = [] ∧
      e.pending = e.accrued := by
  simp only [c14Entry, hcall, hchk, Bool.and_eq_true, beq_iff_eq, List.isEmpty_iff] at h
  exact ⟨h.1.1.1, h.1.1.2, h.1.2, h.2⟩

/-- … and when no agent is named twice that dictionary is literally the list of those actions -/
theorem c14_actions_filtered_nodup (h : c14Entry n cfg g e = true) {acts : List (Ref × SAct α)}
    {oacts : List (Outer × SAct α)} (hcall : e.call = .step acts)
    (hchk : checkActs n cfg acts = .ok oacts)
    (hnd : ((oacts.flatMap (expect1 g)).map (·.1)).Nodup) :
    e.simArgs = some (oacts.flatMap (expect1 g)) := by
  rw [(c14_actions_filtered h hcall hchk).2.1, dictOf_nodup _ hnd]

/-- an action dict that names a covered agent, or is ill-shaped, is refused before anything reaches
the simulation -/
theorem c14_step_refused (h : c14Entry n cfg g e = true) {acts : List (Ref × SAct α)} {er : Err}
    (hcall : e.call = .step acts) (hchk : checkActs n cfg acts = .error er) :
    e.res = .err er ∧ untouched g e = true := by
  simp only [c14Entry, hcall, hchk, Bool.and_eq_true, beq_iff_eq] at h
  exact h

/-- **uncovered agents behave as if unwrapped**: every getter returns the inner getter's value —
`get_obs` makes exactly one inner read of that agent and returns it, `get_reward` returns what was
pending for the agent and empties only its accumulator, `get_done` / `get_info` / `get_all_done` are
the inner values and touch nothing -/
theorem c14_uncovered_transparent (h : c14Entry n cfg g e = true) {a : Aid}
    (hnc : a ∉ cfg.covered) (hlt : a < n) :
    (e.call = .getObs (.inner a) →
      ∃ o, e.obsReads = [(a, o)] ∧ e.res = .obs (.plain o) ∧ e.simDone = g.done ∧ e.pending = g.pend) ∧
    (e.call = .getReward (.inner a) →
      e.res = .reward (g.pendOf a) ∧ e.simDone = g.done ∧
      ∀ b < n, e.pending.getD b 0 = if b = a then 0 else g.pendOf b) ∧
    (e.call = .getDone (.inner a) → e.res = .done (g.isDone a) ∧ untouched g e = true) ∧
    (e.call = .getInfo (.inner a) →
      ∃ i, e.res = .info (.plain i) ∧ e.simInfos[a]? = some i ∧ untouched g e = true) ∧
    (e.call = .getAllDone → e.res = .done e.simAllDone ∧ untouched g e = true) := by
  refine ⟨?_, ?_, ?_, ?_, ?_⟩
  · intro hcall
    simp only [c14Entry, hcall, resolve_inner_of hnc hlt, Bool.and_eq_true, frameOK, beq_iff_eq] at h
    obtain ⟨⟨h1, ⟨⟨_, h3⟩, _⟩⟩, h5⟩ := h
    cases hr : e.obsReads with
    | nil => simp [hr] at h1
    | cons x xs =>
      obtain ⟨a', o⟩ := x
      cases xs with
      | cons _ _ => simp [hr] at h1
      | nil =>
        simp only [hr, Bool.and_eq_true, beq_iff_eq] at h1
        exact ⟨o, by rw [h1.1], h1.2, h3, h5⟩
  · intro hcall
    simp only [c14Entry, hcall, resolve_inner_of hnc hlt, Bool.and_eq_true, frameOK, beq_iff_eq,
      pendingAfter, List.all_eq_true, List.mem_range, List.mem_singleton] at h
    obtain ⟨⟨⟨h1, ⟨_, h2⟩⟩, ⟨⟨_, h4⟩, _⟩⟩, _⟩ := h
    exact ⟨h1, h4, h2⟩
  · intro hcall
    simp only [c14Entry, hcall, resolve_inner_of hnc hlt, Bool.and_eq_true, beq_iff_eq] at h
    exact h
  · intro hcall
    simp only [c14Entry, hcall, resolve_inner_of hnc hlt, Bool.and_eq_true] at h
    cases hr : e.res with
    | info i =>
      cases i with
      | plain i => simp only [hr, beq_iff_eq] at h; exact ⟨i, rfl, h.1, h.2⟩
      | super l => simp [hr] at h
    | unit => simp [hr] at h
    | obs _ => simp [hr] at h
    | reward _ => simp [hr] at h
    | done _ => simp [hr] at h
    | err _ => simp [hr] at h
  · intro hcall
    simp only [c14Entry, hcall, Bool.and_eq_true, beq_iff_eq] at h
    exact h

/-- a getter called with a covered agent's own id is rejected and nothing reaches the simulation -/
theorem c14_covered_rejected (h : c14Entry n cfg g e = true) {c : Aid} (hc : c ∈ cfg.covered)
    (hcall : e.call = .getObs (.inner c) ∨ e.call = .getReward (.inner c) ∨
      e.call = .getDone (.inner c) ∨ e.call = .getInfo (.inner c)) :
    e.res = .err .rejected ∧ untouched g e = true := by
  rcases hcall with hcall | hcall | hcall | hcall <;>
    (simp only [c14Entry, hcall, resolve_covered hc, Bool.and_eq_true, beq_iff_eq] at h; exact h)

/-- the info of a super agent is the dictionary of its covered agents' infos -/
theorem c14_super_info (h : c14Entry n cfg g e = true) {j : Nat} {cov : List Aid}
    (hcall : e.call = .getInfo (.sup j)) (hg : cfg.groups[j]? = some cov) :
    ∃ l, e.res = .info (.super l) ∧ l.map (·.1) = cov ∧ (∀ p ∈ l, e.simInfos[p.1]? = some p.2) ∧
      untouched g e = true := by
  simp only [c14Entry, hcall, resolve_sup_of hg, Bool.and_eq_true] at h
  cases hr : e.res with
  | info i =>
    cases i with
    | super l =>
      simp only [hr, Bool.and_eq_true, beq_iff_eq, List.all_eq_true] at h
      exact ⟨l, rfl, h.1.1, h.1.2, h.2⟩
    | plain _ => simp [hr] at h
  | unit => simp [hr] at h
  | obs _ => simp [hr] at h
  | reward _ => simp [hr] at h
  | done _ => simp [hr] at h
  | err _ => simp [hr] at h

/-- per-call reward ledger of every inner agent: what is pending after a call is what had accrued
(pending before, plus the accrual of an inner `step`) minus what this call delivered for the agent —
which is its whole pending reward if the call is a `get_reward` that counts it, and nothing otherwise -/
def paidIn (n : Nat) (cfg : SuperCfg ω) (g : SG) (e : SupEntry α ω ι) (a : Aid) : Int :=
  match e.call with
  | .getReward r =>
    (match resolve n cfg r with
     | .ok (.sup cov) => if a ∈ g.counted cov then g.pendOf a else 0
     | .ok (.unc b) => if a = b then g.pendOf a else 0
     | _ => 0)
  | _ => 0

theorem c14_ledger (h : c14Entry n cfg g e = true) :
    ∀ a < n, e.pending.getD a 0 = e.accrued.getD a 0 - paidIn n cfg g e a := by
  intro a ha
  have hsame : paidIn n cfg g e a = 0 → e.pending = e.accrued →
      e.pending.getD a 0 = e.accrued.getD a 0 - paidIn n cfg g e a := by
    intro h0 h'; rw [h', h0]; omega
  have hunt : paidIn n cfg g e a = 0 → untouched g e = true →
      e.pending.getD a 0 = e.accrued.getD a 0 - paidIn n cfg g e a := by
    intro h0 hu
    simp only [untouched, frameOK, Bool.and_eq_true, beq_iff_eq] at hu
    exact hsame h0 (by rw [hu.2, hu.1.1.2])
  cases hcall : e.call with
  | reset =>
    simp only [c14Entry, hcall, Bool.and_eq_true, beq_iff_eq] at h
    exact hsame (by simp [paidIn, hcall]) h.2
  | step acts =>
    have h0 : paidIn n cfg g e a = 0 := by simp [paidIn, hcall]
    simp only [c14Entry, hcall] at h
    cases hchk : checkActs n cfg acts with
    | error er => simp only [hchk, Bool.and_eq_true] at h; exact hunt h0 h.2
    | ok oacts => simp only [hchk, Bool.and_eq_true, beq_iff_eq] at h; exact hsame h0 h.2
  | getObs r =>
    have h0 : paidIn n cfg g e a = 0 := by simp [paidIn, hcall]
    simp only [c14Entry, hcall] at h
    cases hres : resolve n cfg r with
    | error er => simp only [hres, Bool.and_eq_true] at h; exact hunt h0 h.2
    | ok o =>
      cases o with
      | bad => simp [hres] at h
      | sup cov =>
        simp only [hres, Bool.and_eq_true, frameOK, beq_iff_eq] at h
        exact hsame h0 (by rw [h.2, h.1.2.2])
      | unc b =>
        simp only [hres, Bool.and_eq_true, frameOK, beq_iff_eq] at h
        exact hsame h0 (by rw [h.2, h.1.2.2])
  | getDone r =>
    have h0 : paidIn n cfg g e a = 0 := by simp [paidIn, hcall]
    simp only [c14Entry, hcall] at h
    cases hres : resolve n cfg r with
    | error er => simp only [hres, Bool.and_eq_true] at h; exact hunt h0 h.2
    | ok o =>
      cases o with
      | bad => simp [hres] at h
      | sup cov => simp only [hres, Bool.and_eq_true] at h; exact hunt h0 h.2
      | unc b => simp only [hres, Bool.and_eq_true] at h; exact hunt h0 h.2
  | getInfo r =>
    have h0 : paidIn n cfg g e a = 0 := by simp [paidIn, hcall]
    simp only [c14Entry, hcall] at h
    cases hres : resolve n cfg r with
    | error er => simp only [hres, Bool.and_eq_true] at h; exact hunt h0 h.2
    | ok o =>
      cases o with
      | bad => simp [hres] at h
      | sup cov => simp only [hres, Bool.and_eq_true] at h; exact hunt h0 h.2
      | unc b => simp only [hres, Bool.and_eq_true] at h; exact hunt h0 h.2
  | getAllDone =>
    simp only [c14Entry, hcall, Bool.and_eq_true] at h
    exact hunt (by simp [paidIn, hcall]) h.2
  | getReward r =>
    simp only [c14Entry, hcall] at h
    cases hres : resolve n cfg r with
    | error er =>
      simp only [hres, Bool.and_eq_true] at h
      exact hunt (by simp [paidIn, hcall, hres]) h.2
    | ok o =>
      have hacc : e.accrued = g.pend → e.accrued.getD a 0 = g.pendOf a := by
        intro h'; rw [h']; rfl
      cases o with
      | bad => simp [hres] at h
      | sup cov =>
        have hp : paidIn n cfg g e a = if a ∈ g.counted cov then g.pendOf a else 0 := by
          simp [paidIn, hcall, hres]
        simp only [hres, Bool.and_eq_true, frameOK, beq_iff_eq, pendingAfter, List.all_eq_true,
          List.mem_range] at h
        obtain ⟨⟨⟨_, ⟨_, h2⟩⟩, ⟨⟨_, _⟩, h5⟩⟩, _⟩ := h
        rw [h2 a ha, hacc h5, hp]
        by_cases hm : a ∈ g.counted cov <;> simp [hm]
      | unc b =>
        have hp : paidIn n cfg g e a = if a = b then g.pendOf a else 0 := by
          simp [paidIn, hcall, hres]
        simp only [hres, Bool.and_eq_true, frameOK, beq_iff_eq, pendingAfter, List.all_eq_true,
          List.mem_range, List.mem_singleton] at h
        obtain ⟨⟨⟨_, ⟨_, h2⟩⟩, ⟨⟨_, _⟩, h5⟩⟩, _⟩ := h
        rw [h2 a ha, hacc h5, hp]
        by_cases hm : a = b <;> simp [hm]

/-! ### the ledger along a whole history -/

/-- what the calls of a trace delivered for inner agent `a` (to the agent itself if uncovered, to its
super agent if covered) -/
def paidAlong (n : Nat) (cfg : SuperCfg ω) (a : Aid) : SG → List (SupEntry α ω ι) → Int
  | _, [] => 0
  | g, e :: es => paidIn n cfg g e a + paidAlong n cfg a (sgNext cfg g e) es

/-- what accrued for inner agent `a` during the inner `step`s (and `reset`s) of a trace -/
def grewAlong (cfg : SuperCfg ω) (a : Aid) : SG → List (SupEntry α ω ι) → Int
  | _, [] => 0
  | g, e :: es => (e.accrued.getD a 0 - g.pendOf a) + grewAlong cfg a (sgNext cfg g e) es

omit [DecidableEq α] [DecidableEq ω] [DecidableEq ι] in
theorem sgNext_pend (cfg : SuperCfg ω) (g : SG) (e : SupEntry α ω ι) : (sgNext cfg g e).pend = e.pending := by
  unfold sgNext
  cases e.call with
  | getObs r => cases r <;> simp only [] <;> (try split) <;> rfl
  | getReward r => cases r <;> simp only [] <;> (try split) <;> rfl
  | reset => rfl
  | step _ => rfl
  | getDone _ => rfl
  | getAllDone => rfl
  | getInfo _ => rfl

omit [DecidableEq α] [DecidableEq ω] [DecidableEq ι] in
theorem sgNext_started (cfg : SuperCfg ω) (g : SG) (e : SupEntry α ω ι) (h : g.started = true) :
    (sgNext cfg g e).started = true := by
  unfold sgNext
  cases e.call with
  | getObs r => cases r <;> simp only [] <;> (try split) <;> exact h
  | getReward r => cases r <;> simp only [] <;> (try split) <;> exact h
  | reset => rfl
  | step _ => exact h
  | getDone _ => exact h
  | getAllDone => exact h
  | getInfo _ => exact h

/-- **reward conservation along any history** that satisfies the specification: for every agent of
the inner simulation, what is pending at the end plus everything delivered for it equals what was
pending at the start plus everything that accrued — nothing is lost and nothing is delivered twice
(`paidIn` is zero for a covered agent once it has had its final count, `c14_counted_once`) -/
theorem c14_reward_conservation (n : Nat) (cfg : SuperCfg ω) (a : Aid) (ha : a < n) :
    ∀ (tr : List (SupEntry α ω ι)) (g : SG), g.started = true → c14Loop n cfg g tr = true →
      (tr.foldl (sgNext cfg) g).pendOf a + paidAlong n cfg a g tr = g.pendOf a + grewAlong cfg a g tr := by
  intro tr
  induction tr with
  | nil => intro g _ _; simp [paidAlong, grewAlong]
  | cons e es ih =>
    intro g hs h
    unfold c14Loop at h
    simp only [hs, Bool.not_true, Bool.and_false, Bool.false_eq_true, if_false, Bool.and_eq_true] at h
    have hi := ih (sgNext cfg g e) (sgNext_started cfg g e hs) h.2
    have hl := c14_ledger h.1 a ha
    have hp : (sgNext cfg g e).pendOf a = e.pending.getD a 0 := by
      unfold SG.pendOf; rw [sgNext_pend]
    simp only [List.foldl_cons, paidAlong, grewAlong]
    omega

/-- the constructor: a mapping that is not a partition of learning agents is rejected, otherwise the
whole trace is judged by the per-call clauses -/
theorem c14_ctor {learning : Aid → Bool} {out : Except Err (List (SupEntry α ω ι))}
    (h : specC14 n learning cfg out = true) :
    (ctorOK n learning cfg = false → out = .error .rejected) ∧
    (ctorOK n learning cfg = true → ∃ tr, out = .ok tr ∧ c14Loop n cfg {} tr = true) := by
  unfold specC14 at h
  constructor
  · intro hc
    simp only [hc, Bool.false_eq_true, if_false] at h
    cases out with
    | ok tr => simp at h
    | error er => cases er <;> simp at h ⊢
  · intro hc
    simp only [hc, if_true] at h
    cases out with
    | ok tr => exact ⟨tr, rfl, h⟩
    | error er => simp at h

end readings

/-! ## The clauses of the property for the model: any lawful simulation, any partition, any history -/

section model
variable [DecidableEq α] [DecidableEq ω] [DecidableEq ι] {S : SimIface σ α ω ι} {cfg : SuperCfg ω}
  {s0 : σ} {calls : List (SCall α)} {i : Nat} {e : SupEntry α ω ι} {g : SG}

theorem mask_iff (hS : Lawful S) (hc : ctorOK S.n S.learning cfg = true) (hn : NullTruthy cfg)
    (hm : ModelCall S cfg s0 calls i e g) {j : Nat} {cov : List Aid}
    (hcall : e.call = .getObs (.sup j)) (hg : cfg.groups[j]? = some cov) :
    ∃ ol, e.res = .obs (.super (cov.map fun c => (c, !g.isDone c)) ol) ∧ ol.map (·.1) = cov ∧
      e.simArgs = none ∧ e.simDone = g.done ∧ e.pending = g.pend :=
  c14_mask_iff (C14_every_call hS hc hn hm) hcall hg

theorem obs_handover (hS : Lawful S) (hc : ctorOK S.n S.learning cfg = true) (hn : NullTruthy cfg)
    (hm : ModelCall S cfg s0 calls i e g) {j : Nat} {cov : List Aid}
    (hcall : e.call = .getObs (.sup j)) (hg : cfg.groups[j]? = some cov) :
    ∃ mask ol, e.res = .obs (.super mask ol) ∧
      e.obsReads.map (·.1) = cov.filter (g.obsDue cfg) ∧
      ∀ p ∈ ol,
        ((g.isDone p.1 = false ∨ p.1 ∉ g.obsRep ∨ cfg.declared p.1 = none) → p ∈ e.obsReads) ∧
        ((g.isDone p.1 = true ∧ p.1 ∈ g.obsRep) → ∀ o, cfg.declared p.1 = some o → p.2 = o) :=
  c14_obs_handover (C14_every_call hS hc hn hm) hcall hg

theorem reward_sum (hS : Lawful S) (hc : ctorOK S.n S.learning cfg = true) (hn : NullTruthy cfg)
    (hm : ModelCall S cfg s0 calls i e g) {j : Nat} {cov : List Aid}
    (hcall : e.call = .getReward (.sup j)) (hg : cfg.groups[j]? = some cov) :
    e.res = .reward ((g.counted cov).map g.pendOf).sum ∧
    (∀ a < S.n, e.pending.getD a 0 = if a ∈ g.counted cov then 0 else g.pendOf a) ∧
    e.simArgs = none ∧ e.simDone = g.done ∧ e.obsReads = [] :=
  c14_reward_sum (C14_every_call hS hc hn hm) hcall hg

theorem done_iff_all (hS : Lawful S) (hc : ctorOK S.n S.learning cfg = true) (hn : NullTruthy cfg)
    (hm : ModelCall S cfg s0 calls i e g) {j : Nat} {cov : List Aid}
    (hcall : e.call = .getDone (.sup j)) (hg : cfg.groups[j]? = some cov) :
    ∃ b, e.res = .done b ∧ (b = true ↔ ∀ c ∈ cov, g.isDone c = true) ∧ untouched g e = true :=
  c14_done_iff_all (C14_every_call hS hc hn hm) hcall hg

theorem actions_filtered (hS : Lawful S) (hc : ctorOK S.n S.learning cfg = true) (hn : NullTruthy cfg)
    (hm : ModelCall S cfg s0 calls i e g) {acts : List (Ref × SAct α)}
    {oacts : List (Outer × SAct α)} (hcall : e.call = .step acts)
    (hchk : checkActs S.n cfg acts = .ok oacts) :
    e.res = .unit ∧ e.simArgs = some (supDictOf (oacts.flatMap (expect1 g))) ∧ e.obsReads = [] ∧
      e.pending = e.accrued :=
  c14_actions_filtered (C14_every_call hS hc hn hm) hcall hchk

theorem uncovered_transparent (hS : Lawful S) (hc : ctorOK S.n S.learning cfg = true)
    (hn : NullTruthy cfg) (hm : ModelCall S cfg s0 calls i e g) {a : Aid}
    (hnc : a ∉ cfg.covered) (hlt : a < S.n) :
    (e.call = .getObs (.inner a) →
      ∃ o, e.obsReads = [(a, o)] ∧ e.res = .obs (.plain o) ∧ e.simDone = g.done ∧ e.pending = g.pend) ∧
    (e.call = .getReward (.inner a) →
      e.res = .reward (g.pendOf a) ∧ e.simDone = g.done ∧
      ∀ b < S.n, e.pending.getD b 0 = if b = a then 0 else g.pendOf b) ∧
    (e.call = .getDone (.inner a) → e.res = .done (g.isDone a) ∧ untouched g e = true) ∧
    (e.call = .getInfo (.inner a) →
      ∃ i, e.res = .info (.plain i) ∧ e.simInfos[a]? = some i ∧ untouched g e = true) ∧
    (e.call = .getAllDone → e.res = .done e.simAllDone ∧ untouched g e = true) :=
  c14_uncovered_transparent (C14_every_call hS hc hn hm) hnc hlt

theorem covered_rejected (hS : Lawful S) (hc : ctorOK S.n S.learning cfg = true) (hn : NullTruthy cfg)
    (hm : ModelCall S cfg s0 calls i e g) {c : Aid} (hcov : c ∈ cfg.covered)
    (hcall : e.call = .getObs (.inner c) ∨ e.call = .getReward (.inner c) ∨
      e.call = .getDone (.inner c) ∨ e.call = .getInfo (.inner c)) :
    e.res = .err .rejected ∧ untouched g e = true :=
  c14_covered_rejected (C14_every_call hS hc hn hm) hcov hcall

end model

/-! ## The functor lemma at work: manager, adapter and trainer theorems for wrapped simulations -/

section wrapped
variable {S : SimIface σ α ω ι} {k : MKind} {cfg : SuperCfg ω}

/-- C01 holds of every manager over a wrapped simulation -/
theorem C01_wrapped [DecidableEq α] (hW : WF S k) (hk : k ≠ .dynamic) (hP : Partition cfg)
    (hcomplete : ∀ a < S.n, a ∈ cfg.covered ∨ a ∈ cfg.uncovered) (m0 : MState (SupSt σ))
    (ops : List (Op (SAct α))) :
    specC01 k (superSim S cfg).n (superSim S cfg).learning m0.shuffle
      (runOps (superSim S cfg) k m0 ops) = true :=
  C01_managers_honour_done_protocol _ k (superSim_WF hW hk hP hcomplete) m0 ops

/-- C07 holds of every manager over a wrapped simulation -/
theorem C07_wrapped [DecidableEq α] (hW : WF S k) (hk : k ≠ .dynamic) (hP : Partition cfg)
    (hcomplete : ∀ a < S.n, a ∈ cfg.covered ∨ a ∈ cfg.uncovered) (m0 : MState (SupSt σ))
    (ops : List (Op (SAct α))) :
    specC07 k (superSim S cfg).n (superSim S cfg).learning (runOps (superSim S cfg) k m0 ops) = true :=
  C07_fair_turns_and_progress _ k (superSim_WF hW hk hP hcomplete) m0 ops

/-- C15 (OpenSpiel adapter) holds over a wrapped simulation -/
theorem C15_wrapped [DecidableEq α] [DecidableEq ω] (hW : WF S k) (hk : k ≠ .dynamic)
    (hP : Partition cfg) (hcomplete : ∀ a < S.n, a ∈ cfg.covered ∨ a ∈ cfg.uncovered)
    (hl : S.learners ≠ []) (m0 : MState (SupSt σ)) (calls : List (Option (List (SAct α)))) :
    specC15 k (superSim S cfg).n (superSim S cfg).learning calls
      (osRun (superSim S cfg) k { m := m0 } calls) = true :=
  C15_openspiel _ k (superSim_WF hW hk hP hcomplete) hk (superSim_learners_ne_nil hcomplete hl) m0 calls

/-- C16 (episode generation) holds over a wrapped simulation -/
theorem C16_wrapped [DecidableEq α] [DecidableEq ω] (hW : WF S k) (hk : k ≠ .dynamic)
    (hP : Partition cfg) (hcomplete : ∀ a < S.n, a ∈ cfg.covered ∨ a ∈ cfg.uncovered)
    (P : Policies (SAct α) (SObs ω)) (horizon : Nat) (m : MState (SupSt σ)) :
    specC16 (superSim S cfg).n horizon P.pmap (generateEpisode (superSim S cfg) k P horizon m) = true :=
  C16_generate_episode _ k (superSim_WF hW hk hP hcomplete) P horizon m

end wrapped

/-! ## The stub family used by the correspondence check satisfies the hypotheses -/

/-- the judge is sound on the scripted family: the model's own session always passes -/
theorem C14_stub (sc : Script) (cfg : SuperCfg (List Int)) (hn : NullTruthy cfg) (s0 : StubSt)
    (calls : List (SCall Int)) :
    specC14 sc.n (stubSim sc).learning cfg (supSession (stubSim sc) cfg s0 calls) = true :=
  C14_trace (stubSim sc) (stub_lawful sc) cfg hn s0 calls

/-- … and so is the manager model over the wrapped stub -/
theorem C14_stub_managers (sc : Script) (cfg : SuperCfg (List Int)) (k : MKind) (hk : k ≠ .dynamic)
    (hl : ∃ a < sc.n, sc.learning.getD a false = true) (hP : Partition cfg)
    (hcomplete : ∀ a < sc.n, a ∈ cfg.covered ∨ a ∈ cfg.uncovered) (m0 : MState (SupSt StubSt))
    (ops : List (Op (SAct Int))) :
    specC01 k (superSim (stubSim sc) cfg).n (superSim (stubSim sc) cfg).learning m0.shuffle
      (runOps (superSim (stubSim sc) cfg) k m0 ops) = true ∧
    specC07 k (superSim (stubSim sc) cfg).n (superSim (stubSim sc) cfg).learning
      (runOps (superSim (stubSim sc) cfg) k m0 ops) = true := by
  have hW : WF (stubSim sc) k := stub_WF sc k (fun _ => hl) (fun h => absurd h hk)
  exact ⟨C01_wrapped hW hk hP hcomplete m0 ops, C07_wrapped hW hk hP hcomplete m0 ops⟩

/-! ## Non-vacuity: four learning agents and a non-learning entity, two super agents and an uncovered
agent, a simultaneous double finish, a declared and an undeclared null observation, repeated reads,
a rejected call and a second episode. -/

def exScript14 : Script :=
  { n := 5, learning := [true, true, true, true, false], doneAt := [1, 1, 9, 2, 9], finishAt := 9, noms := [] }

def exCfg14 : SuperCfg (List Int) :=
  { groups := [[1, 0], [3]], uncovered := [2, 4],
    nullObs := [some [999, 99, 0, 0], none, none, some [999, 99, 3, 0], none],
    nullTruthy := [true, false, false, true, false] }

def exCalls14 : List (SCall Int) :=
  [.reset, .getObs (.sup 0), .getReward (.sup 0),
   .step [(.sup 0, .joint [(1, 3), (0, 2)]), (.inner 2, .plain 1), (.sup 1, .joint [(3, 4)])],
   .getObs (.sup 0), .getObs (.sup 0), .getReward (.sup 0), .getReward (.sup 0), .getDone (.sup 0),
   .getDone (.sup 1), .getObs (.inner 0),
   .step [(.sup 0, .joint [(1, 3), (0, 2)]), (.sup 1, .joint [(3, 4)])],
   .getObs (.sup 1), .getObs (.sup 1), .getInfo (.sup 1), .getObs (.inner 2), .getReward (.inner 2),
   .getAllDone, .reset, .getObs (.sup 0)]

example : ctorOK exScript14.n (stubSim exScript14).learning exCfg14 = true := by decide

example : NullTruthy exCfg14 := by
  intro c hc
  have : c = 1 ∨ c = 0 ∨ c = 3 := by simpa [SuperCfg.covered, exCfg14] using hc
  rcases this with rfl | rfl | rfl <;> decide

example : Partition exCfg14 := by unfold Partition; decide

example : ∀ a < exScript14.n, a ∈ exCfg14.covered ∨ a ∈ exCfg14.uncovered := by decide

/-- the example history really contains a super observation with a false mask bit that hands out the
declared null observation of agent 0, a step from which the actions of done covered agents were
dropped, a rejected call, and a second episode — and the session satisfies `specC14` -/
example :
    let out := supSession (stubSim exScript14) exCfg14 {} exCalls14
    (match out with
     | .ok tr =>
       (tr.any fun e => match e.res with
          | .obs (.super mask ol) => mask.any (fun p => !p.2) && decide ((0, [999, 99, 0, 0]) ∈ ol)
          | _ => false) &&
       (tr.any fun e => match e.simArgs with | some a => a.length == 1 | none => false) &&
       (tr.any fun e => match e.res with | .err .rejected => true | _ => false)
     | .error _ => false) = true ∧
    specC14 5 (stubSim exScript14).learning exCfg14 out = true := by
  decide

end Abmarl
