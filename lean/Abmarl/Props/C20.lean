import Abmarl.Lemmas.CommInv
import Abmarl.Props.C01
/-!
# C20 — Messages are delivered only after a send followed by a matching receive

Model: `Model/Comm.lean` (`CommunicationHandshakeWrapper` as a functor on simulations whose
observation getter takes a fusion row); judge: `specC20` in `Spec/Comm.lean`, whose expectations
`expBuffer` / `expFuse` are computed from the history of calls alone.

Reading (DESIGN.md §5 C20): after any step `fuse[x][y]` is true iff at `x`'s most recent action in
this episode the message from `y` was pending and `x` chose to receive it (false before `x`'s first
action); `buffer[x][y]` after a step is true iff `y` acted in that step and chose to send to `x`.

For **every** wrapped simulation (any state / action / observation types, no hypothesis on it), every
number of agents and every history of resets, steps (any subset of acting agents, any bits) and
`get_obs` calls inside the domain `histWF` (= the inputs on which the code raises nothing):

* `buffer_iff`, `buffer_after_step` — the message buffer;
* `fuse_iff`, `fuse_kept_when_idle`, `fuse_false_before_first_action` — the fusion matrix (by induction
  over the history, `commFinal_inv`);
* `cleared_each_step_and_reset`;
* `inner_gets_original_actions`;
* `comm_spaces_mem`, `augAct_wf` — augmented spaces as shape facts;
* `C20_trace` — the trace of the model passes the judge `specC20` (no domain hypothesis: calls outside
  the domain end the obligation inside `specC20`);
* `comm_lawful`, `comm_WF`, `C01_applies_to_comm` — the functor lemma: a wrapped simulation again
  satisfies the managers' frame conditions, so the manager theorems apply to it;
* `c20_*`, `expBuffer_iff`, `expFuse_iff`, `expRow_*`, `c20Loop_at` — readings of the judge;
* `C20_stub` and three `decide` examples (send then receive / receive without send / send without
  receive).
-/
namespace Abmarl
variable {σ α ω ι : Type}

/-! ## The trace of the model passes the judge -/

theorem c20Loop_sound [DecidableEq α] (S : CommIface σ α ω ι) :
    ∀ (ops : List (COp α)) (c : CState σ) (st : Bool) (past : List (COp α)), LInv S.n c st past →
      c20Loop S.n st past (commRun S c ops) = true := by
  intro ops
  induction ops with
  | nil => intro c st past _; simp [commRun, c20Loop]
  | cons op ops ih =>
    intro c st past hI
    simp only [commRun, c20Loop, commRunOp_op]
    by_cases hwf : opWF S.n st past op = true
    · obtain ⟨h1, h2⟩ := commOp_sound S c st past op hI hwf
      simp [hwf, h1, ih _ _ _ h2]
    · simp [hwf]

/-- **C20** on traces: for every wrapped simulation, every (not yet reset) wrapper state and every
history of calls, the model's trace satisfies `specC20`. -/
theorem C20_trace [DecidableEq α] (S : CommIface σ α ω ι) (c0 : CState σ) (h0 : c0.started = false)
    (ops : List (COp α)) : specC20 S.n (commRun S c0 ops) = true :=
  c20Loop_sound S ops c0 false [] ⟨h0, fun h => by cases h⟩

/-! ## State-level theorems over histories -/

/-- the invariant over a whole history inside the domain -/
theorem commFinal_inv (S : CommIface σ α ω ι) :
    ∀ (ops : List (COp α)) (c : CState σ) (st : Bool) (past : List (COp α)), LInv S.n c st past →
      histWF S.n st past ops = true →
      LInv S.n (commFinal S c ops) (st || ops.any isReset) (ops.reverse ++ past) := by
  intro ops
  induction ops with
  | nil => intro c st past hI _; simpa [commFinal] using hI
  | cons op ops ih =>
    intro c st past hI hwf
    simp only [histWF, Bool.and_eq_true] at hwf
    -- `DecidableEq` is only needed by the judge, not by the invariant
    have h2 : LInv S.n (commRunOp S c op).2 (st || isReset op) (op :: past) := by
      cases op with
      | reset => exact ⟨by simp [commRunOp, commReset, isReset], fun _ => CInv.reset S c past⟩
      | step acts =>
        have hw := hwf.1
        simp only [opWF, Bool.and_eq_true] at hw
        have hs : c.started = true := by rw [hI.started]; exact hw.1
        have hp := stepPre_of_wf hs (hI.live hw.1) hw.2
        obtain ⟨e1, _, _, e4, _, _⟩ := commStep_spec S c acts hp
        exact ⟨by simp [commRunOp, e1, e4, hw.1], fun _ => by simpa [commRunOp, e1] using CInv.step (hI.live hw.1) hp⟩
      | getObs a =>
        have hw := hwf.1
        simp only [opWF, Bool.and_eq_true, decide_eq_true_eq] at hw
        have hs : c.started = true := by rw [hI.started]; exact hw.1
        have hE : (commRunOp S c (.getObs a)).2 = ((commSim S).obs c a).2 := by
          simp [commRunOp, hs, hw.2]
        rw [hE]
        exact ⟨by rw [hw.1, Bool.true_or]; exact hs, fun _ => CInv.getObs a (hI.live hw.1)⟩
    have := ih _ _ _ h2 hwf.2
    simpa [commFinal, Bool.or_assoc] using this

theorem first_is_reset {n : Nat} {ops : List (COp α)} (hwf : histWF n false [] ops = true) (hne : ops ≠ []) :
    ops.any isReset = true := by
  cases ops with
  | nil => exact absurd rfl hne
  | cons op rest =>
    simp only [histWF, Bool.and_eq_true] at hwf
    cases op with
    | reset => simp [isReset]
    | step acts => simp [opWF] at hwf
    | getObs a => simp [opWF] at hwf

/-- the wrapper's matrices after a history, in terms of the history alone -/
theorem matrices_after_history (S : CommIface σ α ω ι) (c0 : CState σ) (h0 : c0.started = false)
    (ops : List (COp α)) (hwf : histWF S.n false [] ops = true) (hne : ops ≠ []) :
    CInv S.n (commFinal S c0 ops) ops.reverse := by
  have := commFinal_inv S ops c0 false [] ⟨h0, fun h => by cases h⟩ hwf
  rw [first_is_reset hwf hne] at this
  simpa using this.live rfl

/-- **buffer_iff**: after any history, `buffer[x][y]` holds iff the most recent call that is not a
`get_obs` is a step in which `y` acted and chose to send to `x` (in particular: not after a reset). -/
theorem buffer_iff (S : CommIface σ α ω ι) (c0 : CState σ) (h0 : c0.started = false)
    (ops : List (COp α)) (hwf : histWF S.n false [] ops = true) (hne : ops ≠ [])
    (x y : Aid) (hx : x < S.n) (hy : y < S.n) (hxy : x ≠ y) :
    mget (commFinal S c0 ops).buffer x y = true ↔
      ∃ gs acts rest a, ops.reverse = gs ++ .step acts :: rest ∧ (∀ o ∈ gs, isGetObs o) ∧
        acts.lookup y = some a ∧ a.send.lookup x = some true := by
  rw [(matrices_after_history S c0 h0 ops hwf hne).buf x y hx hy hxy]
  exact expBuffer_iff _ x y

/-- the literal form: immediately after a step, `buffer[x][y]` is true iff `y` acted in *that* step
and chose to send to `x` -/
theorem buffer_after_step (S : CommIface σ α ω ι) (c0 : CState σ) (h0 : c0.started = false)
    (pre : List (COp α)) (acts : List (Aid × CAct α))
    (hwf : histWF S.n false [] (pre ++ [.step acts]) = true)
    (x y : Aid) (hx : x < S.n) (hy : y < S.n) (hxy : x ≠ y) :
    mget (commFinal S c0 (pre ++ [.step acts])).buffer x y = true ↔
      ∃ a, acts.lookup y = some a ∧ a.send.lookup x = some true := by
  rw [(matrices_after_history S c0 h0 _ hwf (by simp)).buf x y hx hy hxy]
  simp only [List.reverse_append, List.reverse_cons, List.reverse_nil, List.nil_append,
    List.cons_append, expBuffer, sentTo]
  cases h1 : acts.lookup y with
  | none => simp
  | some a =>
    cases h2 : a.send.lookup x with
    | none => simp [h2]
    | some v => cases v <;> simp [h2]

/-- **fuse_iff**: after any history, `fuse[x][y]` (the fusion matrix handed to the wrapped `get_obs`)
holds iff at `x`'s most recent action since the last reset the message from `y` was pending — i.e.
`y` acted in the step just before it (only `get_obs` calls in between) and chose to send to `x` —
and `x` chose to receive it.  In particular it is false before `x`'s first action of the episode and
an agent that does not act keeps its row. -/
theorem fuse_iff (S : CommIface σ α ω ι) (c0 : CState σ) (h0 : c0.started = false)
    (ops : List (COp α)) (hwf : histWF S.n false [] ops = true) (hne : ops ≠ [])
    (x y : Aid) (hx : x < S.n) (hy : y < S.n) (hxy : x ≠ y) :
    mget (commFinal S c0 ops).received x y = true ↔
      ∃ pre acts rest a, ops.reverse = pre ++ .step acts :: rest ∧ (∀ o ∈ pre, idleFor x o) ∧
        acts.lookup x = some a ∧ a.receive.lookup y = some true ∧
        ∃ gs acts' rest' b, rest = gs ++ .step acts' :: rest' ∧ (∀ o ∈ gs, isGetObs o) ∧
          acts'.lookup y = some b ∧ b.send.lookup x = some true := by
  rw [(matrices_after_history S c0 h0 ops hwf hne).rcv x y hx hy hxy, expFuse_iff]
  constructor
  · rintro ⟨pre, acts, rest, a, h1, h2, h3, h4, h5⟩
    exact ⟨pre, acts, rest, a, h1, h2, h3, h4, (expBuffer_iff rest x y).mp h5⟩
  · rintro ⟨pre, acts, rest, a, h1, h2, h3, h4, h5⟩
    exact ⟨pre, acts, rest, a, h1, h2, h3, h4, (expBuffer_iff rest x y).mpr h5⟩

/-- an agent that does not act in a step keeps its fusion row -/
theorem fuse_kept_when_idle (past : List (COp α)) (acts : List (Aid × CAct α)) (x y : Aid)
    (h : acts.lookup x = none) : expFuse (.step acts :: past) x y = expFuse past x y := by
  simp [expFuse, h]

/-- nothing is fused for an agent before its first action of the episode -/
theorem fuse_false_before_first_action (pre rest : List (COp α)) (x y : Aid)
    (h : ∀ o ∈ pre, idleFor x o) : expFuse (pre ++ .reset :: rest) x y = false := by
  induction pre with
  | nil => rfl
  | cons o pre ih =>
    have ho := h o (by simp)
    have ih' := ih (fun o' ho' => h o' (List.mem_cons_of_mem _ ho'))
    cases o with
    | reset => exact ho.elim
    | getObs b => simpa [expFuse] using ih'
    | step acts =>
      simp only [idleFor] at ho
      simpa [expFuse, ho] using ih'

/-- **cleared_each_step_and_reset**: `reset` leaves both matrices empty; after a step the buffer
holds nothing from a sender that did not act in this step, and it does not depend on what the
buffer (or anything else in the wrapper) held before the step. -/
theorem cleared_each_step_and_reset (S : CommIface σ α ω ι) (c : CState σ) :
    (∀ x y, mget (commReset S c).buffer x y = false ∧ mget (commReset S c).received x y = false) ∧
    (∀ (past : List (COp α)) acts, c.started = true → CInv S.n c past → actsWF S.n past acts = true →
      ∀ x y, acts.lookup y = none → mget (commStep S c acts).st.buffer x y = false) ∧
    (∀ (past past' : List (COp α)) acts (c' : CState σ), c.started = true → CInv S.n c past →
      actsWF S.n past acts = true → c'.started = true → CInv S.n c' past' → actsWF S.n past' acts = true →
      (commStep S c acts).st.buffer = (commStep S c' acts).st.buffer) := by
  refine ⟨fun x y => ⟨mget_mzero S.n x y, mget_mzero S.n x y⟩, ?_, ?_⟩
  · intro past acts hs hI hwf x y hl
    rw [(commStep_matrices S c acts (stepPre_of_wf hs hI hwf)).2.1 x y]
    simp [sentTo, hl]
  · intro past past' acts c' hs hI hwf hs' hI' hwf'
    rw [(commStep_spec S c acts (stepPre_of_wf hs hI hwf)).2.2.2.2.1,
      (commStep_spec S c' acts (stepPre_of_wf hs' hI' hwf')).2.2.2.2.1]

/-- **inner_gets_original_actions**: a step inside the domain raises nothing and the wrapped simulation
is stepped exactly once, with exactly the original `action` entries of the acting agents, same keys,
same order (`simOnly acts = acts.map fun p => (p.1, p.2.action)`). -/
theorem inner_gets_original_actions (S : CommIface σ α ω ι) (c : CState σ) (past : List (COp α))
    (acts : List (Aid × CAct α)) (hs : c.started = true) (hI : CInv S.n c past)
    (hwf : actsWF S.n past acts = true) :
    (commStep S c acts).err = none ∧
    (commStep S c acts).args = some (acts.map fun p => (p.1, p.2.action)) ∧
    (commStep S c acts).st.sim = S.step c.sim (acts.map fun p => (p.1, p.2.action)) := by
  obtain ⟨h1, h2, h3, _⟩ := commStep_spec S c acts (stepPre_of_wf hs hI hwf)
  exact ⟨h1, h2, h3⟩

/-! ## The augmented spaces, as shape facts

`Dict({'obs': inner, 'message_buffer': Dict({other: Discrete(2)})})` and
`Dict({'action': inner, 'send': Dict({other: Discrete(2)}), 'receive': Dict({other: Discrete(2)})})`:
a dictionary is in `Dict({other: Discrete(2) …})` iff its keys are exactly the other agents (bits are
`Bool`, i.e. in `Discrete(2)`, by type). -/

def augObsMem (n : Nat) (innerObs : Aid → ω → Prop) (x : Aid) (o : CObs ω) : Prop :=
  innerObs x o.obs ∧ o.buffer.map (·.1) = others n x

def augActMem (n : Nat) (innerAct : Aid → α → Prop) (x : Aid) (a : CAct α) : Prop :=
  innerAct x a.action ∧ a.send.map (·.1) = others n x ∧ a.receive.map (·.1) = others n x

theorem rowDict_keys (n : Nat) (m : Matrix) (x : Aid) : (rowDict n m x).map (·.1) = others n x := by
  simp [rowDict, Function.comp_def]

theorem others_length (n a : Nat) : (others n a).length = n - (if a < n then 1 else 0) := by
  induction n with
  | zero => simp [others]
  | succ n ih =>
    have hE : others (n + 1) a = others n a ++ (if n != a then [n] else []) := by
      unfold others
      rw [List.range_succ, List.filter_append]
      by_cases h : n = a <;> simp [h]
    rw [hE, List.length_append, ih]
    by_cases h1 : a < n
    · have hne : (n != a) = true := by simp; omega
      have h3 : a < n + 1 := by omega
      rw [if_pos h1, if_pos h3, hne, if_pos rfl, List.length_singleton]
      omega
    · by_cases h2 : a = n
      · subst h2
        have hne : (a != a) = false := by simp
        rw [if_neg h1, if_pos (Nat.lt_succ_self a), hne]
        simp
      · have hne : (n != a) = true := by simp; exact fun e => h2 e.symm
        have h3 : ¬ a < n + 1 := by omega
        rw [if_neg h1, if_neg h3, hne, if_pos rfl, List.length_singleton]
        omega

/-- **comm_spaces_mem**: every wrapped observation lies in the augmented observation space (its `obs`
entry is an observation of the wrapped simulation, its message buffer has exactly one bit per *other*
agent), the fusion row handed to the wrapped simulation has the same shape, and the actions that
reach the wrapped simulation are the `action` entries of actions of the augmented action space,
hence in the original action space. -/
theorem comm_spaces_mem (S : CommIface σ α ω ι) (innerObs : Aid → ω → Prop) (innerAct : Aid → α → Prop)
    (hobs : ∀ s a row, a < S.n → innerObs a (S.obsF s a row).1) :
    (∀ c a, a < S.n → augObsMem S.n innerObs a ((commSim S).obs c a).1) ∧
    (∀ (c : CState σ) a, (rowDict S.n c.received a).map (·.1) = others S.n a ∧ a ∉ others S.n a ∧
      (others S.n a).length = S.n - (if a < S.n then 1 else 0)) ∧
    (∀ acts : List (Aid × CAct α), (∀ p ∈ acts, augActMem S.n innerAct p.1 p.2) →
      ∀ q ∈ simOnly acts, innerAct q.1 q.2) := by
  refine ⟨fun c a ha => ⟨hobs _ _ _ ha, rowDict_keys _ _ _⟩, fun c a => ⟨rowDict_keys _ _ _, ?_, ?_⟩, ?_⟩
  · intro h; exact (mem_others.mp h).2 rfl
  · exact others_length S.n a
  · intro acts h q hq
    obtain ⟨p, hp, rfl⟩ := List.mem_map.mp hq
    exact (h p hp).1

theorem lookup_isSome_of_mem_keys {β : Type} (l : List (Aid × β)) (a : Aid) (h : a ∈ l.map (·.1)) :
    (l.lookup a).isSome = true := by
  induction l with
  | nil => cases h
  | cons p ps ih =>
    obtain ⟨k, v⟩ := p
    by_cases hp : a = k
    · simp [List.lookup, hp]
    · have hne : (a == k) = false := by simpa using hp
      simp only [List.map_cons, List.mem_cons] at h
      rcases h with h | h
      · exact absurd h hp
      · simp only [List.lookup, hne]; exact ih h

/-- every action dictionary over known agents whose actions lie in the augmented action space is
inside the domain of the theorems, whatever happened before -/
theorem augAct_wf (n : Nat) (innerAct : Aid → α → Prop) (past : List (COp α))
    (acts : List (Aid × CAct α)) (hd : (acts.map (·.1)).Nodup) (hk : ∀ p ∈ acts, p.1 < n)
    (h : ∀ p ∈ acts, augActMem n innerAct p.1 p.2) : actsWF n past acts = true := by
  simp only [actsWF, isDict, Bool.and_eq_true, decide_eq_true_eq, List.all_eq_true, actWF]
  refine ⟨hd, fun p hp => ⟨hk p hp, ⟨?_, ?_⟩, ?_⟩⟩
  · rw [(h p hp).2.1]; exact others_nodup n p.1
  · intro q hq
    have : q.1 ∈ others n p.1 := by rw [← (h p hp).2.1]; exact List.mem_map_of_mem hq
    obtain ⟨h1, h2⟩ := mem_others.mp this
    simp [h1, h2]
  · intro y hy
    have : y ∈ p.2.receive.map (·.1) := by rw [(h p hp).2.2]; exact hy
    simp [lookup_isSome_of_mem_keys _ _ this]

/-! ## The functor lemma: manager theorems apply to wrapped simulations -/

/-- if the wrapped simulation satisfies a manager's well-formedness conditions for every fusion row it
may be handed, so does the wrapper -/
theorem comm_WF (S : CommIface σ α ω ι) (k : MKind) (h : ∀ rows, Lawful (S.toSim rows))
    (hk : WF (S.toSim fun _ => []) k) : WF (commSim S) k where
  lawful := comm_lawful S h
  turn := hk.turn
  dyn := fun e => ⟨(hk.dyn e).1, fun c => (hk.dyn e).2 c.sim⟩

/-- C01 (the done protocol) for every manager over every wrapped simulation -/
theorem C01_applies_to_comm [DecidableEq α] (S : CommIface σ α ω ι) (k : MKind)
    (h : ∀ rows, Lawful (S.toSim rows)) (hk : WF (S.toSim fun _ => []) k)
    (m0 : MState (CState σ)) (ops : List (Op (CAct α))) :
    specC01 k S.n S.learning m0.shuffle (runOps (commSim S) k m0 ops) = true :=
  C01_managers_honour_done_protocol (commSim S) k (comm_WF S k h hk) m0 ops

/-! ## What `specC20` says (readings of the decidable predicate) -/

theorem expRow_keys (n : Nat) (f : Aid → Aid → Bool) (x : Aid) : (expRow n f x).map (·.1) = others n x := by
  simp [expRow, Function.comp_def]

/-- an expected row holds, for every other agent `y`, the bit `f x y` (and no entry for `x` itself) -/
theorem expRow_lookup (n : Nat) (f : Aid → Aid → Bool) (x y : Aid) :
    (expRow n f x).lookup y = if y < n ∧ y ≠ x then some (f x y) else none := by
  unfold expRow
  have key : ∀ l : List Aid, (l.map fun y => (y, f x y)).lookup y = if y ∈ l then some (f x y) else none := by
    intro l
    induction l with
    | nil => simp
    | cons z zs ih =>
      simp only [List.map_cons, List.lookup_cons, List.mem_cons]
      by_cases h : y = z
      · subst h; simp
      · have : (y == z) = false := by simpa using h
        simp [this, ih, h]
  rw [key]
  simp only [mem_others]

/-- position `i` of a trace: the calls before it (most recent first) and whether a reset is among them -/
def pastAt (tr : List (CEntry α ω)) (i : Nat) : List (COp α) := ((tr.take i).map (·.op)).reverse
def startedAt (tr : List (CEntry α ω)) (i : Nat) : Bool := (tr.take i).any fun e => isReset e.op

/-- every call up to and including entry `i` is inside the domain -/
def DomainOK (n : Nat) (tr : List (CEntry α ω)) (i : Nat) : Prop :=
  ∀ j ≤ i, ∀ e, tr[j]? = some e → opWF n (startedAt tr j) (pastAt tr j) e.op = true

theorem c20Loop_at' [DecidableEq α] (n : Nat) :
    ∀ (tr : List (CEntry α ω)) (st : Bool) (past : List (COp α)), c20Loop n st past tr = true →
      ∀ i e, tr[i]? = some e →
        (∀ j ≤ i, ∀ e', tr[j]? = some e' →
          opWF n (st || startedAt tr j) (pastAt tr j ++ past) e'.op = true) →
        c20Entry n (pastAt tr i ++ past) e = true := by
  intro tr
  induction tr with
  | nil => intro st past _ i e h; simp at h
  | cons e0 es ih =>
    intro st past hspec i e hi hd
    have h0 : opWF n st past e0.op = true := by
      have := hd 0 (Nat.zero_le _) e0 (by simp)
      simpa [startedAt, pastAt] using this
    have hboth : c20Entry n past e0 = true ∧ c20Loop n (st || isReset e0.op) (e0.op :: past) es = true := by
      simpa [c20Loop, h0] using hspec
    cases i with
    | zero =>
      simp only [List.getElem?_cons_zero, Option.some.injEq] at hi
      subst hi
      simpa [pastAt] using hboth.1
    | succ i =>
      simp only [List.getElem?_cons_succ] at hi
      have hd' : ∀ j ≤ i, ∀ e', es[j]? = some e' →
          opWF n ((st || isReset e0.op) || startedAt es j) (pastAt es j ++ e0.op :: past) e'.op = true := by
        intro j hj e' he'
        have := hd (j + 1) (by omega) e' (by simpa using he')
        simpa [startedAt, pastAt, Bool.or_assoc] using this
      have := ih _ _ hboth.2 i e hi hd'
      simpa [pastAt] using this

/-- `specC20` means: the per-call check holds at every call reached inside the domain -/
theorem c20Loop_at [DecidableEq α] (n : Nat) (tr : List (CEntry α ω)) (h : specC20 n tr = true)
    (i : Nat) (e : CEntry α ω) (hi : tr[i]? = some e) (hd : DomainOK n tr i) :
    c20Entry n (pastAt tr i) e = true := by
  have := c20Loop_at' n tr false [] h i e hi (by
    intro j hj e' he'
    simpa using hd j hj e' he')
  simpa using this

section readings
variable [DecidableEq α] {n : Nat} {past : List (COp α)} {e : CEntry α ω}

/-- after every call the wrapper's two dictionaries are exactly the expected ones: by `expRow_lookup`,
`expBuffer_iff` and `expFuse_iff` this is the property's statement about the message buffer and about
fusion, for every pair of distinct agents -/
theorem c20_matrices (h : c20Entry n past e = true) :
    e.buffer = expRows n (expBuffer (e.op :: past)) ∧ e.received = expRows n (expFuse (e.op :: past)) := by
  simp only [c20Entry, Bool.and_eq_true, decide_eq_true_eq] at h
  exact ⟨h.1.1, h.1.2⟩

/-- a reset succeeds, reaches neither the wrapped `step` nor `get_obs`, and clears both dictionaries -/
theorem c20_reset_clears (h : c20Entry n past e = true) (hop : e.op = .reset) :
    e.res = .resetOk ∧ e.simArgs = none ∧ e.fusion = none ∧ allClear e.buffer = true ∧
      allClear e.received = true := by
  simp only [c20Entry, hop, Bool.and_eq_true] at h
  cases hr : e.res with
  | resetOk =>
    simp only [hr, Bool.and_eq_true, Option.isNone_iff_eq_none] at h
    exact ⟨rfl, h.2.1.1.1, h.2.1.1.2, h.2.1.2, h.2.2⟩
  | stepOk => simp [hr] at h
  | obsOk o => simp [hr] at h
  | err er => simp [hr] at h

/-- a step inside the domain succeeds and the wrapped simulation receives only the original actions -/
theorem c20_step_inner_args (h : c20Entry n past e = true) {acts : List (Aid × CAct α)}
    (hop : e.op = .step acts) :
    e.res = .stepOk ∧ e.simArgs = some (acts.map fun p => (p.1, p.2.action)) ∧ e.fusion = none := by
  simp only [c20Entry, hop, Bool.and_eq_true] at h
  cases hr : e.res with
  | stepOk =>
    simp only [hr, Bool.and_eq_true, decide_eq_true_eq, Option.isNone_iff_eq_none] at h
    exact ⟨rfl, h.2.1, h.2.2⟩
  | resetOk => simp [hr] at h
  | obsOk o => simp [hr] at h
  | err er => simp [hr] at h

/-- `get_obs(a)` succeeds, does not step the wrapped simulation, hands it the expected fusion row of
`a`, and returns as message buffer the expected row, which is the wrapper's own row for `a` -/
theorem c20_obs (h : c20Entry n past e = true) {a : Aid} (hop : e.op = .getObs a) :
    ∃ o, e.res = .obsOk o ∧ e.simArgs = none ∧ e.fusion = some (expRow n (expFuse past) a) ∧
      o.buffer = expRow n (expBuffer past) a ∧ e.buffer[a]? = some o.buffer := by
  simp only [c20Entry, hop, Bool.and_eq_true] at h
  cases hr : e.res with
  | obsOk o =>
    simp only [hr, Bool.and_eq_true, decide_eq_true_eq, Option.isNone_iff_eq_none] at h
    exact ⟨o, rfl, h.2.1.1.1, h.2.1.1.2, h.2.1.2, h.2.2⟩
  | resetOk => simp [hr] at h
  | stepOk => simp [hr] at h
  | err er => simp [hr] at h

end readings

/-! ## The stub family used by the correspondence check -/

theorem stubComm_lawful (sc : Script) (rows : Aid → Row) : Lawful ((stubComm sc).toSim rows) where
  obs_done := by intros; rfl
  obs_allDone := by intros; rfl
  obs_next := by intros; rfl
  obs_pending := by intros; rfl
  rew_done := by intros; rfl
  rew_allDone := by intros; rfl
  rew_next := by intros; rfl
  rew_val := by intros; rfl
  rew_pending := (stub_lawful sc).rew_pending

/-- the judge is sound on the scripted family: the model's own trace always passes -/
theorem C20_stub (sc : Script) (s0 : StubSt) (ops : List (COp Int)) :
    specC20 sc.n (commRun (stubComm sc) (commInit s0) ops) = true :=
  C20_trace (stubComm sc) (commInit s0) rfl ops

/-- the real wrapper under a real manager: C01 holds for the stack -/
theorem C01_comm_stub (sc : Script) (k : MKind) (m0 : MState (CState StubSt)) (ops : List (Op (CAct Int)))
    (hl : k = .turnBased → ∃ a < sc.n, sc.learning.getD a false = true)
    (hd : k = .dynamic → ScriptWF sc) :
    specC01 k sc.n (stubSim sc).learning m0.shuffle (runOps (commSim (stubComm sc)) k m0 ops) = true :=
  C01_applies_to_comm (stubComm sc) k (stubComm_lawful sc)
    { lawful := stubComm_lawful sc _, turn := (stub_WF sc k hl hd).turn, dyn := (stub_WF sc k hl hd).dyn } m0 ops

/-! ## Non-vacuity: two agents; send then receive / receive without send / send without receive -/

def ex2 : Script := { n := 2, learning := [true, true], doneAt := [9, 9], finishAt := 9, noms := [] }

/-- agent 0 acts with the given bit towards agent 1, agent 1 acts with the given receive bit -/
def exStep (send01 recv10 : Bool) : COp Int :=
  .step [(0, ⟨1, [(1, send01)], [(1, false)]⟩), (1, ⟨2, [(0, false)], [(0, recv10)]⟩)]

def fusionSeen (tr : List (CEntry Int (List Int))) : List (Option Row) := tr.map (·.fusion)
def bufferSeen (tr : List (CEntry Int (List Int))) : List (Option Row) :=
  tr.map fun e => match e.res with | .obsOk o => some o.buffer | _ => none

/-- send, then receive: the message is pending after the first step and fused after the second -/
example :
    let ops := [.reset, exStep true false, .getObs 1, exStep false true, .getObs 1]
    let tr := commRun (stubComm ex2) (commInit {}) ops
    histWF 2 false [] ops = true ∧ specC20 2 tr = true ∧
    bufferSeen tr = [none, none, some [(0, true)], none, some [(0, false)]] ∧
    fusionSeen tr = [none, none, some [(0, false)], none, some [(0, true)]] ∧
    (tr.map (·.simArgs)) = [none, some [(0, 1), (1, 2)], none, some [(0, 1), (1, 2)], none] := by
  decide

/-- receive without a send: nothing is fused -/
example :
    let ops := [.reset, exStep false true, .getObs 1, exStep false true, .getObs 1]
    let tr := commRun (stubComm ex2) (commInit {}) ops
    histWF 2 false [] ops = true ∧ specC20 2 tr = true ∧
    bufferSeen tr = [none, none, some [(0, false)], none, some [(0, false)]] ∧
    fusionSeen tr = [none, none, some [(0, false)], none, some [(0, false)]] := by
  decide

/-- send without a receive: the message is seen in the buffer, nothing is fused, and the buffer is
cleared by the next step -/
example :
    let ops := [.reset, exStep true false, .getObs 1, exStep false false, .getObs 1]
    let tr := commRun (stubComm ex2) (commInit {}) ops
    histWF 2 false [] ops = true ∧ specC20 2 tr = true ∧
    bufferSeen tr = [none, none, some [(0, true)], none, some [(0, false)]] ∧
    fusionSeen tr = [none, none, some [(0, false)], none, some [(0, false)]] := by
  decide

/-- the judge is not vacuous: a trace in which the fused bit arrives although nothing was sent fails -/
example :
    let ops := [.reset, exStep false true, .getObs 1]
    let tr := commRun (stubComm ex2) (commInit {}) ops
    let bad := tr.map fun e => { e with fusion := e.fusion.map fun r => r.map fun p => (p.1, true) }
    specC20 2 bad = false := by
  decide

end Abmarl
