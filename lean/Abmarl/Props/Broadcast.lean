import Abmarl.Lemmas.Broadcast
import Abmarl.Lemmas.BroadcastObs
import Abmarl.Lemmas.BroadcastStep
import Abmarl.Lemmas.BroadcastDeliv
import Abmarl.Lemmas.BroadcastRecv
/-!
# `BroadcastSim` (`abmarl/examples/sim/comms_blocking.py`) inside the model: C02, C03, C08

Model `Model/Broadcast.lean` (the class and its hand-written components, exact rationals), judge `Spec/Broadcast.lean`,
tied to the real class by `gexample` with configuration `(broadcast …)` (per-call refinement for the float64 messages,
`Model/BroadcastDriver.lean`).  Every theorem is for every grid, overlap table, agent mix, broadcast mapping, ranges,
initial messages, tolerance, tape and history.

Proved:

* **C03 / messages** `broadcast_reachable_inv`: after ANY history of resets (any covered placement state), steps (any
  action dicts whose items are for agents of the simulation with moves of the declared spaces; any `broadcast` values),
  and getter calls, once a reset has returned: the world satisfies `WInv`, has the constructed static part, everybody is
  active; broadcasters have a message in `[-1, 1]`, nobody else has one; the receiving state has exactly the broadcasters
  as keys and every pending entry is `(a broadcaster, a number in [-1, 1])`; the reward dict has an entry for every agent.
  Readings: `broadcast_messages_in_unit`.
* **C02** `broadcast_observations_in_space`: in every such state `get_obs` of every agent of the simulation returns; the
  grid part has exactly the declared keys with values in the declared Box; a broadcaster's `message` part has exactly the
  broadcasters as keys, every entry in `[-1, 1]`, the own slot carries the new message, a foreign slot the last pending
  entry of that sender or exactly 0 (`BC.slotsOK`, the clause of the judge: the "only if" half of delivery); an agent
  that is not a broadcaster has no `message` key.  `broadcast_obs_reads_and_resets`: the read empties the agent's
  list, stores the clamped exact average, changes nothing else — a second read differs.
* **C08** `broadcast_reset_forgets`, `broadcast_fresh_twin`: `reset` looks at nothing of the previous episode (messages,
  pending receiving lists, rewards, cells, positions): a used object and a newly built one, same tape, give the same
  trace for `reset` and everything after it.
* **C02, the configuration hypothesis is needed** `broadcast_cfgHyp_needed`: two concrete supported-looking
  configurations in which a `step` with in-space actions raises `KeyError` (a mapping that allows the encoding of an
  agent without receiving list; a broadcaster whose encoding is not a key of the mapping), and the same state with a
  mapping satisfying `cfgHypb` in which it returns.

* **C02, actions** `broadcast_step_noRaise`: in every state of the invariant, on a configuration satisfying `BC.cfgHypb`,
  a `step` whose items are points of the declared action spaces returns (`determine_broadcast` is characterised as a
  `flatMap` over the window, `BC.determine_eq`; every agent it returns has a receiving list).
* **delivery, soundness** `broadcast_delivery_partial`: `determine_broadcast` returns, and whoever it returns is *reached*
  in the sense of the specification (`BC.reaches`: another active agent within the broadcast range, encoding allowed by
  the mapping, on a cell the rule of C10 does not hide) — nothing is delivered that did not reach.

* **delivery, one scan** `broadcast_delivery_complete`, `broadcast_delivery`: conversely every reached agent IS in the
  returned list, and the list has no repetitions (an agent stands in one cell, a cell lists an agent once): the members
  of the scan are EXACTLY the reached agents, once each (`BC.determine_complete`, `BC.determine_nodup`,
  `Lemmas/BroadcastDeliv.lean`).

* **delivery, one step** `broadcast_delivery_step`: in every state of the invariant, on a configuration satisfying
  `cfgHypb`, a `step` that returns leaves `receiving_state` equal to `BC.recvAfter`: every receiving list grows by EXACTLY
  the senders that chose to broadcast and reach the receiver, once each, in the order of the action dict, carrying the
  sender's message; no message changes (`BC.step_recv`, `Lemmas/BroadcastRecv.lean`: the per-sender `dictSet`s are the
  per-receiver `filterMap`).

* **the model's trace passes the judge** `broadcast_hist` (`Props/BroadcastHist.lean`) — `∀ cfg w0 ops, bcPre cfg w0 ops = true →
     specBC cfg w0 (zipOps ops (runOps cfg (init w0) ops).1) = true` (and from any initial tape: `broadcast_hist_tape`):
  every clause of `judge1` for the six kinds of call (`BC.judge1_reset`, `BC.judge1_step'`, `BC.judge1_obs`,
  `BC.judge1_rew`, `BC.judge1_done`, `BC.judge1_allDone`), `cfgHypb` carried along the frame (`BC.cfgHypb_frame`),
  induction over the history (`BC.specFrom_model`).  The driver still evaluates `specBC` on the model's own exact run of
  every request (reply field `specOnModel`); by the theorem a `0` there can only come from a request outside `bcPre`.
-/
namespace Abmarl
open World

/-! ## C03 and the messages -/

/-- **every reachable state satisfies the invariant** -/
theorem broadcast_reachable_inv (cfg : BC.Cfg) (w0 : World) (hcfg : CfgOK w0) (hfresh : w0.vitalsAlive = true)
    (t0 : Tape) (ops : List BC.BOp) (hops : ∀ op ∈ ops, BC.OpOK w0 op) :
    let s := (BC.runOps cfg { BC.init w0 with tape := t0 } ops).2
    s.rewards.isSome = true →
      s.w.WInv = true ∧ SFrame w0 s.w ∧ HealthC s.w ∧ BC.msgsOKb cfg s.w.n s.msgs = true ∧
      (∃ rv, s.recv = some rv ∧ BC.recvOKb cfg s.w.n rv = true) ∧
      (∃ r, s.rewards = some r ∧ BC.ledgerAllb s.w.n r = true) := by
  intro s hs
  have hI : BC.Inv cfg w0 s := BC.runOps_inv hcfg hfresh ops _ hops (Or.inr ⟨rfl, rfl⟩)
  rcases hI with hG | hG
  · obtain ⟨rv, hrv, hR⟩ := hG.recv
    obtain ⟨r, hr, hk⟩ := hG.led
    exact ⟨hG.x.inv, hG.x.frame, hG.x.alive, (BC.msgsOK_iff _ _ _).mpr hG.msgs,
      ⟨rv, hrv, (BC.recvOK_iff _ _ _).mpr hR⟩, ⟨r, hr, by simp [BC.ledgerAllb, hk]⟩⟩
  · rw [hG.2] at hs; cases hs

/-- reading of `msgsOKb`: every stored message lies in `[-1, 1]`, and exactly the broadcasters have one -/
theorem broadcast_messages_in_unit (cfg : BC.Cfg) (n : Nat) (msgs : List (Option Rat))
    (h : BC.msgsOKb cfg n msgs = true) (a : Aid) (ha : a < n) :
    (cfg.isB a = true → ∃ m, msgs.getD a none = some m ∧ -1 ≤ m ∧ m ≤ 1) ∧
    (cfg.isB a = false → msgs.getD a none = none) := by
  obtain ⟨_, h2⟩ := (BC.msgsOK_iff _ _ _).mp h
  refine ⟨fun hb => ?_, (h2 a ha).2⟩
  obtain ⟨m, hm, hu⟩ := (h2 a ha).1 hb
  exact ⟨m, hm, (BC.inUnit_iff m).mp hu⟩

/-! ## C02: observations -/

/-- **observations lie in the declared space, with exactly the declared keys** — in every state of the invariant
(`BC.Good`: what `broadcast_reachable_inv` gives), for every agent of the simulation and every tape -/
theorem broadcast_observations_in_space (cfg : BC.Cfg) (w0 : World) (s : BC.St) (hG : BC.Good cfg w0 s) (a : Aid)
    (ha : a < s.w.n) (henc : ∀ b < s.w.n, 0 < s.w.encOf b) (hammo : ∀ b < s.w.n, 0 ≤ (s.w.cfgOf b).initAmmo) :
    ∃ o s', BC.getObs cfg s a = .ok (o, s') ∧
      Ex.obsInSpace s.w a [.centered cfg.observeSelf] o.grid = true ∧
      (cfg.isB a = false → o.msg = none) ∧
      (cfg.isB a = true → ∃ slots rv rf, o.msg = some slots ∧ s.recv = some rv ∧ rv.lookup a = some rf ∧
        BC.slotsOK cfg s.w.n a rf slots = true) := by
  obtain ⟨g, t', _, hgrid, hno, hyes⟩ := BC.getObs_spec hG ha henc hammo
  cases hb : cfg.isB a with
  | false => exact ⟨_, _, hno hb, hgrid, (fun _ => rfl), (fun h => by cases h)⟩
  | true =>
    obtain ⟨rv, rf, own, hrv, hrf, _, _, hall, hget⟩ := hyes hb
    exact ⟨_, _, hget, hgrid, (fun h => by cases h),
      (fun _ => ⟨_, rv, rf, rfl, hrv, hrf, BC.slots_ok cfg _ a _ rf (BC.clamp_inUnit _) hall⟩)⟩

/-- **a read averages and resets**: a broadcaster's `get_obs` stores the clamped exact average of the pending messages
and its old message, empties its own receiving list and touches nothing else (world, rewards, the other agents' messages
and lists); so a second read finds an empty list -/
theorem broadcast_obs_reads_and_resets (cfg : BC.Cfg) (w0 : World) (s : BC.St) (hG : BC.Good cfg w0 s) (a : Aid)
    (ha : a < s.w.n) (hb : cfg.isB a = true) (henc : ∀ b < s.w.n, 0 < s.w.encOf b)
    (hammo : ∀ b < s.w.n, 0 ≤ (s.w.cfgOf b).initAmmo) :
    ∃ o s' rv rf own, BC.getObs cfg s a = .ok (o, s') ∧ s.recv = some rv ∧ rv.lookup a = some rf ∧
      s.msgs.getD a none = some own ∧
      s'.w = s.w ∧ s'.rewards = s.rewards ∧
      s'.msgs = s.msgs.set a (some (BC.clamp (BC.average (rf.map (·.2) ++ [own])))) ∧
      s'.recv = some (dictSet rv a []) := by
  obtain ⟨g, t', _, _, _, hyes⟩ := BC.getObs_spec hG ha henc hammo
  obtain ⟨rv, rf, own, hrv, hrf, hown, _, _, hget⟩ := hyes hb
  exact ⟨_, _, rv, rf, own, hget, hrv, hrf, hown, rfl, rfl, rfl, rfl⟩

/-! ## C02: actions -/

/-- **a step with in-space actions does not raise** under the configuration hypothesis -/
theorem broadcast_step_noRaise (cfg : BC.Cfg) (w0 : World) (hcfg : CfgOK w0) (s : BC.St) (hG : BC.Good cfg w0 s)
    (hH : BC.cfgHypb cfg s.w = true) (acts : List (Aid × BC.Act))
    (hA : ∀ x ∈ acts, BC.actInSpace cfg s.w x = true) : ∃ s', BC.step cfg s acts = .ok s' :=
  BC.step_returns hcfg hG hH hA

/-- **delivery, soundness half**: in a world of the invariant, for a broadcaster standing on the grid whose encoding is
a key of the mapping, `determine_broadcast` returns and every agent it returns is reached (`BC.reaches`) -/
theorem broadcast_delivery_partial (cfg : BC.Cfg) (w : World) (a : Aid) (l : List Int) (hI : w.WInv = true)
    (hl : cfg.mapping.lookup (w.encOf a) = some l) (hp : w.inGrid (w.stOf a).pos = true) :
    ∃ tos, BC.determine cfg w a = .ok tos ∧ ∀ b ∈ tos, BC.reaches cfg w a b = true :=
  ⟨_, BC.determine_eq hl hp, fun _ hb => BC.determine_sound hI hl hp (BC.determine_eq hl hp) hb⟩

/-- **delivery, completeness half**: every agent the broadcast reaches in the sense of the specification (`BC.reaches`:
in range, encoding allowed by the mapping, not hidden by a blocking agent per `Mask.hiddenSpec`, not the sender) IS in
the list `determine_broadcast` returns — the converse of `broadcast_delivery_partial` -/
theorem broadcast_delivery_complete (cfg : BC.Cfg) (w : World) (a : Aid) (l : List Int) (hI : w.WInv = true)
    (hl : cfg.mapping.lookup (w.encOf a) = some l) (hp : w.inGrid (w.stOf a).pos = true) :
    ∃ tos, BC.determine cfg w a = .ok tos ∧ ∀ b, BC.reaches cfg w a b = true → b ∈ tos :=
  ⟨_, BC.determine_eq_scan hl hp, fun _ hr => BC.determine_complete hI hl hp hr⟩

/-- **delivery, one scan**: `determine_broadcast` returns a list without repetitions whose members are EXACTLY the
agents the broadcast reaches -/
theorem broadcast_delivery (cfg : BC.Cfg) (w : World) (a : Aid) (l : List Int) (hI : w.WInv = true)
    (hl : cfg.mapping.lookup (w.encOf a) = some l) (hp : w.inGrid (w.stOf a).pos = true) :
    ∃ tos, BC.determine cfg w a = .ok tos ∧ tos.Nodup ∧ ∀ b, b ∈ tos ↔ BC.reaches cfg w a b = true :=
  ⟨_, BC.determine_eq_scan hl hp, BC.determine_nodup hI hp, BC.mem_scan_iff hI hl hp⟩

/-- **delivery, one step**: a `step` that returns appends to every receiving list exactly what the specification says
(`BC.recvAfter`: one entry `(sender, sender's message)` per item of the action dict, in its order, whose sender is a
broadcaster that chose to broadcast and reaches the receiver), and changes no message -/
theorem broadcast_delivery_step (cfg : BC.Cfg) (w0 : World) (s s' : BC.St) (hG : BC.Good cfg w0 s)
    (hH : BC.cfgHypb cfg s.w = true) (acts : List (Aid × BC.Act)) (h : BC.step cfg s acts = .ok s') :
    ∃ rv, s.recv = some rv ∧ s'.recv = some (BC.recvAfter cfg s.w s.msgs acts rv) ∧ s'.msgs = s.msgs :=
  BC.step_recv hG hH h

/-- **the `step` entry of the judge holds on the model's own run** (`broadcast_hist` for one `step`): in a state of the
invariant, on a configuration satisfying `cfgHypb`, for items for agents of the simulation with moves of the declared
spaces and ANY `broadcast` values, the clause `BC.judge1` of the judge for the call `step` — world invariant, frame,
everybody active, messages unchanged, `receiving_state` equal to `BC.recvAfter`, reward keys kept; and if the call raised,
then the "must not raise" precondition failed — is true of the entry the model produces -/
theorem broadcast_hist_step_partial (cfg : BC.Cfg) (w0 : World) (hcfg : CfgOK w0) (s : BC.St) (hG : BC.Good cfg w0 s)
    (hH : BC.cfgHypb cfg s.w = true) (acts : List (Aid × BC.Act)) (t : Tape) (hA : BC.ActsOK w0 acts) (res0 : BC.BRes) :
    BC.judge1 cfg w0 (BC.see res0 s) (.step acts t) (BC.runOp cfg s (.step acts t)).1 = true :=
  BC.judge1_step hcfg hG hH acts t hA res0

/-! ## C08 -/

/-- **`reset` forgets**: two objects of the same configuration — whatever messages, pending receiving lists, rewards,
cells and positions either has — whose worlds agree on what `PositionState` does not own (`Ex.SameBut`: health,
ammunition, orientation, which nothing in this class ever writes), reset under the same tape, end in the same state or
raise the same error -/
theorem broadcast_reset_forgets (cfg : BC.Cfg) (c : StateComp) (s1 s2 : BC.St) (hw : Ex.SameBut [c] s1.w s2.w)
    (ht : s1.tape = s2.tape) (hp : c.resetsPos = true) : BC.reset cfg c s1 = BC.reset cfg c s2 := by
  unfold BC.reset
  rw [Ex.comps_reset_forgets [c] s1.w s2.w s1.tape hw (by simp [hp]), ht]

/-- **used versus fresh**: if the reset returns, the trace of `reset` followed by ANY calls is the same on a used object
and on the newly built one (a reset that raises — no cell left — raises on both: `broadcast_reset_forgets`) -/
theorem broadcast_fresh_twin (cfg : BC.Cfg) (c : StateComp) (w0 : World) (used : BC.St)
    (hw : Ex.SameBut [c] used.w w0) (hp : c.resetsPos = true) (t : Tape) (follow : List BC.BOp)
    (hok : ∃ s', BC.reset cfg c { BC.init w0 with tape := t } = .ok s') :
    BC.runOps cfg used (.reset c t :: follow) = BC.runOps cfg (BC.init w0) (.reset c t :: follow) := by
  have h := broadcast_reset_forgets cfg c { used with tape := t } { BC.init w0 with tape := t } hw rfl hp
  obtain ⟨s', hs'⟩ := hok
  rw [hs'] at h
  simp only [BC.runOps, BC.runOp, h, hs']

/-! ## C02: the configuration hypothesis is needed; non-vacuity -/

/-- a broadcaster (encoding 1, range 1) at `(0, 0)` and a plain agent (encoding 2, no receiving list) at `(0, 1)` -/
def exBCWorld : World :=
  { rows := 1, cols := 2, overlap := [], cells := [[0], [1]],
    cfg := [{ enc := 1 }, { enc := 2 }], st := [{ pos := (0, 0) }, { pos := (0, 1) }] }

def exBCCfg (mapping : List (Int × List Int)) : BC.Cfg :=
  { bcast := [true, false], range := [1, 0], initMsg := [some (1/2), none], mapping := mapping, tol := 1/4 }

/-- the state after a reset: message 1/2, an empty receiving list, zero rewards -/
def exBCSt : BC.St :=
  { w := exBCWorld, msgs := [some (1/2), none], recv := some [(0, [])], rewards := some [(0, 0), (1, 0)] }

/-- the broadcaster broadcasts: a point of its action space `Dict(broadcast: Discrete(2))` -/
def exBCActs : List (Aid × BC.Act) := [(0, { broadcast := 1 })]

/-- **the configuration hypothesis `cfgHypb` is needed for "in-space actions are processed without exception"**: the
state satisfies every other clause of `BC.goodb`, the action is in space, and
* with the mapping `{1: [2]}` (the row allows the encoding of an agent that is not a `BroadcastingAgent`)
  `update_receipients` indexes `receiving_state` with that agent's id: `KeyError`;
* with the mapping `{}` (the broadcaster's encoding is not a key) `determine_broadcast` raises `KeyError` as soon as
  another agent stands on a visible cell of the window;
* with `{1: [1]}` (`cfgHypb` holds) the same step returns and delivers nothing. -/
theorem broadcast_cfgHyp_needed :
    (exBCWorld.WInv && BC.aliveb exBCWorld && BC.encPosb exBCWorld &&
      BC.msgsOKb (exBCCfg []) 2 exBCSt.msgs && BC.recvOKb (exBCCfg []) 2 [(0, [])] &&
      BC.ledgerAllb 2 [(0, 0), (1, 0)] && exBCActs.all (BC.actInSpace (exBCCfg []) exBCWorld)) = true ∧
    BC.cfgHypb (exBCCfg [(1, [2])]) exBCWorld = false ∧
    (match BC.step (exBCCfg [(1, [2])]) exBCSt exBCActs with | .error .keyError => true | _ => false) = true ∧
    BC.cfgHypb (exBCCfg []) exBCWorld = false ∧
    (match BC.step (exBCCfg []) exBCSt exBCActs with | .error .keyError => true | _ => false) = true ∧
    BC.cfgHypb (exBCCfg [(1, [1])]) exBCWorld = true ∧
    (match BC.step (exBCCfg [(1, [1])]) exBCSt exBCActs with
     | .ok s' => s'.recv == some [(0, [])] && s'.rewards == some [(0, -11), (1, 0)]
     | .error _ => false) = true := by
  refine ⟨by decide +kernel, by decide +kernel, by decide +kernel, by decide +kernel, by decide +kernel,
    by decide +kernel, by decide +kernel⟩

/-- two broadcasters in a row with a blocking wall between them, and a third broadcaster beside the first -/
def exBCWorld3 : World :=
  { rows := 1, cols := 4, overlap := [], cells := [[2], [0], [3], [1]],
    cfg := [{ enc := 1 }, { enc := 1 }, { enc := 1 }, { enc := 2, blocking := true }],
    st := [{ pos := (0, 1) }, { pos := (0, 3) }, { pos := (0, 0) }, { pos := (0, 2) }] }

def exBCCfg3 : BC.Cfg :=
  { bcast := [true, true, true, false], range := [3, 3, 3, 0], initMsg := [none, none, none, none],
    mapping := [(1, [1])], tol := 1/4 }

def exBCSt3 : BC.St :=
  { w := exBCWorld3, msgs := [some 1, some (-1), some (1/2), none], recv := some [(0, []), (1, []), (2, [])],
    rewards := some [(0, 0), (1, 0), (2, 0), (3, 0)] }

/-- non-vacuity of the delivery clause and of the observation theorems: agent 0 broadcasts; the wall at `(0, 2)` hides
agent 1 at `(0, 3)`, agent 2 at `(0, 0)` is reached (`BC.reaches`, the specification, and the model's scan agree); agent 2
then reads: its slot for agent 0 carries entry 0, its own message becomes `(1 + 1/2)/2 = 3/4`, the list is emptied; a
second read shows zero in the foreign slots and the same message. -/
example :
    BC.cfgHypb exBCCfg3 exBCWorld3 = true ∧
    BC.reaches exBCCfg3 exBCWorld3 0 2 = true ∧ BC.reaches exBCCfg3 exBCWorld3 0 1 = false ∧
    (match BC.step exBCCfg3 exBCSt3 [(0, { broadcast := 1 })] with
     | .ok s' =>
       (s'.recv == some (BC.recvAfter exBCCfg3 exBCWorld3 exBCSt3.msgs [(0, { broadcast := 1 })]
                          [(0, []), (1, []), (2, [])])) &&
       (s'.recv == some [(0, []), (1, []), (2, [(0, 1)])]) &&
       (match BC.getObs exBCCfg3 s' 2 with
        | .ok (o, s'') =>
          (o.msg == some [(0, [.entry 0], 1), (1, [.zero], 0), (2, [.own], 3/4)]) &&
          (s''.msgs == [some 1, some (-1), some (3/4), none]) && (s''.recv == some [(0, []), (1, []), (2, [])]) &&
          (match BC.getObs exBCCfg3 s'' 2 with
           | .ok (o2, _) => o2.msg == some [(0, [.zero], 0), (1, [.zero], 0), (2, [.own], 3/4)]
           | .error _ => false)
        | .error _ => false)
     | .error _ => false) = true := by
  refine ⟨by decide +kernel, by decide +kernel, by decide +kernel, by decide +kernel⟩

/-- the hypotheses of `broadcast_reachable_inv` are inhabited: a covered reset and a step on this world -/
example : cfgOKb exBCWorld3 = true ∧ exBCWorld3.vitalsAlive = true ∧
    BC.compOKb exBCWorld3 (.position .position {}) = true := by
  refine ⟨by decide +kernel, by decide +kernel, by decide +kernel⟩

/-- non-vacuity of `broadcast_delivery` on the world with the blocker: the hypotheses hold for sender 0, the scan
returns exactly `[2]` (agent 1 is behind the wall, agent 3 is the wall: its encoding is not allowed), and `BC.reaches`
says the same of every agent -/
example :
    exBCWorld3.WInv = true ∧ exBCCfg3.mapping.lookup (exBCWorld3.encOf 0) = some [1] ∧
    exBCWorld3.inGrid (exBCWorld3.stOf 0).pos = true ∧
    (match BC.determine exBCCfg3 exBCWorld3 0 with | .ok tos => tos == [2] | .error _ => false) = true ∧
    (List.range 4).map (BC.reaches exBCCfg3 exBCWorld3 0) = [false, false, true, false] := by
  refine ⟨by decide +kernel, by decide +kernel, by decide +kernel, by decide +kernel, by decide +kernel⟩

end Abmarl
