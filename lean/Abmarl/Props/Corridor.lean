import Abmarl.Props.C07
import Abmarl.Lemmas.Corridor
import Abmarl.Lemmas.ExamplesReset
/-!
# `MultiCorridor` as an instance of the general theorems (C01, C02, C03-style invariant, C07, C08)

Model: `Model/Corridor.lean` (transcribed from `abmarl/examples/sim/multi_corridor.py`), tied to the
real class by the driver ops `gexample` (direct calls, configuration `(corridor end n)`) and `mgrx`
(real managers over the real object).  Every theorem is for **every** corridor length `end`, every
number of agents, every tape and every history — histories of direct calls may contain ANY action
dicts (unknown agents, agents that are already done, values outside `Discrete(3)`) and calls that
raise.

* **invariant** `corridor_reachable_inv`, `corridor_simIface_reachable`, reading
  `corridor_inv_reading`: in every reachable state every position is within `0 .. end-1`, the agents
  that are not done stand on pairwise different cells, and a corridor cell stores exactly the agent
  that is not done and stands there;
* **C02** `corridor_observations_in_space` (every observation of every agent in every reachable state
  is in `Dict(position: Box(0, end-1, (1,), int), left: MultiBinary(1), right: MultiBinary(1))`),
  `corridor_step_noRaise` (a step whose items are for distinct agents that are not done does not
  raise, whatever the action values);
* **C01 / C07** `Cor.cor_lawful`, `Cor.cor_WF`, `C01_MultiCorridor`, `C07_MultiCorridor`,
  `C07_MultiCorridor_every_call_returns`;
* **C08** `corridor_reset_forgets` (the state after `reset` is a function of configuration and tape),
  `corridor_fresh_twin` (used versus fresh under every manager — no hypothesis on the used object);
* **the judge** `corridor_hist`: the model's own trace satisfies `Cor.specCor`, for every history.
-/
namespace Abmarl
open Cor

/-! ## C01, C07 -/

theorem C01_MultiCorridor (cfg : Cor.Cfg) (k : MKind) (hk : k ≠ .dynamic) (hl : k = .turnBased → 0 < cfg.n)
    (m0 : MState Cor.St) (ops : List (Op Int)) :
    specC01 k cfg.n (fun _ => true) m0.shuffle (runOps (Cor.toSimIface cfg) k m0 ops) = true :=
  C01_managers_honour_done_protocol (Cor.toSimIface cfg) k (Cor.cor_WF cfg k hk hl) m0 ops

theorem C07_MultiCorridor (cfg : Cor.Cfg) (k : MKind) (hk : k ≠ .dynamic) (hl : k = .turnBased → 0 < cfg.n)
    (m0 : MState Cor.St) (ops : List (Op Int)) :
    specC07 k cfg.n (fun _ => true) (runOps (Cor.toSimIface cfg) k m0 ops) = true :=
  C07_fair_turns_and_progress (Cor.toSimIface cfg) k (Cor.cor_WF cfg k hk hl) m0 ops

theorem C07_MultiCorridor_every_call_returns (cfg : Cor.Cfg) (k : MKind) (hk : k ≠ .dynamic)
    (hl : k = .turnBased → 0 < cfg.n) (m0 : MState Cor.St) (ops : List (Op Int)) (i : Nat)
    (e : Entry Int Cor.ObsOut Unit) (hi : (runOps (Cor.toSimIface cfg) k m0 ops)[i]? = some e)
    (hp : ProtocolOK {} (runOps (Cor.toSimIface cfg) k m0 ops) i) :
    ∀ er, e.res = .err er → er = .rejected :=
  C07_every_call_returns (Cor.toSimIface cfg) k (Cor.cor_WF cfg k hk hl) m0 ops i e hi hp

/-! ## The invariant of every reachable state -/

/-- once the object has been reset, the invariant holds -/
def Cor.Good (cfg : Cor.Cfg) (s : Cor.St) : Prop := ∀ d, s.dyn = some d → Cor.Inv cfg d

theorem Cor.step_good {cfg : Cor.Cfg} {s : Cor.St} (h : Cor.Good cfg s) (acts : List (Aid × Int)) :
    Cor.Good cfg (Cor.step cfg s acts).1 := by
  intro d hd
  unfold Cor.step at hd
  cases hs : s.dyn with
  | none => rw [hs] at hd; simp only at hd; rw [hs] at hd; cases hd
  | some d0 =>
    rw [hs] at hd
    simp only [Option.some.injEq] at hd
    rw [← hd]
    exact Cor.stepLoop_inv acts (h d0 hs)

theorem Cor.reset_good {cfg : Cor.Cfg} {s s' : Cor.St} (h : Cor.reset cfg s = .ok s') : Cor.Good cfg s' := by
  obtain ⟨d, hd, hI, _, _⟩ := Cor.reset_inv h
  intro d' hd'
  rw [hd] at hd'
  cases hd'
  exact hI

theorem Cor.runOp_good {cfg : Cor.Cfg} {s : Cor.St} (h : Cor.Good cfg s) (op : Cor.COp) :
    Cor.Good cfg (Cor.runOp cfg s op).2 := by
  cases op with
  | reset tape =>
    simp only [Cor.runOp]
    cases hr : Cor.reset cfg { s with tape := tape } with
    | error e => exact h
    | ok s' => exact Cor.reset_good hr
  | step acts => exact Cor.step_good h acts
  | obs a => exact h
  | rew a =>
    simp only [Cor.runOp]
    cases hr : Cor.getReward cfg s a with
    | error e => exact h
    | ok r =>
      obtain ⟨x, s'⟩ := r
      obtain ⟨d, hd, _, _, rfl⟩ := Cor.getReward_shape hr
      intro d' hd'
      simp only [Option.some.injEq] at hd'
      rw [← hd']
      exact (h d hd).withRew (by simp)
  | done a => exact h
  | allDone => exact h

theorem Cor.runOps_good {cfg : Cor.Cfg} (ops : List Cor.COp) : ∀ {s : Cor.St}, Cor.Good cfg s →
    Cor.Good cfg (Cor.runOps cfg s ops).2 := by
  induction ops with
  | nil => intro s h; exact h
  | cons op ops ih => intro s h; exact ih (Cor.runOp_good h op)

/-- **(a) every reachable state satisfies the invariant**: from the constructed object, after ANY
history of resets (any tapes), steps (ANY action dicts: unknown agents, agents already done, values
outside the action space; also steps that raise), observations, reward reads and done queries — once
the object has been reset successfully, the invariant `Cor.Inv` holds. -/
theorem corridor_reachable_inv (cfg : Cor.Cfg) (t0 : Tape) (ops : List Cor.COp) :
    ∀ d, (Cor.runOps cfg { tape := t0 } ops).2.dyn = some d → Cor.Inv cfg d :=
  Cor.runOps_good ops (fun d hd => by cases hd)

/-- **what the invariant says**: every position is within `0 .. end-1`; two agents that are not done do
not share a cell; a corridor cell stores `a` exactly when `a` is an agent that is not done and stands
there (so the corridor holds exactly the agents that are not done, at exactly their positions) -/
theorem corridor_inv_reading {cfg : Cor.Cfg} {d : Cor.Dyn} (h : Cor.Inv cfg d) :
    (∀ a < cfg.n, d.pos.getD a 0 ≤ cfg.endp - 1) ∧
    (∀ a < cfg.n, ∀ b < cfg.n, Cor.doneOf cfg d a = false → Cor.doneOf cfg d b = false →
      d.pos.getD a 0 = d.pos.getD b 0 → a = b) ∧
    (∀ q < cfg.endp, ∀ a, d.cor.getD q none = some a ↔
      (a < cfg.n ∧ d.pos.getD a 0 = q ∧ Cor.doneOf cfg d a = false)) := by
  refine ⟨?_, ?_, ?_⟩
  · intro a ha
    have := h.inb a ha
    omega
  · intro a ha b hb hda hdb hab
    have hda' : d.pos.getD a 0 + 1 ≠ cfg.endp := by simpa [Cor.doneOf] using hda
    have hdb' : d.pos.getD b 0 + 1 ≠ cfg.endp := by simpa [Cor.doneOf] using hdb
    have h1 := (h.cor _ (h.inb a ha) a ha).mpr ⟨rfl, hda'⟩
    have h2 := (h.cor _ (h.inb b hb) b hb).mpr ⟨rfl, hdb'⟩
    rw [hab, h2] at h1
    exact (Option.some.inj h1).symm
  · intro q hq a
    constructor
    · intro hc
      have ha := h.own q hq a hc
      obtain ⟨h1, h2⟩ := (h.cor q hq a ha).mp hc
      refine ⟨ha, h1, ?_⟩
      simp only [Cor.doneOf, decide_eq_false_iff_not, h1]
      exact h2
    · rintro ⟨ha, h1, h2⟩
      have h2' : d.pos.getD a 0 + 1 ≠ cfg.endp := by simpa [Cor.doneOf] using h2
      exact (h.cor q hq a ha).mpr ⟨h1, by rw [← h1]; exact h2'⟩

/-- the states a manager can drive the `SimIface` instance into -/
inductive Cor.Reach (cfg : Cor.Cfg) : Cor.St → Prop where
  | init (t : Tape) : Cor.Reach cfg { tape := t }
  | reset {s} : Cor.Reach cfg s → Cor.Reach cfg ((Cor.toSimIface cfg).reset s)
  | step {s} (acts) : Cor.Reach cfg s → Cor.Reach cfg ((Cor.toSimIface cfg).step s acts)
  | obs {s} (a) : Cor.Reach cfg s → Cor.Reach cfg ((Cor.toSimIface cfg).obs s a).2
  | reward {s} (a) : Cor.Reach cfg s → Cor.Reach cfg ((Cor.toSimIface cfg).reward s a).2

/-- every state the managers can reach satisfies the invariant (once reset) -/
theorem corridor_simIface_reachable (cfg : Cor.Cfg) {s : Cor.St} (h : Cor.Reach cfg s) : Cor.Good cfg s := by
  induction h with
  | init t => intro d hd; cases hd
  | @reset s _ ih =>
    simp only [Cor.toSimIface]
    cases hr : Cor.reset cfg s with
    | error e => exact ih
    | ok s' => exact Cor.reset_good hr
  | @step s acts _ ih => exact Cor.step_good ih acts
  | @obs s a _ ih => exact ih
  | @reward s a _ ih =>
    have := Cor.runOp_good ih (.rew a)
    simp only [Cor.runOp] at this
    simp only [Cor.toSimIface]
    cases hr : Cor.getReward cfg s a with
    | error e => exact ih
    | ok r => obtain ⟨x, s'⟩ := r; simpa [hr] using this

/-! ## C02 -/

theorem Cor.obsOf_inSpace {cfg : Cor.Cfg} {d : Cor.Dyn} (h : Cor.Inv cfg d) {a : Aid} (ha : a < cfg.n) :
    Cor.obsInSpace cfg (Cor.obsOf cfg d a) = true := by
  have := h.inb a ha
  simp only [Cor.obsInSpace, Cor.obsOf, Bool.and_true, decide_eq_true_eq]
  exact decide_eq_true (by omega : d.pos.getD a 0 + 1 ≤ cfg.endp)

/-- **(b) observations lie in the declared space**: in every reachable state (after a successful
reset), for every agent of the simulation — done or not — `get_obs` returns and the position entry is a
point of `Box(0, end-1, (1,), int)`; `left` and `right` are single bits, members of `MultiBinary(1)` by
their type. -/
theorem corridor_observations_in_space (cfg : Cor.Cfg) (t0 : Tape) (ops : List Cor.COp) (a : Aid)
    (ha : a < cfg.n) :
    let s := (Cor.runOps cfg { tape := t0 } ops).2
    s.dyn.isSome = true → ∃ o, Cor.getObs cfg s a = .ok o ∧ Cor.obsInSpace cfg o = true := by
  intro s hs
  cases hd : s.dyn with
  | none => rw [hd] at hs; cases hs
  | some d =>
    have hI := corridor_reachable_inv cfg t0 ops d hd
    have hn : ¬ cfg.n ≤ a := Nat.not_le.mpr ha
    exact ⟨Cor.obsOf cfg d a, by simp [Cor.getObs, hn, hd], Cor.obsOf_inSpace hI ha⟩

/-- **(c) a step with actions of agents that are not done never raises** (C02: "every action drawn
from an agent's declared action space is accepted and processed without error"): in every reachable
state, for every action dict whose keys are distinct agents of the simulation none of which is done —
whatever the action values — `step` returns normally.  (The managers hand on nothing else: C01.) -/
theorem corridor_step_noRaise (cfg : Cor.Cfg) (t0 : Tape) (ops : List Cor.COp) (acts : List (Aid × Int))
    (hnd : (acts.map (·.1)).Nodup) :
    let s := (Cor.runOps cfg { tape := t0 } ops).2
    ∀ d, s.dyn = some d → (∀ x ∈ acts, x.1 < cfg.n ∧ Cor.doneOf cfg d x.1 = false) →
      (Cor.step cfg s acts).2 = none := by
  intro s d hd hall
  have hI := corridor_reachable_inv cfg t0 ops d hd
  simp only [Cor.step, hd]
  exact Cor.stepLoop_ok acts hI hnd hall

/-- … while an item for an agent that IS done may raise: `RIGHT` reads `self.corridor[end]`
(`IndexError`) — the reason why the hypothesis "not done" of `corridor_step_noRaise` cannot be dropped -/
theorem corridor_done_agent_right_raises {cfg : Cor.Cfg} {d : Cor.Dyn} (h : Cor.Inv cfg d) {a : Aid}
    (ha : a < cfg.n) (hd : Cor.doneOf cfg d a = true) : Cor.step1 cfg d (a, 2) = .error .badIndex := by
  have hp : d.pos.getD a 0 + 1 = cfg.endp := by simpa [Cor.doneOf] using hd
  have hn : ¬ cfg.n ≤ a := Nat.not_le.mpr ha
  have hl : d.cor.length ≤ d.pos.getD a 0 + 1 := by rw [h.lc, hp]
  have h20 : ¬ ((2 : Int) = 0) := by decide
  unfold Cor.step1
  simp only [hn, if_false, h20, if_true, hl]

/-! ## C08 -/

/-- **(e) `reset` forgets** -/
theorem corridor_reset_forgets (cfg : Cor.Cfg) (s1 s2 : Cor.St) (ht : s1.tape = s2.tape) :
    Cor.reset cfg s1 = Cor.reset cfg s2 :=
  Cor.reset_forgets cfg s1 s2 ht

/-- … and what it leaves is determined by configuration and tape: every reward 0, nobody done, the
invariant -/
theorem corridor_reset_fresh (cfg : Cor.Cfg) (s s' : Cor.St) (h : Cor.reset cfg s = .ok s') :
    ∃ d, s'.dyn = some d ∧ Cor.Inv cfg d ∧ d.rew = List.replicate cfg.n 0 ∧
      ∀ a < cfg.n, Cor.doneOf cfg d a = false :=
  Cor.reset_inv h

/-- **C08, used versus fresh twin, under every manager**: a manager whose `MultiCorridor` went through
anything (`m1`) and a manager over a newly built one (`m2`), same kind, same `randomize_action_input`,
same seeds: if the reset returns, the episode after it — any follow-up history — has the same trace on
both.  No hypothesis on the used object. -/
theorem corridor_fresh_twin (cfg : Cor.Cfg) (k : MKind) (hl : k = .turnBased → 0 < cfg.n)
    (m1 m2 : MState Cor.St) (hseed : m1.sim.tape = m2.sim.tape)
    (hok : ∃ s', Cor.reset cfg m2.sim = .ok s') (hsh : m1.shuffle = m2.shuffle) (ht : m1.tape = m2.tape)
    (follow : List (Op Int)) :
    runOps (Cor.toSimIface cfg) k m1 (.reset :: follow) = runOps (Cor.toSimIface cfg) k m2 (.reset :: follow) := by
  apply runOps_reset_eq_of (Cor.toSimIface cfg) k ?_ m1 m2 ?_ hsh ht
  · intro hk he
    have : 0 ∈ (Cor.toSimIface cfg).learners := (mem_learners _ 0).mpr ⟨hl hk, rfl⟩
    rw [he] at this; cases this
  · obtain ⟨s', hs'⟩ := hok
    have := Cor.reset_forgets cfg m1.sim m2.sim hseed
    simp only [Cor.toSimIface, this, hs']

/-! ## The judge the driver evaluates -/

theorem Cor.reset_error {cfg : Cor.Cfg} {s : Cor.St} {e : GErr} (h : Cor.reset cfg s = .error e) :
    Cor.cfgOKb cfg = false := by
  unfold Cor.reset at h
  unfold Cor.cfgOKb
  by_cases h1 : cfg.endp ≤ 1
  · have : ¬ 2 ≤ cfg.endp := by omega
    simp [this]
  · simp only [h1, if_false] at h
    by_cases h2 : cfg.endp - 1 < cfg.n
    · have : ¬ cfg.n ≤ cfg.endp - 1 := by omega
      simp [this]
    · simp [h2] at h

theorem Cor.dumpOK_of_good {cfg : Cor.Cfg} {s : Cor.St} (h : Cor.Good cfg s) : Cor.dumpOK cfg s.dyn = true := by
  cases hd : s.dyn with
  | none => rfl
  | some d => exact (Cor.invb_iff cfg d).mpr (h d hd)

theorem Cor.frameb_loop {cfg : Cor.Cfg} {d : Cor.Dyn} (h : Cor.Inv cfg d) (acts : List (Aid × Int)) :
    Cor.frameb cfg d (Cor.stepLoop cfg d acts).1 acts = true := by
  simp only [Cor.frameb, List.all_eq_true, List.mem_range, Bool.or_eq_true, List.contains_iff_mem, beq_iff_eq]
  intro b _
  by_cases hb : b ∈ acts.map (·.1)
  · exact Or.inl hb
  · exact Or.inr (Cor.stepLoop_frame acts h b hb)

theorem Cor.judge1_model {cfg : Cor.Cfg} {s : Cor.St} (h : Cor.Good cfg s) (op : Cor.COp) :
    Cor.judge1 cfg s.dyn op (Cor.runOp cfg s op).1 = true ∧ (Cor.runOp cfg s op).1.dyn = (Cor.runOp cfg s op).2.dyn := by
  have hg' := Cor.runOp_good h op
  cases op with
  | reset tape =>
    simp only [Cor.runOp] at hg' ⊢
    cases hr : Cor.reset cfg { s with tape := tape } with
    | error e =>
      simp only [Cor.judge1, Cor.dumpOK_of_good h, Cor.reset_error hr, Bool.true_and, Bool.not_false, beq_self_eq_true,
        and_self]
    | ok s' =>
      obtain ⟨h2, hn, _⟩ := Cor.reset_shape hr
      obtain ⟨d, hd, hI, hrew, hnd⟩ := Cor.reset_inv hr
      have hok : Cor.cfgOKb cfg = true := by simp [Cor.cfgOKb, h2, hn]
      have hdump : Cor.dumpOK cfg (some d) = true := (Cor.invb_iff cfg d).mpr hI
      simp only [Cor.judge1, hdump, hok, hd, Bool.true_and, and_true, Bool.and_eq_true, List.all_eq_true,
        List.mem_range, Bool.not_eq_true', beq_iff_eq]
      refine ⟨?_, hnd⟩
      intro x hx
      rw [hrew] at hx
      exact (List.mem_replicate.mp hx).2
  | step acts =>
    simp only [Cor.runOp, and_true]
    have hdump := Cor.dumpOK_of_good (Cor.step_good h acts)
    simp only [Cor.judge1, hdump, Bool.true_and]
    cases hs : s.dyn with
    | none =>
      simp only [Cor.step, hs]
      cases Cor.stepPre cfg acts <;> simp [hs]
    | some d =>
      have hI := h d hs
      simp only [Cor.step, hs]
      cases hr : (Cor.stepLoop cfg d acts).2 with
      | none => simp only [Cor.frameb_loop hI acts]
      | some e =>
        simp only [Cor.frameb_loop hI acts, Bool.and_true, Bool.not_eq_true']
        cases hm : Cor.stepMustNotRaise cfg d acts with
        | false => rfl
        | true =>
          exfalso
          simp only [Cor.stepMustNotRaise, Cor.keysNodup, Bool.and_eq_true, decide_eq_true_eq, List.all_eq_true,
            Bool.not_eq_true'] at hm
          have := Cor.stepLoop_ok acts hI hm.1.2 (fun x hx => hm.2 x hx)
          rw [this] at hr
          cases hr
  | obs a =>
    simp only [Cor.runOp, and_true]
    simp only [Cor.judge1, Cor.dumpOK_of_good h, beq_self_eq_true, Bool.true_and]
    unfold Cor.getObs
    by_cases hn : cfg.n ≤ a
    · simp only [hn, if_true]
      cases s.dyn <;> simp [hn]
    · simp only [hn, if_false]
      cases hs : s.dyn with
      | none => rfl
      | some d =>
        have ha : a < cfg.n := Nat.lt_of_not_le hn
        simp [ha, Cor.obsOf_inSpace (h d hs) ha]
  | rew a =>
    simp only [Cor.runOp]
    cases hr : Cor.getReward cfg s a with
    | error e =>
      simp only [Cor.judge1, Cor.dumpOK_of_good h, beq_self_eq_true, Bool.true_and, and_true]
      unfold Cor.getReward at hr
      cases hs : s.dyn with
      | none => rfl
      | some d =>
        rw [hs] at hr
        simp only at hr
        by_cases hn : cfg.n ≤ a
        · simp [hn]
        · simp [hn] at hr
    | ok r =>
      obtain ⟨x, s'⟩ := r
      obtain ⟨d, hd, ha, hx, rfl⟩ := Cor.getReward_shape hr
      have hI : Cor.Inv cfg { d with rew := d.rew.set a 0 } := (h d hd).withRew (by simp)
      simp [Cor.judge1, Cor.dumpOK, (Cor.invb_iff cfg _).mpr hI, hd, ha, hx]
  | done a =>
    simp only [Cor.runOp, and_true]
    simp only [Cor.judge1, Cor.dumpOK_of_good h, beq_self_eq_true, Bool.true_and, beq_iff_eq]
    rfl
  | allDone =>
    simp only [Cor.runOp, and_true]
    simp only [Cor.judge1, Cor.dumpOK_of_good h, beq_self_eq_true, Bool.true_and, beq_iff_eq]
    rfl

theorem Cor.specFrom_model {cfg : Cor.Cfg} (ops : List Cor.COp) : ∀ {s : Cor.St}, Cor.Good cfg s →
    Cor.specFrom cfg s.dyn (Cor.zipOps ops (Cor.runOps cfg s ops).1) = true := by
  induction ops with
  | nil => intro s _; rfl
  | cons op ops ih =>
    intro s h
    obtain ⟨hj, hd⟩ := Cor.judge1_model h op
    simp only [Cor.runOps, Cor.zipOps, Cor.specFrom, hj, Bool.true_and]
    rw [hd]
    exact ih (Cor.runOp_good h op)

/-- **the form the judge evaluates**: for every configuration, tape and history — ANY history, no
hypothesis — the model's own trace satisfies `specCor`: every dump satisfies the invariant (also after
a call that raised), `reset` leaves zero rewards and nobody done and raises exactly for a
configuration without placement, `step` moves only agents that have an item and does not raise when
the items are for distinct agents that are not done, every observation is in the declared space and
says what the dump says, `get_obs` / `get_done` / `get_all_done` change nothing, `get_reward` is
read-and-reset. -/
theorem corridor_hist (cfg : Cor.Cfg) (t0 : Tape) (ops : List Cor.COp) :
    Cor.specCor cfg (Cor.zipOps ops (Cor.runOps cfg { tape := t0 } ops).1) = true :=
  Cor.specFrom_model ops (s := { tape := t0 }) (fun d hd => by cases hd)

/-! ## Non-vacuity: a concrete history with a bump, a finish, a revival and an exception -/

def exCorCfg : Cor.Cfg := { endp := 4, n := 2 }

/-- reset (tape `[2, 0]`: agent 0 on cell 2, agent 1 on cell 0); agent 1 moves right twice — the second
time it bumps into agent 0 (−5 / −2); agent 0 reaches the end (+16); it is done; `RIGHT` for the done
agent raises `IndexError` after agent 1's `STAY` was processed; `LEFT` walks it back (not done any
more); reward reads; a second episode -/
def exCorOps : List Cor.COp :=
  [.reset [2, 0], .step [(1, 2)], .step [(1, 2)], .rew 1, .rew 1, .step [(0, 2)], .done 0, .allDone, .obs 0,
   .step [(1, 1), (0, 2)], .step [(0, 0)], .done 0, .rew 0, .obs 1, .reset [0, 0], .allDone]

example :
    ((Cor.runOps exCorCfg {} exCorOps).1.map (·.res)) =
      [.unit, .unit, .unit, .int (-6), .int 0, .unit, .bool true, .bool false,
       .obs { position := 3, left := false, right := false },
       .err .badIndex, .unit, .bool false, .int 13, .obs { position := 1, left := false, right := true },
       .unit, .bool false] := by
  decide +kernel

/-- the state reached after the first eleven calls: a concrete reachable state meeting the hypotheses of
`corridor_inv_reading`, `corridor_observations_in_space`, `corridor_step_noRaise` -/
example :
    (Cor.runOps exCorCfg {} (exCorOps.take 11)).2.dyn =
      some { pos := [2, 1], cor := [none, some 1, some 0, none], rew := [13, -1] } := by
  decide +kernel

example : Cor.specCor exCorCfg (Cor.zipOps exCorOps (Cor.runOps exCorCfg {} exCorOps).1) = true :=
  corridor_hist _ _ _

/-- the judge rejects a trace in which the bump penalty of the offended agent went to the offender -/
example :
    let tr := (Cor.runOps exCorCfg {} exCorOps).1
    Cor.specCor exCorCfg (Cor.zipOps exCorOps
      (tr.modify 3 fun e => { e with res := .int (-8) })) = false := by
  decide +kernel

/-- a step for two agents that are not done does not raise (instance of `corridor_step_noRaise`) -/
example : (Cor.step exCorCfg (Cor.runOps exCorCfg {} (exCorOps.take 11)).2 [(0, 2), (1, 2)]).2 = none :=
  corridor_step_noRaise exCorCfg [] (exCorOps.take 11) [(0, 2), (1, 2)] (by decide)
    { pos := [2, 1], cor := [none, some 1, some 0, none], rew := [13, -1] } (by decide +kernel) (by decide +kernel)

/-- `RIGHT` for a done agent raises (instance of `corridor_done_agent_right_raises`) -/
example : Cor.step1 exCorCfg { pos := [3, 1], cor := [none, some 1, none, none], rew := [0, 0] } (0, 2) =
    .error .badIndex := by decide +kernel

/-- used versus fresh: the reset of the used object equals the reset of a new one (same tape) -/
example : Cor.reset exCorCfg { (Cor.runOps exCorCfg {} (exCorOps.take 11)).2 with tape := [1, 1] } =
    Cor.reset exCorCfg { tape := [1, 1] } :=
  corridor_reset_forgets _ _ _ rfl

example : ∃ s', Cor.reset exCorCfg { tape := [1, 1] } = .ok s' := ⟨_, rfl⟩

/-- the hypotheses of the manager theorems are inhabited: `C01_MultiCorridor` on a turn-based run -/
example : specC01 .turnBased 2 (fun _ => true) false
    (runOps (Cor.toSimIface exCorCfg) .turnBased (mgrInit ({ tape := [2, 0] } : Cor.St) false [])
      [.reset, .step [(0, 2)], .step [(1, 2)]]) = true :=
  C01_MultiCorridor exCorCfg .turnBased (by decide) (fun _ => by decide)
    (mgrInit ({ tape := [2, 0] } : Cor.St) false []) [.reset, .step [(0, 2)], .step [(1, 2)]]

end Abmarl
