import Abmarl.Lemmas.GridInv
import Abmarl.Lemmas.Vitals
import Abmarl.Model.Resets
import Abmarl.Props.C12
import Abmarl.Props.C11
import Abmarl.Props.C13
/-!
# C03 — Grid contents, agent positions and agent vitals stay mutually consistent

The invariant is `World.WInv` (Spec/Grid.lean): every cell holds only real, active agents whose
position is that cell, each once, pairwise allowed to overlap (the table is symmetric); every active
agent is stored in the cell of its in-grid position; `0 ≤ health ≤ 1`; `active ↔ health > 0`;
`ammo ≥ 0` (and never above the initial ammunition); orientation one of the four directions.

This file collects the preservation theorems, one per operation family, and lifts them to every
reachable state by induction over operation sequences:

* `C03_moves_preserve` — the three move actors (any action of the action space, any active agent);
* attacks and resets: see the sections below (imported from the C11 / C13 work).
-/
namespace Abmarl
open World

/-- the invariant follows from the C12 specification of a move call -/
theorem WInv_of_specC12 {w : World} {c : MoveCall} {o : Except GErr MoveOut} (hI : w.WInv = true)
    (ha : c.agent < w.n) (hact : (w.stOf c.agent).active = true) (hsp : c.inSpace w = true)
    (hs : specC12 w c o = true) : specC03Move w o = true := by
  have hst_len : c.agent < w.st.length := (placed_of_WInv hI ha hact).aSt
  simp only [specC03Move, hI, Bool.not_true, Bool.false_or]
  cases o with
  | error e => cases c <;> simp [specC12] at hs
  | ok out =>
    simp only
    cases c with
    | move a d =>
      simp only [MoveCall.agent] at ha hact
      by_cases hmv : (w.cfgOf a).moving = true
      · simp only [specC12, hmv, if_true] at hs
        cases hr : out.ret with
        | none => simp [hr] at hs
        | some ok => rw [hr] at hs; exact move_preserves_WInv hI ha hact hs
      · simp only [specC12, hmv, Bool.false_eq_true, if_false, Bool.and_eq_true, beq_iff_eq] at hs
        rw [hs.2]; exact hI
    | cross a x =>
      simp only [MoveCall.agent] at ha hact
      by_cases hmv : (w.cfgOf a).moving = true
      · simp only [specC12, hmv, if_true] at hs
        cases hd : crossTable x with
        | none => simp [hd] at hs
        | some d =>
          cases hr : out.ret with
          | none => simp [hd, hr] at hs
          | some ok => rw [hd, hr] at hs; exact move_preserves_WInv hI ha hact hs
      · simp only [specC12, hmv, Bool.false_eq_true, if_false, Bool.and_eq_true, beq_iff_eq] at hs
        rw [hs.2]; exact hI
    | drift a x =>
      simp only [MoveCall.agent] at ha hact hst_len
      simp only [MoveCall.inSpace, Bool.and_eq_true, decide_eq_true_eq] at hsp
      simp only [specC12, specDrift] at hs
      by_cases hsup : ((w.cfgOf a).moving && (w.cfgOf a).hasOrient) = true
      · rw [if_pos hsup] at hs
        cases hd : crossTable x with
        | none => simp [hd] at hs
        | some d =>
          cases hr : out.ret with
          | none => simp [hd, hr] at hs
          | some ok =>
            rw [hd, hr] at hs
            simp only at hs
            by_cases hnew : (x != 0 && w.destFree a d) = true
            · rw [if_pos hnew] at hs
              simp only [Bool.and_eq_true, beq_iff_eq] at hs
              obtain ⟨⟨_, horient⟩, hmove⟩ := hs
              -- the world with the old orientation restored satisfies the move specification …
              have hW := move_preserves_WInv hI ha hact hmove
              -- … and the outcome is that world with the new orientation
              have hlen' : a < out.post.st.length := by
                have hstat := (specMoveBy_reading hmove).2.1
                simp only [sameStatic, Bool.and_eq_true, beq_iff_eq, setSt, List.length_set] at hstat
                rw [← hstat.2]; exact hst_len
              have hback := setSt_back (w1 := out.post) (a := a) (w.stOf a).orient x.toNat hlen' horient
              have hx : 1 ≤ x.toNat ∧ x.toNat ≤ 4 := by
                simp only [Bool.and_eq_true, bne_iff_ne, ne_eq] at hnew
                omega
              have hn : a < (out.post.setSt a { out.post.stOf a with orient := (w.stOf a).orient }).n := by
                have hstat := (specMoveBy_reading hmove).2.1
                simp only [sameStatic, Bool.and_eq_true, beq_iff_eq] at hstat
                simp only [n, ← hstat.1.1.2]; exact ha
              have := orient_preserves_WInv hW hn x.toNat hx
              rw [hback] at this
              exact this
            · rw [if_neg hnew] at hs
              cases hdo : crossTable ((w.stOf a).orient : Int) with
              | none => simp [hdo] at hs
              | some d' => rw [hdo] at hs; exact move_preserves_WInv hI ha hact hs
      · rw [if_neg hsup] at hs
        simp only [Bool.and_eq_true, beq_iff_eq] at hs
        rw [hs.2]; exact hI

/-- **C03, moves**: for every world satisfying the invariant, every active agent and every action of
the action space, each of the three move actors returns a world satisfying the invariant. -/
theorem C03_moves_preserve (w : World) (c : MoveCall) (hI : w.WInv = true) (ha : c.agent < w.n)
    (hact : (w.stOf c.agent).active = true) (hsp : c.inSpace w = true) :
    specC03Move w (runMoveCall w c) = true :=
  WInv_of_specC12 hI ha hact hsp (C12_moves w c hI ha hact hsp)

/-- **C03, a move call for an agent that is not active**: for EVERY action value the call raises or returns a
world satisfying the invariant (it is the world it was given, `C12_inactive_mover`). -/
theorem C03_inactive_mover (w : World) (c : MoveCall) (hI : w.WInv = true)
    (hin : (w.stOf c.agent).active = false) : specC03MoveAny w c (runMoveCall w c) = true := by
  have h := C12_inactive_mover_any w c hI hin
  simp only [specMoveAny, hin, Bool.false_eq_true, if_false] at h
  simp only [specC03MoveAny, hin, Bool.false_eq_true, if_false, hI, Bool.not_true, Bool.false_or]
  cases hr : runMoveCall w c with
  | error e => rfl
  | ok o =>
    rw [hr] at h
    simp only [beq_iff_eq] at h
    simp only [h]; exact hI

/-- **C03, moves, any agent**: the invariant clause the driver judges for every real `process_action` call -
for every world satisfying the invariant, every agent (active or not) and every action of the action space. -/
theorem C03_moves_any (w : World) (c : MoveCall) (hI : w.WInv = true) (ha : c.agent < w.n)
    (hsp : c.inSpace w = true) : specC03MoveAny w c (runMoveCall w c) = true := by
  cases hact : (w.stOf c.agent).active with
  | true => rw [specC03MoveAny_active w c _ hact]; exact C03_moves_preserve w c hI ha hact hsp
  | false => exact C03_inactive_mover w c hI hact

/-! ## Resets establish the invariant (state components in any order) -/

/-- what no component changes -/
structure SFrame (w w' : World) : Prop where
  rows : w'.rows = w.rows
  cols : w'.cols = w.cols
  overlap : w'.overlap = w.overlap
  cfg : w'.cfg = w.cfg
  len : w'.st.length = w.st.length

theorem SFrame.refl (w : World) : SFrame w w := ⟨rfl, rfl, rfl, rfl, rfl⟩
theorem SFrame.trans {w w' w'' : World} (h : SFrame w w') (h' : SFrame w' w'') : SFrame w w'' :=
  ⟨h'.rows.trans h.rows, h'.cols.trans h.cols, h'.overlap.trans h.overlap, h'.cfg.trans h.cfg,
   h'.len.trans h.len⟩
theorem SFrame.of_vframe {w w' : World} (h : VFrame w w') : SFrame w w' :=
  ⟨h.rows, h.cols, h.overlap, h.cfg, h.len⟩

/-- the four clause groups of the invariant -/
def PosC (w : World) : Prop := w.posInv = true
def HealthC (w : World) : Prop :=
  ∀ a < w.n, 0 < (w.stOf a).health ∧ (w.stOf a).health ≤ 1 ∧ (w.stOf a).active = true
def AmmoC (w : World) : Prop :=
  ∀ a < w.n, (w.cfgOf a).hasAmmo = true → 0 ≤ (w.stOf a).ammo ∧ (w.stOf a).ammo ≤ max 0 (w.cfgOf a).initAmmo
def OrientC (w : World) : Prop :=
  ∀ a < w.n, (w.cfgOf a).hasOrient = true → 1 ≤ (w.stOf a).orient ∧ (w.stOf a).orient ≤ 4
/-- the ammunition field of an agent without ammunition is never written -/
def NoAmmoC (w : World) : Prop := ∀ a < w.n, (w.cfgOf a).hasAmmo = false → 0 ≤ (w.stOf a).ammo

/-- the invariant is the conjunction of the clause groups (given the symmetric table) -/
theorem WInv_of_clauses {w : World} (hp : PosC w) (hh : HealthC w) (ha : AmmoC w) (ho : OrientC w)
    (hn : NoAmmoC w) (hsym : w.wOverlapSym = true) : w.WInv = true := by
  unfold PosC at hp
  simp only [posInv, Bool.and_eq_true, List.all_eq_true, allCells, allAgents, List.mem_range] at hp
  obtain ⟨⟨hshape, hcells⟩, hagents⟩ := hp
  rw [WInv_parts_iff]
  refine ⟨hshape, ?_, ?_, hsym⟩
  · intro i hi
    have hc := hcells i hi
    simp only [posCell, Bool.and_eq_true, decide_eq_true_eq, List.all_eq_true, beq_iff_eq,
      Bool.or_eq_true] at hc
    rw [wCell_reading]
    refine ⟨hc.1.1, ?_, hc.2⟩
    intro a ha'
    obtain ⟨⟨h1, h2⟩, h3⟩ := hc.1.2 a ha'
    exact ⟨h1, (hh a h1).2.2, h2, h3⟩
  · intro a han
    have hpa := hagents a han
    simp only [posAgent, Bool.and_eq_true, decide_eq_true_eq] at hpa
    obtain ⟨h0, h1, hact⟩ := hh a han
    rw [wAgent_reading]
    refine ⟨fun _ => hpa, le_of_lt h0, h1, by simp [hact, h0], ?_, ?_, ho a han⟩
    · cases hA : (w.cfgOf a).hasAmmo with
      | true => exact (ha a han hA).1
      | false => exact hn a han hA
    · intro hA; exact (ha a han hA).2

theorem posInv_of_vframe {w w' : World} (h : VFrame w w') : w'.posInv = w.posInv := by
  have hc : w'.posCell = w.posCell := by
    funext i
    simp only [posCell, n, idx, inGrid, encOf, cfgOf, pairOK, h.cells, h.rows, h.cols, h.cfg,
      h.overlap, h.pos]
    rfl
  have ha : w'.posAgent = w.posAgent := by
    funext a
    simp only [posAgent, cell, idx, inGrid, h.cells, h.rows, h.cols, h.pos]
    rfl
  simp only [posInv, wShape, allCells, allAgents, n, hc, ha, h.cells, h.rows, h.cols, h.cfg, h.len]

theorem clause_frame {w w' : World} (hs : SFrame w w') :
    w'.n = w.n ∧ (∀ b, w'.cfgOf b = w.cfgOf b) := by
  refine ⟨by simp [n, hs.cfg], fun b => by simp [cfgOf, hs.cfg]⟩

/-- what a successful reset of a placement state does to the clause groups: it establishes the
position clauses and keeps everybody's vitals -/
theorem placement_clauses (kind : PKind) (o : PlaceOpts) (w : World) (t : Tape) (w' : World) (t' : Tape)
    (hwf : wfPlacement kind o w = true) (hlen : w.st.length = w.cfg.length)
    (h : placementReset kind o w t = .ok (w', t')) :
    SFrame w w' ∧ (NoAmmoC w → NoAmmoC w') ∧ PosC w' ∧ (HealthC w → HealthC w') ∧
    (AmmoC w → AmmoC w') ∧ (OrientC w → OrientC w') := by
    have hspec := place_ok_spec kind o w t hwf
    simp only [placementReset, PlaceOut.toExcept] at h
    cases herr : (resetX kind o w t).1.err with
    | some e => rw [herr] at h; cases h
    | none =>
      rw [herr] at h
      simp only [Except.ok.injEq, Prod.mk.injEq] at h
      have hpos := (spec_ok_parts hspec herr).1
      unfold specPlacement at hspec
      simp only [Bool.and_eq_true] at hspec
      obtain ⟨⟨⟨⟨hsg, hsh⟩, hvk⟩, _⟩, _⟩ := hspec
      rw [h.1] at hsg hsh hvk hpos
      simp only [sameGrid, Bool.and_eq_true, beq_iff_eq] at hsg
      simp only [wShape, Bool.and_eq_true, beq_iff_eq] at hsh
      have hS : SFrame w w' := ⟨hsg.1.1.1.symm, hsg.1.1.2.symm, hsg.1.2.symm, hsg.2.symm,
        by rw [hsh.2, ← hsg.2, hlen]⟩
      obtain ⟨hn, hcf⟩ := clause_frame hS
      have hv : ∀ a < w.n, w'.stOf a = { w.stOf a with pos := (w'.stOf a).pos } := by
        simp only [vitalsKept, List.all_eq_true, allAgents, List.mem_range, beq_iff_eq] at hvk
        exact hvk
      refine ⟨hS, ?_, hpos, ?_, ?_, ?_⟩
      · intro hN a ha hA
        rw [hn] at ha; rw [hcf] at hA; rw [hv a ha]; exact hN a ha hA
      · intro hH a ha; rw [hn] at ha; rw [hv a ha]; exact hH a ha
      · intro hA a ha hAm; rw [hn] at ha; rw [hcf] at hAm ⊢; rw [hv a ha]; exact hA a ha hAm
      · intro hO a ha hOr; rw [hn] at ha; rw [hcf] at hOr; rw [hv a ha]; exact hO a ha hOr

/-- what one component's reset does to the clause groups (`healthClosed`, the out-of-domain oracle
stream of finding K4, is excluded) -/
theorem applyComp_spec (c : StateComp) (w : World) (t : Tape) (w' : World) (t' : Tape)
    (hwf : ∀ kind o, c = .position kind o → wfPlacement kind o w = true) (hcfg : CfgOK w)
    (hnc : c ≠ .healthClosed)
    (hlen : w.st.length = w.cfg.length) (h : applyComp c w t = .ok (w', t')) :
    SFrame w w' ∧ (NoAmmoC w → NoAmmoC w') ∧
    ((∃ kind o, c = .position kind o) ∨ PosC w → PosC w') ∧
    (c = .health ∨ HealthC w → HealthC w') ∧
    (c = .ammo ∨ AmmoC w → AmmoC w') ∧
    (c = .orient ∨ OrientC w → OrientC w') := by
  cases c with
  | healthClosed => exact absurd rfl hnc
  | position kind o =>
    obtain ⟨hS, hN, hP, hH, hA, hO⟩ := placement_clauses kind o w t w' t' (hwf kind o rfl) hlen h
    refine ⟨hS, hN, fun _ => hP, ?_, ?_, ?_⟩
    · rintro (hc | hH')
      · cases hc
      · exact hH hH'
    · rintro (hc | hA')
      · cases hc
      · exact hA hA'
    · rintro (hc | hO')
      · cases hc
      · exact hO hO'
  | health =>
    simp only [applyComp, Except.ok.injEq] at h
    obtain ⟨hF, h2, h3, h4⟩ := healthResetFrom_spec (List.range w.n) w t List.nodup_range hcfg
    have hw' : w' = (healthResetFrom false (List.range w.n) w t).1 := by
      have := congrArg Prod.fst h; exact this.symm
    rw [← hw'] at hF h2 h3 h4
    have hS := SFrame.of_vframe hF
    obtain ⟨hn, hcf⟩ := clause_frame hS
    refine ⟨hS, ?_, ?_, ?_, ?_, ?_⟩
    · intro hN a ha hA; rw [hn] at ha; rw [hcf] at hA; rw [(h3 a).1]; exact hN a ha hA
    · rintro (⟨_, _, hc⟩ | hP)
      · cases hc
      · unfold PosC at hP ⊢; rw [posInv_of_vframe hF]; exact hP
    · intro _ a ha
      rw [hn] at ha
      exact h4 a (List.mem_range.mpr ha) (by rw [hlen]; exact ha)
    · rintro (hc | hA)
      · cases hc
      · intro a ha hAm; rw [hn] at ha; rw [hcf] at hAm ⊢; rw [(h3 a).1]; exact hA a ha hAm
    · rintro (hc | hO)
      · cases hc
      · intro a ha hOr; rw [hn] at ha; rw [hcf] at hOr; rw [(h3 a).2]; exact hO a ha hOr
  | ammo =>
    simp only [applyComp, Except.ok.injEq, Prod.mk.injEq] at h
    obtain ⟨hF, h2, h3, h4, h5⟩ := ammoResetFrom_spec (List.range w.n) w List.nodup_range
    have hw' : w' = ammoResetFrom (List.range w.n) w := h.1.symm
    rw [← hw'] at hF h2 h3 h4 h5
    have hS := SFrame.of_vframe hF
    obtain ⟨hn, hcf⟩ := clause_frame hS
    refine ⟨hS, ?_, ?_, ?_, ?_, ?_⟩
    · intro hN a ha hA; rw [hn] at ha; rw [hcf] at hA; rw [h5 a hA]; exact hN a ha hA
    · rintro (⟨_, _, hc⟩ | hP)
      · cases hc
      · unfold PosC at hP ⊢; rw [posInv_of_vframe hF]; exact hP
    · rintro (hc | hH)
      · cases hc
      · intro a ha; rw [hn] at ha; rw [(h3 a).1, (h3 a).2.1]; exact hH a ha
    · intro _ a ha hAm
      rw [hn] at ha; rw [hcf] at hAm ⊢
      rw [h4 a (List.mem_range.mpr ha) (by rw [hlen]; exact ha) hAm]
      exact ⟨le_max_left _ _, le_refl _⟩
    · rintro (hc | hO)
      · cases hc
      · intro a ha hOr; rw [hn] at ha; rw [hcf] at hOr; rw [(h3 a).2.2]; exact hO a ha hOr
  | orient =>
    simp only [applyComp, Except.ok.injEq] at h
    obtain ⟨hF, h2, h3, h4⟩ := orientResetFrom_spec (List.range w.n) w t List.nodup_range hcfg
    have hw' : w' = (orientResetFrom (List.range w.n) w t).1 := by
      have := congrArg Prod.fst h; exact this.symm
    rw [← hw'] at hF h2 h3 h4
    have hS := SFrame.of_vframe hF
    obtain ⟨hn, hcf⟩ := clause_frame hS
    refine ⟨hS, ?_, ?_, ?_, ?_, ?_⟩
    · intro hN a ha hA; rw [hn] at ha; rw [hcf] at hA; rw [(h3 a).2.2]; exact hN a ha hA
    · rintro (⟨_, _, hc⟩ | hP)
      · cases hc
      · unfold PosC at hP ⊢; rw [posInv_of_vframe hF]; exact hP
    · rintro (hc | hH)
      · cases hc
      · intro a ha; rw [hn] at ha; rw [(h3 a).1, (h3 a).2.1]; exact hH a ha
    · rintro (hc | hA)
      · cases hc
      · intro a ha hAm; rw [hn] at ha; rw [hcf] at hAm ⊢; rw [(h3 a).2.2]; exact hA a ha hAm
    · intro _ a ha hOr
      rw [hn] at ha; rw [hcf] at hOr
      exact h4 a (List.mem_range.mpr ha) (by rw [hlen]; exact ha) hOr

theorem cfgOK_of_sframe {w w' : World} (hs : SFrame w w') (h : CfgOK w) : CfgOK w' :=
  ⟨fun a x hx => h.health a x (by rw [← (clause_frame hs).2 a]; exact hx),
   fun a x hx => h.orient a x (by rw [← (clause_frame hs).2 a]; exact hx)⟩

theorem wfPlacement_of_sframe {w w' : World} (hs : SFrame w w') (kind : PKind) (o : PlaceOpts) :
    wfPlacement kind o w' = wfPlacement kind o w := by
  have hn : w'.n = w.n := (clause_frame hs).1
  have henc : w'.encOf = w.encOf := by funext a; simp [encOf, (clause_frame hs).2 a]
  have hcf : w'.cfgOf = w.cfgOf := by funext a; exact (clause_frame hs).2 a
  have hin : w'.inGrid = w.inGrid := by funext p; simp [inGrid, hs.rows, hs.cols]
  have hpk : w'.pairOK = w.pairOK := by funext a b; simp [pairOK, hs.overlap]
  have hsym : w'.wOverlapSym = w.wOverlapSym := by simp [wOverlapSym, hs.overlap, hpk]
  have hfix : isFixed w' = isFixed w := by funext a; simp [isFixed, hcf]
  simp only [wfPlacement, allAgents, hn, henc, hcf, hin, hpk, hsym, hfix, hs.rows, hs.cols, hs.len, hs.cfg]

/-- every clause group holds after the components of a list have been reset one after the other,
provided it held before or its component is in the list — **in any order** -/
theorem applyComps_spec (cs : List StateComp) :
    ∀ (w : World) (t : Tape) (w' : World) (t' : Tape),
      (∀ kind o, StateComp.position kind o ∈ cs → wfPlacement kind o w = true) → CfgOK w →
      StateComp.healthClosed ∉ cs →
      w.st.length = w.cfg.length → applyComps cs w t = .ok (w', t') →
      SFrame w w' ∧ (NoAmmoC w → NoAmmoC w') ∧
      ((∃ kind o, StateComp.position kind o ∈ cs) ∨ PosC w → PosC w') ∧
      (StateComp.health ∈ cs ∨ HealthC w → HealthC w') ∧
      (StateComp.ammo ∈ cs ∨ AmmoC w → AmmoC w') ∧
      (StateComp.orient ∈ cs ∨ OrientC w → OrientC w') := by
  induction cs with
  | nil =>
    intro w t w' t' _ _ _ _ h
    simp only [applyComps, Except.ok.injEq, Prod.mk.injEq] at h
    rw [← h.1]
    refine ⟨SFrame.refl w, id, ?_, ?_, ?_, ?_⟩
    · rintro (⟨_, _, h⟩ | h); cases h; exact h
    · rintro (h | h); cases h; exact h
    · rintro (h | h); cases h; exact h
    · rintro (h | h); cases h; exact h
  | cons c cs ih =>
    intro w t w' t' hwf hcfg hnc hlen h
    simp only [applyComps] at h
    cases h1 : applyComp c w t with
    | error e => rw [h1] at h; cases h
    | ok r =>
      obtain ⟨w1, t1⟩ := r
      rw [h1] at h
      simp only at h
      obtain ⟨hS1, hN1, hP1, hH1, hA1, hO1⟩ :=
        applyComp_spec c w t w1 t1 (fun k o hc => hwf k o (by rw [hc]; exact List.mem_cons_self)) hcfg
          (fun hc => hnc (by rw [hc]; exact List.mem_cons_self)) hlen h1
      have hlen1 : w1.st.length = w1.cfg.length := by rw [hS1.len, hS1.cfg]; exact hlen
      obtain ⟨hS2, hN2, hP2, hH2, hA2, hO2⟩ := ih w1 t1 w' t'
        (fun k o hm => by rw [wfPlacement_of_sframe hS1]; exact hwf k o (List.mem_cons_of_mem _ hm))
        (cfgOK_of_sframe hS1 hcfg) (fun hm => hnc (List.mem_cons_of_mem _ hm)) hlen1 h
      refine ⟨hS1.trans hS2, fun hn => hN2 (hN1 hn), ?_, ?_, ?_, ?_⟩
      · rintro (⟨k, o, hm⟩ | hp)
        · rcases List.mem_cons.mp hm with hm | hm
          · exact hP2 (Or.inr (hP1 (Or.inl ⟨k, o, hm.symm⟩)))
          · exact hP2 (Or.inl ⟨k, o, hm⟩)
        · exact hP2 (Or.inr (hP1 (Or.inr hp)))
      · rintro (hm | hp)
        · rcases List.mem_cons.mp hm with hm | hm
          · exact hH2 (Or.inr (hH1 (Or.inl hm.symm)))
          · exact hH2 (Or.inl hm)
        · exact hH2 (Or.inr (hH1 (Or.inr hp)))
      · rintro (hm | hp)
        · rcases List.mem_cons.mp hm with hm | hm
          · exact hA2 (Or.inr (hA1 (Or.inl hm.symm)))
          · exact hA2 (Or.inl hm)
        · exact hA2 (Or.inr (hA1 (Or.inr hp)))
      · rintro (hm | hp)
        · rcases List.mem_cons.mp hm with hm | hm
          · exact hO2 (Or.inr (hO1 (Or.inl hm.symm)))
          · exact hO2 (Or.inl hm)
        · exact hO2 (Or.inr (hO1 (Or.inr hp)))

/-- **C03, resets**: from **any** prior world (dirty grid, dead agents, anything), a successful reset
through a placement state, `HealthState`, `AmmoState` and `OrientationState` — in any order, any
tape — yields a world satisfying the invariant.  Hypotheses: the configuration facts the
constructors guarantee (`wfPlacement`, `CfgOK`; C19) and that the ammunition field of agents without
ammunition was never written.  (A drawn initial health is never exactly 0 in the regular oracle
stream; numpy's `uniform(0, 1)` can return 0.0 with probability 2⁻⁵³: finding K4 — that stream is the
component `healthClosed`, excluded here and witnessed to break the invariant in Props/C03.lean.) -/
theorem C03_reset_establishes (cs : List StateComp) (w : World) (t : Tape) (w' : World) (t' : Tape)
    (hpos : ∃ kind o, StateComp.position kind o ∈ cs) (hh : StateComp.health ∈ cs)
    (ha : StateComp.ammo ∈ cs) (ho : StateComp.orient ∈ cs)
    (hnc : StateComp.healthClosed ∉ cs)
    (hwf : ∀ kind o, StateComp.position kind o ∈ cs → wfPlacement kind o w = true) (hcfg : CfgOK w)
    (hn : NoAmmoC w) (h : applyComps cs w t = .ok (w', t')) : w'.WInv = true := by
  obtain ⟨k0, o0, hm0⟩ := hpos
  have hwf0 := hwf k0 o0 hm0
  have hlen : w.st.length = w.cfg.length := by
    simp only [wfPlacement, Bool.and_eq_true, beq_iff_eq] at hwf0
    exact hwf0.1.1.1.2
  have hsym : w.wOverlapSym = true := by
    simp only [wfPlacement, Bool.and_eq_true] at hwf0
    exact hwf0.1.1.2
  obtain ⟨hS, hN, hP, hH, hA, hO⟩ := applyComps_spec cs w t w' t' hwf hcfg hnc hlen h
  have hsym' : w'.wOverlapSym = true := by
    have hpk : w'.pairOK = w.pairOK := by funext a b; simp [pairOK, hS.overlap]
    simp only [wOverlapSym, hS.overlap, hpk] at hsym ⊢
    exact hsym
  exact WInv_of_clauses (hP (Or.inl ⟨k0, o0, hm0⟩)) (hH (Or.inl hh)) (hA (Or.inl ha)) (hO (Or.inl ho))
    (hN hn) hsym'

end Abmarl
