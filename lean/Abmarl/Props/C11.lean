import Abmarl.Lemmas.AttacksMain
import Abmarl.Lemmas.AttacksBinary
import Abmarl.Lemmas.AttacksEncoding
import Abmarl.Lemmas.AttacksSelective
import Abmarl.Lemmas.AttacksRestricted
/-!
# C11 — Attacks hit only eligible agents, within limits, with exact bookkeeping

Property theorems only (helper lemmas live in `Lemmas/Attacks*.lean`).  The model is
`Model/Attacks.lean` (`processAttack`: `AttackActorBaseComponent.process_action` with
`_basic_criteria`, `_subset_attackables`, the ammunition filter and the sequential health loop,
and `_determine_attack` of the four actors, with the exact order of tape consumption); the
decidable specification is `AttackSpec` in `Spec/Attacks.lean` (= `specWho && specHowMany &&
specBook`), written from the property text over positions, flags and the C10 shadow rule.

Every theorem is for **all** worlds satisfying the C03 invariant `WInv`, all attackers, all
actions of the actor's action space, all attack mappings / stacked flags / ranges / strengths /
accuracies / ammunition levels and **all tapes** (= all random draws).

* `binary_spec`, `encoding_spec`, `selective_spec`, `restricted_spec` — the call returns
  (never raises) and its outcome satisfies `AttackSpec` (and the invariant again);
* `C11_attacks` — the same for all four at once, in the form the judge evaluates (`specC11`);
* `attack_frame` — bookkeeping / "nothing else changes" for **any** action (also outside the
  action space) whenever the call returns;
* `attack_preserves_WInv` (and the hypothesis-free `attack_preserves_WInv_any`) — the C03
  invariant is kept; `C03_attacks` — the form the judge evaluates (`specC03Attack`);
* `successive_attacks` — any sequence of attacks by any actors keeps the invariant, so every
  call of the sequence is covered by the theorems above;
* `c11_*`, `healthAfter_eq` — readings: what the Bool predicate says, clause by clause.

Hits on a victim that an earlier hit of the same call already killed (possible with stacked
attacks only) are listed among the hits and cost ammunition, but do not change the victim: the
specification counts the hits a victim takes **while alive** (`healthAfter`); for strengths
`0 ≤ s` this is the closed form `max 0 (h − m·s)` over all `m` hits (`healthAfter_eq`).
-/
namespace Abmarl
open World

/-! ## The four actors -/

/-- what the four theorems conclude -/
def AttackOK (cfg : AttackCfg) (w : World) (a : Aid) (act : AttackAct) (t : Tape) : Prop :=
  ∃ st H w' t', processAttack cfg w a act t = .ok ((st, H), w', t') ∧
    AttackSpec cfg w a act H w' = true ∧ w'.WInv = true

theorem attackOK_of_determine {cfg : AttackCfg} {w : World} {a : Aid} {act : AttackAct} {t : Tape}
    (hI : w.WInv = true) (ha : a < w.n)
    (h : (w.cfgOf a).attacking = true →
      ∃ st L t1, determineAttack cfg w a act t = .ok ((st, L), t1) ∧ SelOK cfg w a act L) :
    AttackOK cfg w a act t := by
  by_cases hatt : (w.cfgOf a).attacking = true
  · obtain ⟨st, L, t1, hdet, sel⟩ := h hatt
    obtain ⟨H, w', t', hp, hs, hI'⟩ := processAttack_of_SelOK hI ha hatt hdet sel
    exact ⟨st, H, w', t', hp, hs, hI'⟩
  · have hatt' : (w.cfgOf a).attacking = false := by simpa using hatt
    obtain ⟨hp, hs⟩ := processAttack_not_attacking (cfg := cfg) act t hatt'
    exact ⟨false, [], w, t, hp, hs, hI⟩

/-- **C11, BinaryAttackActor.** -/
theorem binary_spec (cfg : AttackCfg) (w : World) (a : Aid) (k : Nat) (t : Tape)
    (hkind : cfg.kind = .binary) (hI : w.WInv = true) (ha : a < w.n)
    (_hact : (w.stOf a).active = true) (hsp : inSpace cfg w a (.count k) = true) :
    AttackOK cfg w a (.count k) t := by
  unfold inSpace at hsp
  cases hmap : cfg.mapping.lookup (w.encOf a) with
  | none => rw [hmap] at hsp; cases hsp
  | some s =>
    rw [hmap, hkind] at hsp
    simp only [decide_eq_true_eq] at hsp
    refine attackOK_of_determine hI ha fun _ => ?_
    obtain ⟨st, L, t1, hdet, sel⟩ := determineBinary_sound hI hmap hkind k hsp t
    exact ⟨st, L, t1, by simp only [determineAttack, hkind, hdet], sel⟩

/-- **C11, EncodingBasedAttackActor**; `l` = the items of the action dictionary in iteration
order (any order) -/
theorem encoding_spec (cfg : AttackCfg) (w : World) (a : Aid) (l : List (Int × Nat)) (t : Tape)
    (hkind : cfg.kind = .encoding) (hI : w.WInv = true) (ha : a < w.n)
    (_hact : (w.stOf a).active = true) (hsp : inSpace cfg w a (.perEnc l) = true) :
    AttackOK cfg w a (.perEnc l) t := by
  unfold inSpace at hsp
  cases hmap : cfg.mapping.lookup (w.encOf a) with
  | none => rw [hmap] at hsp; cases hsp
  | some s =>
    rw [hmap, hkind] at hsp
    simp only [Bool.and_eq_true, decide_eq_true_eq, List.all_eq_true, List.any_eq_true, beq_iff_eq] at hsp
    obtain ⟨⟨hnd, hl⟩, hcov⟩ := hsp
    refine attackOK_of_determine hI ha fun _ => ?_
    obtain ⟨st, L, t1, hdet, sel⟩ :=
      determineEncoding_sound hI hmap hkind l hnd (fun p hp => (hl p hp).2) hcov t
    exact ⟨st, L, t1, by simp only [determineAttack, hkind, hdet], sel⟩

/-- **C11, SelectiveAttackActor**; `l` = the `(2R+1)×(2R+1)` array, row-major -/
theorem selective_spec (cfg : AttackCfg) (w : World) (a : Aid) (l : List Nat) (t : Tape)
    (hkind : cfg.kind = .selective) (hI : w.WInv = true) (ha : a < w.n)
    (_hact : (w.stOf a).active = true) (hsp : inSpace cfg w a (.grid l) = true) :
    AttackOK cfg w a (.grid l) t := by
  unfold inSpace at hsp
  cases hmap : cfg.mapping.lookup (w.encOf a) with
  | none => rw [hmap] at hsp; cases hsp
  | some s =>
    rw [hmap, hkind] at hsp
    simp only [Bool.and_eq_true, decide_eq_true_eq, List.all_eq_true, beq_iff_eq] at hsp
    refine attackOK_of_determine hI ha fun _ => ?_
    obtain ⟨st, L, t1, hdet, sel⟩ := determineSelective_sound hI hmap hkind l hsp.1 hsp.2 t
    exact ⟨st, L, t1, by simp only [determineAttack, hkind, hdet], sel⟩

/-- **C11, RestrictedSelectiveAttackActor**; `l` = the list of cell numbers (0 = unused) -/
theorem restricted_spec (cfg : AttackCfg) (w : World) (a : Aid) (l : List Nat) (t : Tape)
    (hkind : cfg.kind = .restricted) (hI : w.WInv = true) (ha : a < w.n)
    (_hact : (w.stOf a).active = true) (hsp : inSpace cfg w a (.cells l) = true) :
    AttackOK cfg w a (.cells l) t := by
  unfold inSpace at hsp
  cases hmap : cfg.mapping.lookup (w.encOf a) with
  | none => rw [hmap] at hsp; cases hsp
  | some s =>
    rw [hmap, hkind] at hsp
    simp only [Bool.and_eq_true, decide_eq_true_eq, List.all_eq_true, beq_iff_eq] at hsp
    refine attackOK_of_determine hI ha fun _ => ?_
    obtain ⟨st, L, t1, hdet, sel⟩ := determineRestricted_sound hI hmap hkind l hsp.1 hsp.2 t
    exact ⟨st, L, t1, by simp only [determineAttack, hkind, hdet], sel⟩

/-- the outcome as the driver reports it -/
def attackOutcome (cfg : AttackCfg) (w : World) (a : Aid) (act : AttackAct) (t : Tape) :
    Except GErr ((Bool × List Aid) × World) :=
  (processAttack cfg w a act t).map fun r => (r.1, r.2.1)

/-- all four actors, every action of the action space -/
theorem attackOK_all (cfg : AttackCfg) (w : World) (a : Aid) (act : AttackAct) (t : Tape)
    (hpre : attackPre cfg w a act = true) : AttackOK cfg w a act t := by
  simp only [attackPre, Bool.and_eq_true, decide_eq_true_eq] at hpre
  obtain ⟨⟨⟨hI, ha⟩, hact⟩, hsp⟩ := hpre
  have hsp' := hsp
  unfold inSpace at hsp'
  cases hmap : cfg.mapping.lookup (w.encOf a) with
  | none => rw [hmap] at hsp'; cases hsp'
  | some s =>
    rw [hmap] at hsp'
    cases hk : cfg.kind <;> cases act <;> rw [hk] at hsp' <;> simp only at hsp' <;>
      first
      | exact binary_spec cfg w a _ t hk hI ha hact hsp
      | exact encoding_spec cfg w a _ t hk hI ha hact hsp
      | exact selective_spec cfg w a _ t hk hI ha hact hsp
      | exact restricted_spec cfg w a _ t hk hI ha hact hsp
      | cases hsp'

/-- **C11**, in the form the judge evaluates: for every actor kind, mapping, stacked flag, world,
attacker, action and tape, the model's outcome passes `specC11` -/
theorem C11_attacks (cfg : AttackCfg) (w : World) (a : Aid) (act : AttackAct) (t : Tape) :
    specC11 cfg w a act (attackOutcome cfg w a act t) = true := by
  unfold specC11
  by_cases hpre : attackPre cfg w a act = true
  · obtain ⟨st, H, w', t', hp, hs, _⟩ := attackOK_all cfg w a act t hpre
    simp only [attackOutcome, hp, Except.map, hs, Bool.or_true]
  · simp [hpre]

/-! ## Frame and invariant -/

/-- **nothing else changes**: whenever a call returns — any actor, any action (inside the action
space or not), any tape — an attacking agent's call satisfies the bookkeeping clause `specBook`
(ammunition, victims' health and activity, dead victims leave their cell, every other agent and
cell untouched, static part untouched), and a call by an agent that cannot attack changes
nothing at all -/
theorem attack_frame (cfg : AttackCfg) (w : World) (a : Aid) (act : AttackAct) (t : Tape)
    (hI : w.WInv = true) (ha : a < w.n) {st : Bool} {H : List Aid} {w' : World} {t' : Tape}
    (h : processAttack cfg w a act t = .ok ((st, H), w', t')) :
    ((w.cfgOf a).attacking = true → specBook w a H w' = true) ∧
    ((w.cfgOf a).attacking = false → H = [] ∧ w' = w) :=
  processAttack_book hI ha h

/-- the C03 invariant is kept by every call that returns: no hypothesis on the attacker, the
action or the tape -/
theorem attack_preserves_WInv_any (cfg : AttackCfg) (w : World) (a : Aid) (act : AttackAct) (t : Tape)
    (hI : w.WInv = true) :
    ∀ r w' t', processAttack cfg w a act t = .ok (r, w', t') → w'.WInv = true :=
  fun _ _ _ h => processAttack_WInv hI h

/-- **attacks preserve the C03 invariant** (the step lemma of the C03 induction, stated with the
step hypotheses of the other actors; `attack_preserves_WInv_any` shows that none of the three
extra hypotheses is needed) -/
theorem attack_preserves_WInv (cfg : AttackCfg) (w : World) (a : Aid) (act : AttackAct) (t : Tape)
    (h : w.WInv = true) (_ha : a < w.n) (_hact : (w.stOf a).active = true)
    (_hsp : inSpace cfg w a act = true) :
    ∀ r w' t', processAttack cfg w a act t = .ok (r, w', t') → w'.WInv = true :=
  attack_preserves_WInv_any cfg w a act t h

/-- **C03 (attack part)**, in the form the judge evaluates -/
theorem C03_attacks (cfg : AttackCfg) (w : World) (a : Aid) (act : AttackAct) (t : Tape) :
    specC03Attack cfg w a act (attackOutcome cfg w a act t) = true := by
  unfold specC03Attack
  by_cases hI : w.WInv = true
  · simp only [hI, Bool.not_true, Bool.false_or]
    cases hp : processAttack cfg w a act t with
    | ok r =>
      obtain ⟨r, w', t'⟩ := r
      simp only [attackOutcome, hp, Except.map]
      exact processAttack_WInv hI hp
    | error e =>
      simp only [attackOutcome, hp, Except.map, Bool.not_eq_true']
      by_cases hpre : attackPre cfg w a act = true
      · obtain ⟨st, H, w', t', hp', _⟩ := attackOK_all cfg w a act t hpre
        rw [hp] at hp'; cases hp'
      · simpa using hpre
  · simp [hI]

/-- a call of some attack actor -/
structure AttackCall where
  cfg : AttackCfg
  a   : Aid
  act : AttackAct

/-- run a sequence of attacks (any actors, attackers, actions), threading world and tape; a call
that raises stops the run -/
def runAttacks : World → List AttackCall → Tape → Except GErr (World × Tape)
  | w, [], t => .ok (w, t)
  | w, c :: cs, t =>
    match processAttack c.cfg w c.a c.act t with
    | .error e => .error e
    | .ok (_, w', t') => runAttacks w' cs t'

/-- **successive attacks**: the invariant holds after any sequence of attacks, so each call of
the sequence starts from a world to which the theorems above apply (deaths and ammunition
depletion of earlier calls included) -/
theorem successive_attacks (w : World) (cs : List AttackCall) (t : Tape) (hI : w.WInv = true) :
    ∀ w' t', runAttacks w cs t = .ok (w', t') → w'.WInv = true := by
  induction cs generalizing w t with
  | nil =>
    intro w' t' h
    simp only [runAttacks] at h
    injection h with h; injection h with h _
    rw [← h]; exact hI
  | cons c cs ih =>
    intro w' t' h
    unfold runAttacks at h
    split at h
    · cases h
    · rename_i r w1 t1 hp
      exact ih w1 t1 (processAttack_WInv hI hp) w' t' h

end Abmarl

namespace Abmarl
open World

/-! ## Readings of the specification -/

theorem AttackSpec_parts {cfg : AttackCfg} {w : World} {a : Aid} {act : AttackAct} {hits : List Aid}
    {w' : World} (h : AttackSpec cfg w a act hits w' = true) (hatt : (w.cfgOf a).attacking = true) :
    specWho cfg w a act hits = true ∧ specHowMany cfg w a act hits = true ∧ specBook w a hits w' = true := by
  unfold AttackSpec at h
  rw [if_pos hatt] at h
  simp only [Bool.and_eq_true] at h
  exact ⟨h.1.1, h.1.2, h.2⟩

/-- an agent that cannot attack hits nobody and changes nothing -/
theorem c11_not_attacking {cfg : AttackCfg} {w : World} {a : Aid} {act : AttackAct} {hits : List Aid}
    {w' : World} (h : AttackSpec cfg w a act hits w' = true) (hatt : (w.cfgOf a).attacking = false) :
    hits = [] ∧ w' = w := by
  unfold AttackSpec at h
  rw [hatt] at h
  simpa using h

/-- **who**: every hit is a real agent other than the attacker, currently active, of an encoding
the attack mapping allows, within the attack range in both directions, and not hidden by any
active blocking agent (rule of C10, `Mask.hiddenBySpec_iff`) -/
theorem c11_hits_eligible {cfg : AttackCfg} {w : World} {a : Aid} {act : AttackAct} {hits : List Aid}
    {w' : World} (h : AttackSpec cfg w a act hits w' = true) (hatt : (w.cfgOf a).attacking = true) :
    ∀ b ∈ hits, b < w.n ∧ b ≠ a ∧ (w.stOf b).active = true ∧ mayAttack cfg.mapping w a b = true ∧
      (-((w.cfgOf a).attackRange : Int) ≤ (w.offs a b).1 ∧ (w.offs a b).1 ≤ (w.cfgOf a).attackRange) ∧
      (-((w.cfgOf a).attackRange : Int) ≤ (w.offs a b).2 ∧ (w.offs a b).2 ≤ (w.cfgOf a).attackRange) ∧
      Mask.hiddenBySpec (w.cfgOf a).attackRange (w.specBlockers a) (w.offs a b).1 (w.offs a b).2 = false := by
  intro b hb
  have hw := (AttackSpec_parts h hatt).1
  unfold specWho at hw
  rw [List.all_eq_true] at hw
  have := hw b hb
  simp only [Bool.and_eq_true, decide_eq_true_eq, eligible, bne_iff_ne, ne_eq, Mask.inWin_iff,
    Bool.not_eq_true'] at this
  obtain ⟨⟨h1, ⟨⟨⟨⟨⟨h2, h3⟩, h4⟩, h5⟩, h6⟩, h7⟩⟩, _⟩ := this
  exact ⟨h1, h2, h3, h4, h5, h6, h7⟩

/-- every hit belongs to a group the action addresses with a positive count -/
theorem c11_hits_targeted {cfg : AttackCfg} {w : World} {a : Aid} {act : AttackAct} {hits : List Aid}
    {w' : World} (h : AttackSpec cfg w a act hits w' = true) (hatt : (w.cfgOf a).attacking = true) :
    ∀ b ∈ hits, ∃ g ∈ attackGroups cfg w a act, g.mem b = true ∧ 0 < g.lim := by
  intro b hb
  have hw := (AttackSpec_parts h hatt).1
  unfold specWho at hw
  rw [List.all_eq_true] at hw
  have := hw b hb
  simp only [Bool.and_eq_true, decide_eq_true_eq, List.any_eq_true] at this
  exact this.2

/-- **cell targeting, Selective**: the array entry of the victim's window cell — row
`winRow`, column `winCol` counted from the top left, read row-major — is positive -/
theorem c11_cell_targeted_selective {cfg : AttackCfg} {w : World} {a : Aid} {l : List Nat}
    {hits : List Aid} {w' : World} (h : AttackSpec cfg w a (.grid l) hits w' = true)
    (hatt : (w.cfgOf a).attacking = true) (hk : cfg.kind = .selective) :
    ∀ b ∈ hits, 0 < l.getD (w.winRow a b * (2 * (w.cfgOf a).attackRange + 1) + w.winCol a b) 0 := by
  intro b hb
  obtain ⟨g, hg, hm, hl⟩ := c11_hits_targeted h hatt b hb
  rw [attackGroups_selective w a l hk, List.mem_map] at hg
  obtain ⟨⟨i, j⟩, _, rfl⟩ := hg
  rw [selGroup_mem_iff] at hm
  rw [hm.1, hm.2]; exact hl

/-- **cell targeting, RestrictedSelective**: some entry `k ≥ 1` of the action names the victim's
window cell: row `(k−1) / W`, column `(k−1) % W` — cell numbers count row by row from the top
left -/
theorem c11_cell_targeted_restricted {cfg : AttackCfg} {w : World} {a : Aid} {l : List Nat}
    {hits : List Aid} {w' : World} (h : AttackSpec cfg w a (.cells l) hits w' = true)
    (hatt : (w.cfgOf a).attacking = true) (hk : cfg.kind = .restricted) :
    ∀ b ∈ hits, ∃ k ∈ l, 1 ≤ k ∧ (k - 1) / (2 * (w.cfgOf a).attackRange + 1) = w.winRow a b ∧
      (k - 1) % (2 * (w.cfgOf a).attackRange + 1) = w.winCol a b := by
  intro b hb
  obtain ⟨g, hg, hm, hl⟩ := c11_hits_targeted h hatt b hb
  unfold attackGroups at hg
  rw [hk] at hg
  simp only [List.mem_map] at hg
  obtain ⟨⟨i, j⟩, _, rfl⟩ := hg
  simp only [Bool.and_eq_true, beq_iff_eq] at hm
  simp only [List.countP_pos_iff] at hl
  obtain ⟨k, hkl, hn⟩ := hl
  simp only [names, Bool.and_eq_true, decide_eq_true_eq, beq_iff_eq] at hn
  exact ⟨k, hkl, hn.1.1, by rw [hm.1]; exact hn.1.2, by rw [hm.2]; exact hn.2⟩

/-- **limits**: no group receives more hits than the action spends on it, nor more than
`simultaneous_attacks`; groups: Binary — everybody, limit the action; EncodingBased — the agents
of one encoding, limit its count; Selective — the agents on one window cell, limit the array
entry; RestrictedSelective — the agents on one window cell, limit the number of entries naming it -/
theorem c11_limits {cfg : AttackCfg} {w : World} {a : Aid} {act : AttackAct} {hits : List Aid}
    {w' : World} (h : AttackSpec cfg w a act hits w' = true) (hatt : (w.cfgOf a).attacking = true) :
    ∀ g ∈ attackGroups cfg w a act, hits.countP g.mem ≤ g.lim ∧ hits.countP g.mem ≤ (w.cfgOf a).simAttacks := by
  intro g hg
  have hm := (AttackSpec_parts h hatt).2.1
  rw [specHowMany_eq] at hm
  simp only [Bool.and_eq_true, List.all_eq_true, decide_eq_true_eq] at hm
  exact (hm.1.1.1 g hg).1

theorem c11_binary_limit {cfg : AttackCfg} {w : World} {a : Aid} {k : Nat} {hits : List Aid}
    {w' : World} (h : AttackSpec cfg w a (.count k) hits w' = true)
    (hatt : (w.cfgOf a).attacking = true) (hk : cfg.kind = .binary) :
    hits.length ≤ k ∧ hits.length ≤ (w.cfgOf a).simAttacks := by
  have := c11_limits h hatt ⟨fun _ => true, k⟩ (by rw [attackGroups_binary w a k hk]; simp)
  simpa using this

theorem c11_encoding_limit {cfg : AttackCfg} {w : World} {a : Aid} {l : List (Int × Nat)}
    {hits : List Aid} {w' : World} (h : AttackSpec cfg w a (.perEnc l) hits w' = true)
    (hatt : (w.cfgOf a).attacking = true) (hk : cfg.kind = .encoding) :
    ∀ p ∈ l, hits.countP (fun b => w.encOf b == p.1) ≤ p.2 ∧
      hits.countP (fun b => w.encOf b == p.1) ≤ (w.cfgOf a).simAttacks := by
  intro p hp
  exact c11_limits h hatt (encGroup w p) (by rw [attackGroups_encoding w a l hk]; exact List.mem_map_of_mem hp)

/-- Binary and RestrictedSelective: at most `simultaneous_attacks` hits per step in total -/
theorem c11_total_limit {cfg : AttackCfg} {w : World} {a : Aid} {act : AttackAct} {hits : List Aid}
    {w' : World} (h : AttackSpec cfg w a act hits w' = true) (hatt : (w.cfgOf a).attacking = true)
    (hk : cfg.kind = .binary ∨ cfg.kind = .restricted) : hits.length ≤ (w.cfgOf a).simAttacks := by
  have hm := (AttackSpec_parts h hatt).2.1
  rw [specHowMany_eq] at hm
  simp only [Bool.and_eq_true] at hm
  have := hm.1.1.2
  rcases hk with hk | hk <;> rw [hk] at this <;> simpa using this

/-- no agent is hit twice unless stacked attacks are enabled -/
theorem c11_no_repeat {cfg : AttackCfg} {w : World} {a : Aid} {act : AttackAct} {hits : List Aid}
    {w' : World} (h : AttackSpec cfg w a act hits w' = true) (hatt : (w.cfgOf a).attacking = true)
    (hst : cfg.stacked = false) : hits.Nodup := by
  have hm := (AttackSpec_parts h hatt).2.1
  rw [specHowMany_eq] at hm
  simp only [Bool.and_eq_true] at hm
  simpa [hst] using hm.1.2

/-- **full accuracy**: with accuracy 1 and enough ammunition for the `totalExpected` hits, every
group receives exactly `expected`: `min limit eligible` without stacking, `limit` with stacking
when somebody is eligible — no available eligible target is skipped while attacks remain; and the
total is `min ammunition totalExpected` even when the ammunition is short -/
theorem c11_full_accuracy {cfg : AttackCfg} {w : World} {a : Aid} {act : AttackAct} {hits : List Aid}
    {w' : World} (h : AttackSpec cfg w a act hits w' = true) (hatt : (w.cfgOf a).attacking = true)
    (hacc : 1 ≤ (w.cfgOf a).accuracy) :
    (((w.cfgOf a).hasAmmo = false ∨ (totalExpected cfg w a act : Int) ≤ (w.stOf a).ammo) →
      ∀ g ∈ attackGroups cfg w a act,
        hits.countP g.mem = expected cfg.stacked g.lim ((eligList cfg w a).countP g.mem)) ∧
    hits.length = (if (w.cfgOf a).hasAmmo then min (w.stOf a).ammo.toNat (totalExpected cfg w a act)
                   else totalExpected cfg w a act) := by
  have hm := (AttackSpec_parts h hatt).2.1
  rw [specHowMany_eq] at hm
  simp only [Bool.and_eq_true, List.all_eq_true] at hm
  constructor
  · intro hen g hg
    have := (hm.1.1.1 g hg).2
    rcases hen with hen | hen
    · simpa [hacc, hen] using this
    · simpa [hacc, hen] using this
  · simpa [hacc] using hm.2

theorem expected_reading (lim E : Nat) :
    expected false lim E = min lim E ∧ expected true lim E = if E = 0 then 0 else lim := ⟨rfl, rfl⟩

/-- **ammunition**: at least as much as there are hits, exactly that many less afterwards, never
below zero -/
theorem c11_ammo {cfg : AttackCfg} {w : World} {a : Aid} {act : AttackAct} {hits : List Aid}
    {w' : World} (h : AttackSpec cfg w a act hits w' = true) (hatt : (w.cfgOf a).attacking = true)
    (hammo : (w.cfgOf a).hasAmmo = true) :
    (hits.length : Int) ≤ (w.stOf a).ammo ∧ (w'.stOf a).ammo = (w.stOf a).ammo - hits.length ∧
      0 ≤ (w'.stOf a).ammo := by
  have hb := (AttackSpec_parts h hatt).2.2
  unfold specBook at hb
  simp only [hammo, if_true, Bool.and_eq_true, decide_eq_true_eq, beq_iff_eq] at hb
  have h1 := hb.1.1.2.1
  have h2 := hb.1.1.2.2
  rw [h2]
  exact ⟨h1, rfl, by simp only; omega⟩

/-- the attacker itself: nothing but the ammunition changes -/
theorem c11_attacker {cfg : AttackCfg} {w : World} {a : Aid} {act : AttackAct} {hits : List Aid}
    {w' : World} (h : AttackSpec cfg w a act hits w' = true) (hatt : (w.cfgOf a).attacking = true) :
    w'.stOf a = { w.stOf a with ammo := (w'.stOf a).ammo } ∧
      ((w.cfgOf a).hasAmmo = false → w'.stOf a = w.stOf a) := by
  have hb := (AttackSpec_parts h hatt).2.2
  unfold specBook at hb
  simp only [Bool.and_eq_true] at hb
  have h1 := hb.1.1.2
  by_cases hammo : (w.cfgOf a).hasAmmo = true
  · simp only [hammo, if_true, Bool.and_eq_true, beq_iff_eq] at h1
    rw [h1.2]
    exact ⟨rfl, fun hc => by rw [hammo] at hc; cases hc⟩
  · simp only [hammo, Bool.false_eq_true, if_false, beq_iff_eq] at h1
    rw [h1]
    exact ⟨rfl, fun _ => rfl⟩

/-- **victims**: an agent hit `m ≥ 1` times ends with the health `healthAfter h s m` (each hit
taken while alive lowers it by exactly the strength, clamped), is active iff that is positive,
and nothing else about it changes -/
theorem c11_victim {cfg : AttackCfg} {w : World} {a : Aid} {act : AttackAct} {hits : List Aid}
    {w' : World} (h : AttackSpec cfg w a act hits w' = true) (hatt : (w.cfgOf a).attacking = true)
    {b : Aid} (hb : b < w.n) (hba : b ≠ a) (hm : hits.count b ≠ 0) :
    w'.stOf b = { w.stOf b with
      health := healthAfter (w.stOf b).health (w.cfgOf a).strength (hits.count b),
      active := decide (0 < healthAfter (w.stOf b).health (w.cfgOf a).strength (hits.count b)) } := by
  have hbk := (AttackSpec_parts h hatt).2.2
  unfold specBook at hbk
  simp only [Bool.and_eq_true, List.all_eq_true] at hbk
  have := hbk.1.2 b (by simpa [allAgents] using hb)
  simpa [hba, hm] using this

/-- **nobody else changes**: an agent that is neither the attacker nor hit keeps its whole state -/
theorem c11_others_unchanged {cfg : AttackCfg} {w : World} {a : Aid} {act : AttackAct} {hits : List Aid}
    {w' : World} (h : AttackSpec cfg w a act hits w' = true) (hatt : (w.cfgOf a).attacking = true)
    {b : Aid} (hb : b < w.n) (hba : b ≠ a) (hm : b ∉ hits) : w'.stOf b = w.stOf b := by
  have hbk := (AttackSpec_parts h hatt).2.2
  unfold specBook at hbk
  simp only [Bool.and_eq_true, List.all_eq_true] at hbk
  have := hbk.1.2 b (by simpa [allAgents] using hb)
  simpa [hba, List.count_eq_zero_of_not_mem hm] using this

/-- **the cells**: every cell keeps its occupants, in order, except the victims that are now
inactive; in particular a victim that died stands in no cell, and the static part is untouched -/
theorem c11_cells {cfg : AttackCfg} {w : World} {a : Aid} {act : AttackAct} {hits : List Aid}
    {w' : World} (h : AttackSpec cfg w a act hits w' = true) (hatt : (w.cfgOf a).attacking = true) :
    sameStatic w w' = true ∧
    (∀ i < w.rows * w.cols, w'.cells.getD i [] =
      (w.cells.getD i []).filter fun b => !(decide (b ∈ hits) && !(w'.stOf b).active)) ∧
    (∀ b ∈ hits, (w'.stOf b).active = false → ∀ i < w.rows * w.cols, b ∉ w'.cells.getD i []) := by
  have hbk := (AttackSpec_parts h hatt).2.2
  unfold specBook at hbk
  simp only [Bool.and_eq_true, List.all_eq_true, beq_iff_eq] at hbk
  have hc : ∀ i < w.rows * w.cols, w'.cells.getD i [] =
      (w.cells.getD i []).filter fun b => !(decide (b ∈ hits) && !(w'.stOf b).active) :=
    fun i hi => hbk.2 i (by simpa [allCells] using hi)
  refine ⟨hbk.1.1.1, hc, ?_⟩
  intro b hb hdead i hi hmem
  rw [hc i hi, List.mem_filter] at hmem
  simp [hb, hdead] at hmem

/-- for a strength `0 ≤ s` and a health in `[0, 1]` the hits taken while alive give the closed
form: `m` hits lower the health to `max 0 (h − m·s)` -/
theorem healthAfter_eq (h s : Rat) (m : Nat) (hs : 0 ≤ s) (h0 : 0 ≤ h) (h1 : h ≤ 1) :
    healthAfter h s m = max 0 (h - m * s) := by
  induction m generalizing h with
  | zero => simp [healthAfter, h0]
  | succ m ih =>
    unfold healthAfter
    have hms : 0 ≤ (m : Rat) * s := mul_nonneg (by exact_mod_cast Nat.zero_le m) hs
    by_cases hp : 0 < h
    · have e : hitOnce h s = max (h - s) 0 := by
        unfold hitOnce
        rw [if_pos hp]
        exact min_eq_left (max_le (by linarith) (by norm_num))
      rw [e, ih _ (le_max_right _ _) (max_le (by linarith) (by norm_num))]
      push_cast
      by_cases hle : s ≤ h
      · rw [max_eq_left (by linarith : (0 : Rat) ≤ h - s)]
        congr 1; ring
      · have hlt : h < s := not_le.mp hle
        rw [max_eq_right (by linarith : h - s ≤ 0), max_eq_left (by linarith), max_eq_left (by linarith)]
    · have hz : h = 0 := le_antisymm (not_lt.mp hp) h0
      have e : hitOnce h s = 0 := by unfold hitOnce; rw [if_neg hp, hz]
      rw [e, ih 0 le_rfl (by norm_num), hz]
      push_cast
      rw [max_eq_left (by linarith), max_eq_left (by linarith)]

end Abmarl

namespace Abmarl
open World

/-! ## Non-vacuity (closed examples, by kernel evaluation) -/

/-- the F6 layout: 3×3 grid, attacker (agent 0) in the centre, victims to the right (agent 1 at
(1, 2)) and below (agent 2 at (2, 1)) -/
def f6World : World :=
  { rows := 3, cols := 3, overlap := [],
    cells := [[], [], [], [], [0], [1], [], [2], []],
    cfg := [{ enc := 1, attacking := true, attackRange := 1, strength := 1, accuracy := 1, simAttacks := 1 },
            { enc := 2 }, { enc := 2 }],
    st := [{ pos := (1, 1) }, { pos := (1, 2) }, { pos := (2, 1) }] }

def f6Cfg : AttackCfg := ⟨.restricted, [(1, [2])], false⟩

/-- the hypotheses of the theorems are inhabited -/
example : attackPre f6Cfg f6World 0 (.cells [6]) = true := by decide +kernel

/-- cell number 6 of the 3×3 window is row 1, column 2: the agent to the **right** is hit, dies
and leaves its cell; the agent below is untouched; the outcome passes the judge -/
example :
    (match processAttack f6Cfg f6World 0 (.cells [6]) [] with
     | .ok ((st, hits), w', _) =>
       st && hits == [1] && !(w'.stOf 1).active && ((w'.stOf 1).health == 0) && (w'.stOf 2 == f6World.stOf 2) &&
         (w'.cells == [[], [], [], [], [0], [], [], [2], []]) &&
         AttackSpec f6Cfg f6World 0 (.cells [6]) hits w'
     | .error _ => false) = true := by decide +kernel

/-- the column-by-column reading of defect F6 (the agent **below** is hit) is rejected by the judge -/
example :
    AttackSpec f6Cfg f6World 0 (.cells [6]) [2]
      { f6World with cells := [[], [], [], [], [0], [1], [], [], []],
                     st := [{ pos := (1, 1) }, { pos := (1, 2) }, { pos := (2, 1), health := 0, active := false }] }
      = false := by decide +kernel

/-- stacked Binary attack with ammunition: 2×3 grid, attacker at (0, 0) with 3 rounds, strength
1/2, two simultaneous attacks, range 2; the only eligible victim is agent 1 (health 1/2) at (1, 2) -/
def stackWorld : World :=
  { rows := 2, cols := 3, overlap := [],
    cells := [[0], [], [], [], [], [1]],
    cfg := [{ enc := 1, attacking := true, attackRange := 2, strength := 1/2, accuracy := 1, simAttacks := 2,
              hasAmmo := true, initAmmo := 3 },
            { enc := 2 }],
    st := [{ pos := (0, 0), ammo := 3 }, { pos := (1, 2), health := 1/2 }] }

def stackCfg : AttackCfg := ⟨.binary, [(1, [2])], true⟩

/-- both attacks go to the same victim: the first kills it, the second is listed and paid for
but changes nothing (hits taken while alive); ammunition 3 → 1; the victim leaves the grid -/
example :
    (match processAttack stackCfg stackWorld 0 (.count 2) [0, 5, 7] with
     | .ok ((st, hits), w', _) =>
       st && hits == [1, 1] && ((w'.stOf 0).ammo == 1) && !(w'.stOf 1).active &&
         (w'.cells == [[0], [], [], [], [], []]) && w'.WInv &&
         attackPre stackCfg stackWorld 0 (.count 2) && AttackSpec stackCfg stackWorld 0 (.count 2) hits w'
     | .error _ => false) = true := by decide +kernel

/-- a blocking agent (agent 1 at (0, 1)) hides the victim behind it (agent 2 at (0, 2)) from the
attacker at (0, 0): the Selective attack aimed at both cells hits only the blocker -/
def blockWorld : World :=
  { rows := 1, cols := 3, overlap := [],
    cells := [[0], [1], [2]],
    cfg := [{ enc := 1, attacking := true, attackRange := 2, strength := 1/4, accuracy := 1, simAttacks := 1 },
            { enc := 2, blocking := true }, { enc := 2 }],
    st := [{ pos := (0, 0) }, { pos := (0, 1) }, { pos := (0, 2) }] }

def blockCfg : AttackCfg := ⟨.selective, [(1, [2])], false⟩

def blockAct : AttackAct :=
  .grid [0,0,0,0,0, 0,0,0,0,0, 0,0,0,1,1, 0,0,0,0,0, 0,0,0,0,0]

example :
    (match processAttack blockCfg blockWorld 0 blockAct [] with
     | .ok ((st, hits), w', _) =>
       st && hits == [1] && ((w'.stOf 1).health == 3/4) && (w'.stOf 1).active && (w'.stOf 2 == blockWorld.stOf 2) &&
         attackPre blockCfg blockWorld 0 blockAct && AttackSpec blockCfg blockWorld 0 blockAct hits w'
     | .error _ => false) = true := by decide +kernel

/-- … and the judge rejects an outcome that hits the hidden agent -/
example :
    AttackSpec blockCfg blockWorld 0 blockAct [2]
      { blockWorld with st := [{ pos := (0, 0) }, { pos := (0, 1) }, { pos := (0, 2), health := 3/4 }] }
      = false := by decide +kernel

end Abmarl
