import Abmarl.Model.GridSim
/-!
# `MultiAgentGridSim` (`abmarl/examples/sim/multi_agent_grid_sim.py`) — glue over `PositionState`

```python
def reset(self, **kwargs):           self.position_state.reset()
def step(self, action_dict, **kw):   pass
def get_obs(self, agent_id, **kw):   return {}
def get_reward(self, agent_id, **kw): return 0
def get_done(self, agent_id, **kw):  return False
def get_all_done(self, **kw):        return False
def get_info(self, agent_id, **kw):  return {}
```

The only state is the grid world (`World`); `reset` is the existing model of `PositionState.reset`
(`applyComps [position …]`, Model/Resets.lean) on the oracle tape; nothing else touches anything, and
no getter looks at its argument (an unknown agent id is answered like any other, also before the first
reset).  `started` is a ghost flag (a reset has returned): the class keeps nothing of the kind.
As for the other grid examples, a `reset` that raises (a placement that finds no cell) leaves the model
state unchanged and the history ends there.  This file imports only Model files.
-/
namespace Abmarl
namespace MAG

structure Cfg where
  learning : List Bool          -- `is_agent`, per agent
  comp     : StateComp          -- the `PositionState` with its options (what `SimIface.reset` uses)

structure St where
  w       : World
  started : Bool := false
  tape    : Tape := []

def Cfg.isLearning (cfg : Cfg) (a : Aid) : Bool := cfg.learning.getD a false

/-- `self.position_state.reset()` -/
def reset (c : StateComp) (s : St) : Except GErr St :=
  match applyComps [c] s.w s.tape with
  | .error e => .error e
  | .ok (w', t') => .ok { w := w', started := true, tape := t' }

inductive MOp where
  | reset   (c : StateComp) (tape : Tape)
  | step    (keys : List Aid)           -- the keys of the action dict (the values are never looked at)
  | obs     (a : Aid)
  | rew     (a : Aid)
  | done    (a : Aid)
  | allDone

inductive MRes where
  | unit
  | int  (r : Int)
  | obs  (nkeys : Nat) (member : Bool)  -- the observation dict has `nkeys` keys (model: 0); member of the declared space
  | bool (b : Bool)
  | err  (e : GErr)
deriving Repr, DecidableEq

structure MEntry where
  res : MRes
  w   : World

def runOp (s : St) : MOp → MEntry × St
  | .reset c tape =>
    match reset c { s with tape := tape } with
    | .ok s' => (⟨.unit, s'.w⟩, s')
    | .error e => (⟨.err e, s.w⟩, s)
  | .step _ => (⟨.unit, s.w⟩, s)
  | .obs _ => (⟨.obs 0 true, s.w⟩, s)
  | .rew _ => (⟨.int 0, s.w⟩, s)
  | .done _ => (⟨.bool false, s.w⟩, s)
  | .allDone => (⟨.bool false, s.w⟩, s)

def MRes.isErr : MRes → Bool
  | .err _ => true
  | _ => false

/-- a history; it ends with the first call that raises -/
def runOps : St → List MOp → List MEntry × St
  | s, [] => ([], s)
  | s, op :: ops =>
    let r := runOp s op
    if r.1.res.isErr then ([r.1], r.2)
    else
      let rest := runOps r.2 ops
      (r.1 :: rest.1, rest.2)

/-- what `get_obs` returns, as (number of keys of the dict, member of the declared space) -/
abbrev ObsOut := Nat × Bool

/-- the simulation as the managers see it: nobody is ever done, every reward is 0, every observation `{}` -/
def toSimIface (cfg : Cfg) (n : Nat) : SimIface St Int ObsOut Unit where
  n := n
  learning := cfg.isLearning
  reset := fun s => match reset cfg.comp s with | .ok s' => s' | .error _ => s
  step := fun s _ => s
  obs := fun s _ => ((0, true), s)
  reward := fun s _ => (0, s)
  done := fun _ _ => false
  allDone := fun _ => false
  info := fun _ _ => ()
  next := fun _ => []
  pending := fun _ _ => 0

end MAG
end Abmarl
