import Abmarl.Model.Managers
/-!
# M1 functor — `SuperAgentWrapper` (abmarl/sim/wrappers/super_agent_wrapper.py)

The wrapper as a functor on simulations: `superSim S cfg` is again a `SimIface`, so every
manager / adapter / trainer theorem applies to a wrapped simulation (`superSim_lawful`,
`superSim_WF` in `Lemmas/SuperAgentLawful.lean`).

* inner agents are indices `0..S.n-1`; the mapping `{super_i: [covered…]}` is `cfg.groups`
  (mapping order, each list in its own order); `cfg.uncovered` is the iteration order of the
  Python `set` `sim.agents.keys() - covered` **as read at run time** by the harness;
* outer agents: `0..k-1` the super agents, then the uncovered agents in `cfg.uncovered` order
  (`_construct_agents_from_super_agent_mapping`);
* state = inner state + the two dictionaries `_last_obs_reported`, `_last_reward_reported`
  (as the lists of agents whose entry is `True`);
* every effectful inner read (`sim.get_obs`, `sim.get_reward`) threads the inner state in the
  order the Python evaluates it; `sim.get_done` / `get_all_done` / `get_info` are pure in `SimIface`;
* `_get_null_obs` uses the declared null observation only if it is *truthy* in Python
  (`if self.sim.agents[agent_id].null_observation:`); a falsy declared value (e.g. the integer 0 of
  a ravelled observation) is treated by the code like an undeclared one: fallback to a real read.
  `cfg.nullTruthy` carries Python's truth value, read at run time;
* the one-time `warnings.warn` of `_get_null_obs` is not modelled.

A second, call-level interface (`SCall`, `supCall`, `supRun`) drives the wrapper getter by
getter, as a user or a manager does, and records after every call the ghost observations of the
**inner** simulation (done flags, pending rewards, the argument `sim.step` received, the inner
`get_obs` reads made during the call), so that specifications never look at wrapper internals.
-/
namespace Abmarl

variable {σ α ω ι : Type}

/-- an action handed to the wrapper: a plain action (uncovered agent) or the dictionary
`{covered: action}` of a super agent (in the order of the dictionary) -/
inductive SAct (α : Type) where
  | plain : α → SAct α
  | joint : List (Aid × α) → SAct α
deriving Repr, DecidableEq

/-- an observation handed out: the inner one (uncovered agent) or `{'mask': {c: [bit]}, c: obs}` -/
inductive SObs (ω : Type) where
  | plain : ω → SObs ω
  | super : (mask : List (Aid × Bool)) → (obs : List (Aid × ω)) → SObs ω
deriving Repr, DecidableEq

inductive SInfo (ι : Type) where
  | plain : ι → SInfo ι
  | super : List (Aid × ι) → SInfo ι
deriving Repr, DecidableEq

structure SuperCfg (ω : Type) where
  /-- `super_agent_mapping.values()`, in mapping order -/
  groups     : List (List Aid)
  /-- `_uncovered_agents` in the iteration order the wrapper's `agents` dict was built with -/
  uncovered  : List Aid
  /-- declared null observation of every inner agent (`none`: not declared, Python `{}`) -/
  nullObs    : List (Option ω)
  /-- Python truth value of the declared null observation -/
  nullTruthy : List Bool

def SuperCfg.covered (cfg : SuperCfg ω) : List Aid := cfg.groups.flatten

def SuperCfg.declared (cfg : SuperCfg ω) (c : Aid) : Option ω := (cfg.nullObs[c]?).join

/-- what `_get_null_obs` can return without touching the simulation -/
def SuperCfg.usableNull (cfg : SuperCfg ω) (c : Aid) : Option ω :=
  if cfg.nullTruthy.getD c false then cfg.declared c else none

/-- the constructor's assertions on the mapping (all `AssertionError`): every covered agent is an
agent of the simulation, is covered once, and is a learning agent -/
def ctorOK (n : Nat) (learning : Aid → Bool) (cfg : SuperCfg ω) : Bool :=
  cfg.covered.all (fun c => decide (c < n) && learning c) && decide cfg.covered.Nodup

/-- who an outer agent is -/
inductive Outer where
  | sup : List Aid → Outer      -- a super agent with its covered list
  | unc : Aid → Outer           -- an uncovered inner agent
  | bad : Outer                 -- no such agent
deriving Repr, DecidableEq

/-- outer agent index → who it is (`agents`: super agents in mapping order, then the uncovered) -/
def SuperCfg.outer (cfg : SuperCfg ω) (x : Aid) : Outer :=
  match cfg.groups[x]? with
  | some cov => .sup cov
  | none =>
    match cfg.uncovered[x - cfg.groups.length]? with
    | some a => .unc a
    | none => .bad

structure SupSt (σ : Type) where
  sim     : σ
  lastObs : List Aid := []      -- `_last_obs_reported[c] is True`
  lastRew : List Aid := []      -- `_last_reward_reported[c] is True`

/-! ## `step`: unravel and filter -/

/-- `d[k] = v` on an insertion-ordered dictionary -/
def supDictSet {β : Type} (d : List (Aid × β)) (k : Aid) (v : β) : List (Aid × β) :=
  if d.any (fun p => p.1 == k) then d.map (fun p => if p.1 == k then (k, v) else p)
  else d ++ [(k, v)]

/-- the dictionary obtained by inserting the pairs one after the other -/
def supDictOf {β : Type} (l : List (Aid × β)) : List (Aid × β) :=
  l.foldl (fun d p => supDictSet d p.1 p.2) []

/-- the insertions `step` makes into `unravelled_action_dict` for one item of the action dict;
ill-shaped items (outside the action space) make the real code raise, see `checkActs` -/
def unravel1 (S : SimIface σ α ω ι) (s : σ) (p : Outer × SAct α) : List (Aid × α) :=
  match p.1, p.2 with
  | .sup _, .joint l => l.filter (fun q => !S.done s q.1)
  | .unc a, .plain v => [(a, v)]
  | _, _ => []

/-- the argument `self.sim.step` is called with -/
def supStepArgs (S : SimIface σ α ω ι) (s : σ) (acts : List (Outer × SAct α)) : List (Aid × α) :=
  supDictOf (acts.flatMap (unravel1 S s))

/-! ## `get_obs` -/

/-- one covered agent of a super observation: mask bit, observation entry, and whether the entry
came from a real `sim.get_obs` -/
structure ObsItem (ω : Type) where
  agent : Aid
  mask  : Bool
  obs   : ω
  real  : Bool

def supObs1 (S : SimIface σ α ω ι) (cfg : SuperCfg ω) (st : SupSt σ) (c : Aid) : ObsItem ω × SupSt σ :=
  if S.done st.sim c then
    if c ∈ st.lastObs then
      -- `_get_null_obs`
      match cfg.usableNull c with
      | some o => (⟨c, false, o, false⟩, st)
      | none =>
        let r := S.obs st.sim c
        (⟨c, false, r.1, true⟩, { st with sim := r.2 })
    else
      let r := S.obs st.sim c
      (⟨c, false, r.1, true⟩, { st with sim := r.2, lastObs := c :: st.lastObs })
  else
    let r := S.obs st.sim c
    (⟨c, true, r.1, true⟩, { st with sim := r.2 })

def supObsLoop (S : SimIface σ α ω ι) (cfg : SuperCfg ω) : List Aid → SupSt σ → List (ObsItem ω) × SupSt σ
  | [], st => ([], st)
  | c :: cs, st =>
    let r := supObs1 S cfg st c
    let rest := supObsLoop S cfg cs r.2
    (r.1 :: rest.1, rest.2)

def packObs (l : List (ObsItem ω)) : SObs ω :=
  .super (l.map fun i => (i.agent, i.mask)) (l.map fun i => (i.agent, i.obs))

/-- ghost: the inner `get_obs` calls behind a super observation, in order -/
def readsOf (l : List (ObsItem ω)) : List (Aid × ω) :=
  (l.filter (·.real)).map fun i => (i.agent, i.obs)

/-- value, ghost read log, new state -/
def supObs (S : SimIface σ α ω ι) (cfg : SuperCfg ω) (st : SupSt σ) :
    Outer → SObs ω × List (Aid × ω) × SupSt σ
  | .sup cov =>
    let r := supObsLoop S cfg cov st
    (packObs r.1, readsOf r.1, r.2)
  | .unc a =>
    let r := S.obs st.sim a
    (.plain r.1, [(a, r.1)], { st with sim := r.2 })
  | .bad => (.super [] [], [], st)

/-! ## `get_reward` -/

def supRewLoop (S : SimIface σ α ω ι) : List Aid → SupSt σ → Int → Int × SupSt σ
  | [], st, sum => (sum, st)
  | c :: cs, st, sum =>
    if S.done st.sim c then
      if c ∈ st.lastRew then supRewLoop S cs st sum
      else
        let r := S.reward st.sim c
        supRewLoop S cs { st with sim := r.2, lastRew := c :: st.lastRew } (sum + r.1)
    else
      let r := S.reward st.sim c
      supRewLoop S cs { st with sim := r.2 } (sum + r.1)

def supReward (S : SimIface σ α ω ι) (st : SupSt σ) : Outer → Int × SupSt σ
  | .sup cov => supRewLoop S cov st 0
  | .unc a =>
    let r := S.reward st.sim a
    (r.1, { st with sim := r.2 })
  | .bad => (0, st)

/-! ## pure getters -/

def supDone (S : SimIface σ α ω ι) (st : SupSt σ) : Outer → Bool
  | .sup cov => cov.all (S.done st.sim)
  | .unc a => S.done st.sim a
  | .bad => false

def supInfo (S : SimIface σ α ω ι) (st : SupSt σ) : Outer → SInfo ι
  | .sup cov => .super (cov.map fun c => (c, S.info st.sim c))
  | .unc a => .plain (S.info st.sim a)
  | .bad => .super []

/-- ghost: what a super agent will still be paid from what has accrued so far — the pending
rewards of its covered agents that have not had their final count -/
def supPending (S : SimIface σ α ω ι) (st : SupSt σ) : Outer → Int
  | .sup cov =>
    ((cov.filter fun c => !(S.done st.sim c && decide (c ∈ st.lastRew))).map (S.pending st.sim)).sum
  | .unc a => S.pending st.sim a
  | .bad => 0

def supReset (S : SimIface σ α ω ι) (st : SupSt σ) : SupSt σ :=
  { sim := S.reset st.sim, lastObs := [], lastRew := [] }

/-! ## the functor -/

def superSim (S : SimIface σ α ω ι) (cfg : SuperCfg ω) :
    SimIface (SupSt σ) (SAct α) (SObs ω) (SInfo ι) where
  n := cfg.groups.length + cfg.uncovered.length
  learning := fun x =>
    match cfg.outer x with
    | .sup _ => true
    | .unc a => S.learning a
    | .bad => false
  reset := supReset S
  step := fun st acts =>
    { st with sim := S.step st.sim (supStepArgs S st.sim (acts.map fun p => (cfg.outer p.1, p.2))) }
  obs := fun st x =>
    let r := supObs S cfg st (cfg.outer x)
    (r.1, r.2.2)
  reward := fun st x => supReward S st (cfg.outer x)
  done := fun st x => supDone S st (cfg.outer x)
  allDone := fun st => S.allDone st.sim
  info := fun st x => supInfo S st (cfg.outer x)
  -- the wrapper is an `AgentBasedSimulation`, not a `DynamicOrderSimulation`: it nominates nobody
  next := fun _ => []
  pending := fun st x => supPending S st (cfg.outer x)

/-! ## the call-level interface -/

/-- how a caller names an agent: a key of the mapping, or an agent id of the inner simulation -/
inductive Ref where
  | sup   : Nat → Ref
  | inner : Aid → Ref
deriving Repr, DecidableEq

/-- dispatch on the agent id as every method does: covered → `AssertionError`; key of the mapping →
super agent; anything else is forwarded to the inner simulation (an unknown id raises there) -/
def resolve (n : Nat) (cfg : SuperCfg ω) : Ref → Except Err Outer
  | .sup i =>
    match cfg.groups[i]? with
    | some cov => .ok (.sup cov)
    | none => .error .crash
  | .inner a =>
    if a ∈ cfg.covered then .error .rejected
    else if a < n then .ok (.unc a)
    else .error .crash

/-- `step` walks the action dict in order; the first offending item decides the exception:
a covered agent's id → `AssertionError`; an item outside the action space (a plain action for a super
agent: `action.items()` fails; a joint action naming an agent the simulation does not have:
`sim.get_done` fails; a dictionary for an uncovered agent or an unknown id: by convention, the
inner simulation's exception decides and the harness never generates these) → crash.
Nothing has reached the simulation at that point. -/
def badItem (n : Nat) (o : Outer) (a : SAct α) : Bool :=
  match o, a with
  | .sup _, .plain _ => true
  | .unc _, .joint _ => true
  | .sup _, .joint l => l.any (fun q => decide (n ≤ q.1))     -- `sim.get_done(unknown id)`
  | _, _ => false

def checkActs (n : Nat) (cfg : SuperCfg ω) : List (Ref × SAct α) → Except Err (List (Outer × SAct α))
  | [] => .ok []
  | (r, a) :: rest =>
    match resolve n cfg r with
    | .error e => .error e
    | .ok o =>
      if badItem n o a then .error .crash
      else
        match checkActs n cfg rest with
        | .error e => .error e
        | .ok l => .ok ((o, a) :: l)

inductive SCall (α : Type) where
  | reset      : SCall α
  | step       : List (Ref × SAct α) → SCall α
  | getObs     : Ref → SCall α
  | getReward  : Ref → SCall α
  | getDone    : Ref → SCall α
  | getAllDone : SCall α
  | getInfo    : Ref → SCall α
deriving Repr

inductive SupRes (ω ι : Type) where
  | unit   : SupRes ω ι
  | obs    : SObs ω → SupRes ω ι
  | reward : Int → SupRes ω ι
  | done   : Bool → SupRes ω ι
  | info   : SInfo ι → SupRes ω ι
  | err    : Err → SupRes ω ι
deriving Repr, DecidableEq

/-- one call with the ghost observations of the **inner** simulation -/
structure SupEntry (α ω ι : Type) where
  call       : SCall α
  res        : SupRes ω ι
  /-- the argument the inner `sim.step` received during this call, if it was called -/
  simArgs    : Option (List (Aid × α))
  /-- the inner pending rewards right after the inner `step`/`reset` of this call (before any
  read); equal to the pending rewards before the call otherwise -/
  accrued    : List Int
  /-- the inner `get_obs` calls made during this call, in order, with the values returned -/
  obsReads   : List (Aid × ω)
  simDone    : List Bool        -- inner done flags after the call
  pending    : List Int         -- inner pending rewards after the call
  simAllDone : Bool
  simInfos   : List ι           -- inner infos after the call

structure SCSt (σ : Type) where
  st      : SupSt σ
  /-- `reset` has been called: the dictionaries `_last_*_reported` exist -/
  started : Bool := false

def sup_mkEntry (S : SimIface σ α ω ι) (call : SCall α) (res : SupRes ω ι) (args : Option (List (Aid × α)))
    (sAccr : σ) (reads : List (Aid × ω)) (s' : σ) : SupEntry α ω ι :=
  { call := call, res := res, simArgs := args, accrued := S.agents.map (S.pending sAccr),
    obsReads := reads, simDone := S.agents.map (S.done s'), pending := S.agents.map (S.pending s'),
    simAllDone := S.allDone s', simInfos := S.agents.map (S.info s') }

/-- before the first `reset` the dictionaries do not exist: `get_obs` of a super agent raises
`AttributeError` at its first done covered agent, after the real reads for the agents before it -/
def preObsLoop (S : SimIface σ α ω ι) : List Aid → σ → List (Aid × ω) → Bool × List (Aid × ω) × σ
  | [], s, log => (false, log, s)
  | c :: cs, s, log =>
    if S.done s c then (true, log, s)
    else
      let r := S.obs s c
      preObsLoop S cs r.2 (log ++ [(c, r.1)])

/-- the same for `get_reward` -/
def preRewLoop (S : SimIface σ α ω ι) : List Aid → σ → Bool × σ
  | [], s => (false, s)
  | c :: cs, s =>
    if S.done s c then (true, s)
    else preRewLoop S cs (S.reward s c).2

def supCall (S : SimIface σ α ω ι) (cfg : SuperCfg ω) (cs : SCSt σ) (call : SCall α) :
    SupEntry α ω ι × SCSt σ :=
  let st := cs.st
  let fail := fun (e : Err) => (sup_mkEntry S call (.err e) none st.sim [] st.sim, cs)
  match call with
  | .reset =>
    let st' := supReset S st
    (sup_mkEntry S call .unit none st'.sim [] st'.sim, { st := st', started := true })
  | .step acts =>
    (match checkActs S.n cfg acts with
     | .error e => fail e
     | .ok oacts =>
       let args := supStepArgs S st.sim oacts
       let s' := S.step st.sim args
       (sup_mkEntry S call .unit (some args) s' [] s', { cs with st := { st with sim := s' } }))
  | .getObs r =>
    (match resolve S.n cfg r with
     | .error e => fail e
     | .ok o =>
       match o, cs.started with
       | .sup cov, false =>
         let p := preObsLoop S cov st.sim []
         if p.1 then
           (sup_mkEntry S call (.err .crash) none st.sim p.2.1 p.2.2, { cs with st := { st with sim := p.2.2 } })
         else
           let v := supObs S cfg st o
           (sup_mkEntry S call (.obs v.1) none st.sim v.2.1 v.2.2.sim, { cs with st := v.2.2 })
       | _, _ =>
         let v := supObs S cfg st o
         (sup_mkEntry S call (.obs v.1) none st.sim v.2.1 v.2.2.sim, { cs with st := v.2.2 }))
  | .getReward r =>
    (match resolve S.n cfg r with
     | .error e => fail e
     | .ok o =>
       match o, cs.started with
       | .sup cov, false =>
         let p := preRewLoop S cov st.sim
         if p.1 then
           (sup_mkEntry S call (.err .crash) none st.sim [] p.2, { cs with st := { st with sim := p.2 } })
         else
           let v := supReward S st o
           (sup_mkEntry S call (.reward v.1) none st.sim [] v.2.sim, { cs with st := v.2 })
       | _, _ =>
         let v := supReward S st o
         (sup_mkEntry S call (.reward v.1) none st.sim [] v.2.sim, { cs with st := v.2 }))
  | .getDone r =>
    (match resolve S.n cfg r with
     | .error e => fail e
     | .ok o => (sup_mkEntry S call (.done (supDone S st o)) none st.sim [] st.sim, cs))
  | .getAllDone => (sup_mkEntry S call (.done (S.allDone st.sim)) none st.sim [] st.sim, cs)
  | .getInfo r =>
    (match resolve S.n cfg r with
     | .error e => fail e
     | .ok o => (sup_mkEntry S call (.info (supInfo S st o)) none st.sim [] st.sim, cs))

def supRun (S : SimIface σ α ω ι) (cfg : SuperCfg ω) : SCSt σ → List (SCall α) → List (SupEntry α ω ι)
  | _, [] => []
  | cs, c :: rest =>
    let r := supCall S cfg cs c
    r.1 :: supRun S cfg r.2 rest

/-- construction (the mapping's assertions) followed by a call history -/
def supSession (S : SimIface σ α ω ι) (cfg : SuperCfg ω) (s0 : σ) (calls : List (SCall α)) :
    Except Err (List (SupEntry α ω ι)) :=
  if ctorOK S.n S.learning cfg then .ok (supRun S cfg { st := { sim := s0 } } calls)
  else .error .rejected

end Abmarl
