import Abmarl.Model.Oracle
import Abmarl.Model.Grid
/-!
# `generate_maze` (abmarl/sim/gridworld/utils.py): Prim's algorithm on a padded grid

Transcribed statement for statement.

* the working grid has `rows+2` by `cols+2` cells, stored flat and row-major, with the values the
  Python uses: `0` passage, `1` wall, `2` unvisited; cells are padded coordinates `(r, c)`;
* `unvisited_neighboring_cells` looks at up, down, left, right in this order, skips the border
  ring, and turns every unvisited neighbour into a wall while collecting it;
* the frontier `unvisited_walls` is a list; `list(set(xs))` is an insertion-ordered
  de-duplication (the harness injects such a `set` into the module, DESIGN.md §3), modelled by
  `dedup`;
* every iteration draws `np.random.randint(0, len(unvisited_walls))` from the oracle tape;
* the `while` loop runs on fuel `(rows+2)*(cols+2)`; running out of it is the explicit result
  `none` (the real code would keep looping) — `maze_terminates` (Props/C13) shows it unreachable;
* a read outside the flat table yields `1` (never happens for interior cells; this default makes
  "the value is 2" imply "the index is inside").
-/
namespace Abmarl
namespace Maze

abbrev Cell := Nat × Nat

def mget (C : Nat) (g : List Nat) (q : Cell) : Nat := g.getD (q.1 * C + q.2) 1
def mset (C : Nat) (g : List Nat) (q : Cell) (v : Nat) : List Nat := g.set (q.1 * C + q.2) v

/-- up, down, left, right — the order of the Python literal -/
def nbrs (p : Cell) : List Cell := [(p.1 - 1, p.2), (p.1 + 1, p.2), (p.1, p.2 - 1), (p.1, p.2 + 1)]

/-- `neighbor[0] in [0, rows - 1] or neighbor[1] in [0, cols - 1]` (padded sizes) -/
def isBorder (R C : Nat) (q : Cell) : Bool :=
  q.1 == 0 || q.1 == R - 1 || q.2 == 0 || q.2 == C - 1

/-- one neighbour of `unvisited_neighboring_cells` -/
def visitNbr (R C : Nat) (acc : List Cell × List Nat) (q : Cell) : List Cell × List Nat :=
  if isBorder R C q then acc
  else if mget C acc.2 q == 2 then (acc.1 ++ [q], mset C acc.2 q 1)
  else acc

/-- `unvisited_neighboring_cells(cell)`: the collected cells and the updated grid -/
def unvisitedNbrs (R C : Nat) (g : List Nat) (cell : Cell) : List Cell × List Nat :=
  (nbrs cell).foldl (visitNbr R C) ([], g)

/-- `sum_neighboring_free(cell)` -/
def sumFree (C : Nat) (g : List Nat) (cell : Cell) : Nat :=
  ((nbrs cell).filter (fun q => mget C g q == 0)).length

def insertNew (acc : List Cell) (x : Cell) : List Cell := if x ∈ acc then acc else acc ++ [x]
/-- `list(set(xs))` with the insertion-ordered set: first occurrences, in order -/
def dedup (l : List Cell) : List Cell := l.foldl insertNew []

/-- the condition of the `if` guarding the opening of a frontier cell -/
def oneSided (C : Nat) (g : List Nat) (cur : Cell) : Bool :=
  ((mget C g (cur.1 - 1, cur.2) == 2) ^^ (mget C g (cur.1 + 1, cur.2) == 2)) ||
  ((mget C g (cur.1, cur.2 - 1) == 2) ^^ (mget C g (cur.1, cur.2 + 1) == 2))

/-- the body of one `while` iteration, given the drawn cell: new grid and new frontier -/
def iter (R C : Nat) (g : List Nat) (fr : List Cell) (cur : Cell) : List Nat × List Cell :=
  let r : List Nat × List Cell :=
    if oneSided C g cur then
      if sumFree C g cur < 2 then
        let g1 := mset C g cur 0
        let u := unvisitedNbrs R C g1 cur
        (u.2, dedup (fr ++ u.1))
      else (g, fr)
    else (g, fr)
  (r.1, r.2.erase cur)

/-- `while unvisited_walls:` on fuel -/
def mazeLoop (R C : Nat) : Nat → List Nat → List Cell → Tape → Option (List Nat × Tape)
  | _, g, [], t => some (g, t)
  | 0, _, _ :: _, _ => none
  | fuel + 1, g, x :: xs, t =>
    let d := Oracle.randint 0 ((x :: xs).length : Nat) t
    let cur := (x :: xs).getD d.1.toNat x
    let r := iter R C g (x :: xs) cur
    mazeLoop R C fuel r.1 r.2 d.2

/-- `grid[grid == 2] = 1; return grid[1:-1, 1:-1]`, flat row-major `rows*cols` -/
def finish (rows cols : Nat) (g : List Nat) : List Nat :=
  (List.range (rows * cols)).map fun i =>
    if mget (cols + 2) g (i / cols + 1, i % cols + 1) == 0 then 0 else 1

def fuelFor (rows cols : Nat) : Nat := (rows + 2) * (cols + 2)

/-- the padded grid after the whole algorithm (before the borders are lopped off) -/
def generatePadded (rows cols : Nat) (start : Pos) (t : Tape) : Except GErr (List Nat × Tape) :=
  if decide (0 ≤ start.1) && decide (start.1 < rows) && decide (0 ≤ start.2) && decide (start.2 < cols) then
    let R := rows + 2
    let C := cols + 2
    let s : Cell := (start.1.toNat + 1, start.2.toNat + 1)
    let g0 := List.replicate (R * C) 2
    let g1 := mset C g0 s 0
    let u := unvisitedNbrs R C g1 s
    match mazeLoop R C (fuelFor rows cols) u.2 u.1 t with
    | some r => .ok r
    | none => .error .other        -- model only: the loop did not end within the fuel (real code: hang)
  else .error .badIndex            -- `grid[tuple(start)]` outside the array (callers guard)

/-- `generate_maze(rows, cols, start)`: flat row-major maze, 0 passage / 1 wall -/
def generateMaze (rows cols : Nat) (start : Pos) (t : Tape) : Except GErr (List Nat × Tape) :=
  match generatePadded rows cols start t with
  | .ok r => .ok (finish rows cols r.1, r.2)
  | .error e => .error e

end Maze
end Abmarl
