import Abmarl.Model.GridWire
import Abmarl.Model.Attacks
import Abmarl.Spec.Attacks
/-!
Driver glue for the attack actors (`gattack`).  Trusted base.

request  `(gattack stat dynPre (kind mapping stacked attacker action) tape implOutcome)`
         kind ∈ binary|encoding|selective|restricted; mapping = `((enc (enc ...)) ...)`;
         stacked = 0/1; attacker = agent index; action = an int (binary), `((enc count) ...)` in
         the iteration order of the action dictionary (encoding), the `(2R+1)²` counts row-major
         (selective), the list of cell numbers (restricted); tape = list of naturals;
outcome  `(ok status (hit indices in order) dynPost)` or `(err kind)`;
reply    `(modelOutcome (c11 c03 pre preWInv) (c11 c03))` — `specC11` / `specC03Attack` on the
         model's and on the implementation's outcome (1/0; -1 when absent or unparsable), the
         theorems' hypotheses `attackPre` and `WInv` of the pre-world.
-/
namespace Abmarl
namespace AttacksDriver
open GridWire World

def kind? : Val → Option AttackKind
  | .atom "binary" => some .binary
  | .atom "encoding" => some .encoding
  | .atom "selective" => some .selective
  | .atom "restricted" => some .restricted
  | _ => none

def pairs? (v : Val) : Option (List (Int × Nat)) := do
  (← v.list?).mapM fun p => do
    match p with
    | .list [e, k] => pure ((← e.int?), (← k.nat?))
    | _ => none

def act? (k : AttackKind) (v : Val) : Option AttackAct :=
  match k with
  | .binary => v.nat?.map .count
  | .encoding => (pairs? v).map .perEnc
  | .selective => v.nats?.map .grid
  | .restricted => v.nats?.map .cells

def call? (v : Val) : Option (AttackCfg × Aid × AttackAct) := do
  match v with
  | .list [k, mp, st, a, act] =>
    let kind ← kind? k
    pure (⟨kind, ← overlap? mp, ← st.bool?⟩, ← a.nat?, ← act? kind act)
  | _ => none

abbrev Out := Except GErr ((Bool × List Aid) × World)

def encOut : Out → Val
  | .ok ((s, hits), w) => .list [.atom "ok", Val.ofBool s, Val.ofNats hits, encDyn w]
  | .error e => .list [.atom "err", encGErr e]

def gerr? : Val → GErr
  | .atom "keyError" => .keyError
  | .atom "badIndex" => .badIndex
  | .atom "assertion" => .assertion
  | .atom "noCell" => .noCell
  | _ => .other

def out? (stat : Val) (v : Val) : Option Out := do
  match v with
  | .list [.atom "ok", s, hits, dyn] => pure (.ok ((← s.bool?, ← hits.nats?), ← world? stat dyn))
  | .list [.atom "err", e] => pure (.error (gerr? e))
  | _ => none

def b2v (b : Bool) : Val := Val.ofBool b

def handle (args : List Val) : Option Val := do
  match args with
  | [stat, dyn, call, tape, impl] =>
    let w ← world? stat dyn
    let (cfg, a, act) ← call? call
    let t ← tape.nats?
    let m : Out := (processAttack cfg w a act t).map fun r => (r.1, r.2.1)
    let ms : Val := .list [b2v (specC11 cfg w a act m), b2v (specC03Attack cfg w a act m),
                           b2v (attackPre cfg w a act), b2v w.WInv]
    let is : Val :=
      match out? stat impl with
      | some io => .list [b2v (specC11 cfg w a act io), b2v (specC03Attack cfg w a act io)]
      | none => .list [.int (-1), .int (-1)]
    pure (.list [encOut m, ms, is])
  | _ => none

end AttacksDriver
end Abmarl
