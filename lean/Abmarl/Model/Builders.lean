/-!
# M3 `Builders` — the four builders of `GridWorldSimulation` and the placement at reset

Transcribed branch for branch from `abmarl/sim/gridworld/base.py`
(`build_sim`, `build_sim_from_array`, `build_sim_from_file`, `build_sim_from_grid`, `_build_sim`),
`abmarl/sim/gridworld/grid.py` (`Grid.__init__`, `query`, `place`) and
`abmarl/sim/gridworld/state.py` (`PositionState.reset`, only what C18 needs).

Representation
* a *layout* is `rows`, `cols` and the row-major list `cells` of character codes (a numpy array
  is always rectangular: `cells.length = rows * cols`; the driver refuses anything else);
* a *registry* is the insertion-ordered list of `(character code, encoding)`: the registered
  function of character `ch` builds, for the counter value `n`, the agent with id
  `f"{name_ch}{n}"` (here `AId.gen ch n`) and encoding `enc`; the builder then assigns
  `initial_position = np.array([r, c])`;
* an agents dictionary is the list of its values in insertion order (keys are the agents' ids,
  which `AgentBasedSimulation.agents` asserts); `agents[agent.id] = agent` is `dictSet`:
  **an existing key keeps its place and gets the new value**, a new key is appended.  The
  builders start from `agents = extra_agents` (the caller's dictionary itself), so extras come
  first and a layout agent with the id of an extra agent replaces it in place;
* `ndx` (the per-character counter dictionary, `KeyError` ⇒ 0) is a function with default 0;
* a text file is the list of its character codes; `str.splitlines` and `str.split(' ')` are
  modelled as Python defines them (all line boundaries of `splitlines`, no trailing empty
  line, `split(' ')` keeps empty tokens);
* a `Grid` is the row-major list of its cells, `none` for a cell that was never reset, else the
  cell's dictionary in insertion order.

What the code checks for "reserved" characters: none of `0`, `'0'`, `'.'`, `'_'` may be a registry
key.  Among character keys these are `'0'` (48), `'.'` (46) and `'_'` (95).  (Before the repair
e0e97b5 only the *integer* zero was checked, which no character equals: finding B1, fixed.)
-/
namespace Abmarl
namespace Builders

/-- agent ids: `gen ch n` is the id the registered function of character `ch` gives for counter
`n`; `other k` is any other id -/
inductive AId where
  | gen   (ch n : Nat)
  | other (k : Nat)
deriving DecidableEq, Repr, Inhabited

abbrev Pos := Nat × Nat

structure Agent where
  id   : AId
  enc  : Nat
  ipos : Option Pos
deriving DecidableEq, Repr, Inhabited

inductive Err where
  | reservedKey   -- "0, '.', and '_' are reserved for empty space."
  | badShape      -- rows / cols not a positive integer (`build_sim`, `Grid.__init__`)
  | emptyFile     -- `lines[0]` on a file without lines: IndexError
  | ragged        -- "Mismatched number of columns per row"
  | posMismatch   -- `build_sim_from_grid`: initial position differs from the cell
  | cellTaken     -- `PositionState`: "Cell … is not available for …"
  | noCell        -- `PositionState`: "Could not find a cell for …"
  | noAgents      -- `PositionState._build_available_positions`: `max([])`
  | crash         -- anything else
deriving DecidableEq, Repr, Inhabited

structure Sim where
  rows   : Nat
  cols   : Nat
  agents : List Agent
deriving DecidableEq, Repr, Inhabited

abbrev Registry := List (Nat × Nat)

instance decEqExcept {ε α : Type} [DecidableEq ε] [DecidableEq α] : DecidableEq (Except ε α)
  | .ok a, .ok b =>
    if h : a = b then isTrue (by rw [h]) else isFalse (by intro e; injection e with e; exact h e)
  | .error a, .error b =>
    if h : a = b then isTrue (by rw [h]) else isFalse (by intro e; injection e with e; exact h e)
  | .ok _, .error _ => isFalse (by intro e; cases e)
  | .error _, .ok _ => isFalse (by intro e; cases e)

/-- `for i in range(start, start + k): st = f(st, i)` -/
def forRange {σ : Type} (f : σ → Nat → σ) : Nat → Nat → σ → σ
  | 0, _, st => st
  | k + 1, i, st => forRange f k (i + 1) (f st i)

/-- the same loop when the body may raise -/
def forRangeE {σ : Type} (f : σ → Nat → Except Err σ) : Nat → Nat → σ → Except Err σ
  | 0, _, st => .ok st
  | k + 1, i, st =>
    match f st i with
    | .error e => .error e
    | .ok st' => forRangeE f k (i + 1) st'

/-- `agents[a.id] = a` on an insertion-ordered dictionary -/
def dictSet : List Agent → Agent → List Agent
  | [], a => [a]
  | b :: bs, a => if b.id = a.id then a :: bs else b :: dictSet bs a

/-- the loop state of the array and file builders: `agents` and `ndx` -/
structure St where
  agents : List Agent
  ndx    : Nat → Nat

def St.init (extras : List Agent) : St := { agents := extras, ndx := fun _ => 0 }

/-- the body of the double loop for one entry `ch` at `(r, c)`:
```
if char in object_registry:
    try: n = ndx[char]
    except KeyError: ndx[char] = 0; n = 0
    agent = object_registry[char](n)
    agent.initial_position = np.array([r, c])
    agents[agent.id] = agent
    ndx[char] += 1
``` -/
def cellStep (reg : Registry) (st : St) (ch r c : Nat) : St :=
  match reg.lookup ch with
  | none => st
  | some enc =>
    let n := st.ndx ch
    { agents := dictSet st.agents { id := .gen ch n, enc := enc, ipos := some (r, c) },
      ndx := fun x => if x = ch then n + 1 else st.ndx x }

/-- `all([i not in object_registry for i in [0, '0', '.', '_']])` fails: among character keys
`'0'`, `'.'` and `'_'` -/
def reservedInRegistry (reg : Registry) : Bool := reg.any (fun p => p.1 == 48 || p.1 == 46 || p.1 == 95)

/-- `_build_sim`: `Grid(rows, cols)` asserts positive sizes, then `cls(grid=grid, agents=agents)` -/
def buildSim (rows cols : Nat) (agents : List Agent) : Except Err Sim :=
  if rows = 0 ∨ cols = 0 then .error .badShape else .ok { rows := rows, cols := cols, agents := agents }

/-- `build_sim(rows, cols, agents=agents)` -/
def direct (rows cols : Nat) (agents : List Agent) : Except Err Sim := buildSim rows cols agents

/-- the double loop of `build_sim_from_array` -/
def arrayLoop (reg : Registry) (rows cols : Nat) (cells : List Nat) (st : St) : St :=
  forRange (fun st r =>
    forRange (fun st c => cellStep reg st (cells.getD (r * cols + c) 0) r c) cols 0 st) rows 0 st

/-- `build_sim_from_array(array, object_registry, extra_agents)` -/
def fromArray (rows cols : Nat) (cells : List Nat) (reg : Registry) (extras : List Agent) :
    Except Err Sim :=
  if reservedInRegistry reg then .error .reservedKey
  else buildSim rows cols (arrayLoop reg rows cols cells (St.init extras)).agents

/-! ## Text files -/

/-- the line boundaries of `str.splitlines` -/
def isBreak (c : Nat) : Bool :=
  c == 10 || c == 11 || c == 12 || c == 13 || c == 28 || c == 29 || c == 30 || c == 133 ||
    c == 8232 || c == 8233

/-- `"\r\n"` is a single boundary (and text mode already reads it as `"\n"`) -/
def normCRLF : List Nat → List Nat
  | [] => []
  | c :: rest => if c = 13 ∧ rest.head? = some 10 then normCRLF rest else c :: normCRLF rest

/-- `str.splitlines()` after `normCRLF`: boundaries removed, no empty string after a final boundary -/
def splitLines : List Nat → List (List Nat)
  | [] => []
  | c :: rest =>
    if isBreak c then [] :: splitLines rest
    else match splitLines rest with
      | [] => [[c]]
      | l :: ls => (c :: l) :: ls

/-- `str.split(' ')`: every single space separates, empty tokens are kept, `''.split(' ') == ['']` -/
def splitSp : List Nat → List (List Nat)
  | [] => [[]]
  | c :: rest =>
    if c = 32 then [] :: splitSp rest
    else match splitSp rest with
      | [] => [[c]]
      | t :: ts => (c :: t) :: ts

/-- `if char in object_registry: …` for a token of the file (registry keys are single characters) -/
def tokStep (reg : Registry) (st : St) (tok : List Nat) (r c : Nat) : St :=
  match tok with
  | [ch] => cellStep reg st ch r c
  | _ => st

/-- `for col, char in enumerate(chars)` -/
def fileCols (reg : Registry) (r : Nat) : List (List Nat) → Nat → St → St
  | [], _, st => st
  | tok :: rest, c, st => fileCols reg r rest (c + 1) (tokStep reg st tok r c)

/-- `for row, line in enumerate(lines)` with the column-count assertion -/
def fileRows (reg : Registry) (cols : Nat) : List (List Nat) → Nat → St → Except Err St
  | [], _, st => .ok st
  | line :: rest, r, st =>
    let chars := splitSp line
    if chars.length ≠ cols then .error .ragged
    else fileRows reg cols rest (r + 1) (fileCols reg r chars 0 st)

/-- `build_sim_from_file(file_name, object_registry, extra_agents)` on the file's contents -/
def fromFile (text : List Nat) (reg : Registry) (extras : List Agent) : Except Err Sim :=
  if reservedInRegistry reg then .error .reservedKey
  else
    let lines := splitLines (normCRLF text)
    match lines with
    | [] => .error .emptyFile
    | l0 :: _ =>
      let cols := (splitSp l0).length
      let rows := lines.length
      match fileRows reg cols lines 0 (St.init extras) with
      | .error e => .error e
      | .ok st => buildSim rows cols st.agents

/-- `' '.join(row)` / `'\n'.join(lines)` -/
def joinWith (sep : Nat) : List (List Nat) → List Nat
  | [] => []
  | [l] => l
  | l :: l' :: ls => l ++ sep :: joinWith sep (l' :: ls)

/-- the first `k` rows of `cols` entries each -/
def rowsOf (cols : Nat) : Nat → List Nat → List (List Nat)
  | 0, _ => []
  | k + 1, cells => cells.take cols :: rowsOf cols k (cells.drop cols)

/-- the text rendering of a layout: one line per row, entries separated by one space -/
def render (rows cols : Nat) (cells : List Nat) : List Nat :=
  joinWith 10 ((rowsOf cols rows cells).map (fun row => joinWith 32 (row.map (fun c => [c]))))

/-! ## Grids -/

abbrev GridCells := List (Option (List Agent))

/-- one cell of `build_sim_from_grid`:
```
if grid[r, c] is not None:
    agents.update(grid[r, c])
    for agent in grid[r, c].values():
        np.testing.assert_array_equal(agent.initial_position, np.array([r, c]))
``` -/
def gridCellStep (d : List Agent) (cell : Option (List Agent)) (r c : Nat) : Except Err (List Agent) :=
  match cell with
  | none => .ok d
  | some as =>
    if as.all (fun a => decide (a.ipos = some (r, c))) then .ok (as.foldl dictSet d)
    else .error .posMismatch

def gridLoop (rows cols : Nat) (g : GridCells) (d : List Agent) : Except Err (List Agent) :=
  forRangeE (fun d r =>
    forRangeE (fun d c => gridCellStep d (g.getD (r * cols + c) none) r c) cols 0 d) rows 0 d

/-- `build_sim_from_grid(grid, extra_agents)`; `rows`/`cols` are `grid.rows`/`grid.cols` -/
def fromGrid (rows cols : Nat) (g : GridCells) (extras : List Agent) : Except Err Sim :=
  match gridLoop rows cols g extras with
  | .error e => .error e
  | .ok d => buildSim rows cols d

/-! ## Placement at reset (`PositionState.reset` with the default empty overlapping matrix) -/

/-- `for agent in agents.values(): if agent.initial_position is not None: assert grid.place(…)`;
with no overlapping configured a cell is available exactly when it is empty; an index outside
the grid raises IndexError -/
def placeInitial (rows cols : Nat) : List Agent → List (AId × Pos) → Except Err (List (AId × Pos))
  | [], placed => .ok placed
  | a :: rest, placed =>
    match a.ipos with
    | none => placeInitial rows cols rest placed
    | some p =>
      if rows ≤ p.1 ∨ cols ≤ p.2 then .error .crash
      else if placed.any (fun q => decide (q.2 = p)) then .error .cellTaken
      else placeInitial rows cols rest (placed ++ [(a.id, p)])

/-- the positions, after `reset`, of the agents that have an initial position (in the order of the
agents dictionary).  Agents without an initial position are placed afterwards on random free cells;
that succeeds exactly when enough cells are left, whatever the draws, and cannot move anybody. -/
def resetPositions (sim : Sim) : Except Err (List (AId × Pos)) :=
  if sim.agents.isEmpty then .error .noAgents
  else
    match placeInitial sim.rows sim.cols sim.agents [] with
    | .error e => .error e
    | .ok placed =>
      if sim.rows * sim.cols - placed.length < (sim.agents.filter (fun a => a.ipos.isNone)).length then
        .error .noCell
      else .ok placed

/-! ## All five observations of one case -/

structure Outcomes where
  array  : Except Err Sim
  file   : Except Err Sim
  grid   : Except Err Sim
  direct : Except Err Sim
  reset  : Except Err (List (AId × Pos))

/-- the four builders on one layout (the file holds `text`, the grid holds `g`, the direct build
is given `explicit`), and `reset` of the array-built simulation -/
def runAll (rows cols : Nat) (cells : List Nat) (reg : Registry) (extras : List Agent)
    (text : List Nat) (g : GridCells) (explicit : List Agent) : Outcomes :=
  let a := fromArray rows cols cells reg extras
  { array := a,
    file := fromFile text reg extras,
    grid := fromGrid rows cols g extras,
    direct := direct rows cols explicit,
    reset := match a with
      | .ok sim => resetPositions sim
      | .error e => .error e }

end Builders
end Abmarl
