import Abmarl.Model.Maze
/-!
# The three placement states of `abmarl/sim/gridworld/state.py`

`PositionState`, `TargetBarriersFreePlacementState`, `MazePlacementState`: `reset`,
`_build_available_positions`, `_update_available_positions`, `_place_initial_position_agent`,
`_place_variable_position_agent`, transcribed branch for branch **including the order in which
the oracle tape is consumed**: the shuffle of the listing first (if `randomize_placement_order`),
then the two `randint` draws of a random target / maze start, then the maze's draws, then one
`choice(cells, 1)` per agent that is placed at random.

* `ravelled_positions_available` is an association list encoding ↦ list of ravelled cell numbers;
* `np.linalg.norm` as sort key is the squared integer distance (same order, DESIGN.md §3);
  `list.sort(key, reverse=True)` is the stable sort by the reversed comparison (`List.mergeSort`
  is stable, so ties keep their original relative order exactly as in Python);
* the outcome keeps the world that an error leaves behind (`PlaceOut.post`), because the
  specification judges the reason of a failure on it; `positionReset`/`targetReset`/`mazeReset`
  are the `Except`-typed views.
-/
namespace Abmarl

inductive PKind where
  | position | target | maze
deriving Repr, DecidableEq, Inhabited

structure PlaceOpts where
  noOverlap : Bool := false       -- no_overlap_at_reset
  randomize : Bool := false       -- randomize_placement_order
  cluster   : Bool := false       -- cluster_barriers
  scatter   : Bool := false       -- scatter_free_agents
  target    : Aid := 0            -- target_agent (index in the listing)
  barrier   : List Int := []      -- barrier_encodings
  free      : List Int := []      -- free_encodings
deriving Repr, DecidableEq, Inhabited

/-- `ravelled_positions_available` -/
abbrev Avail := List (Int × List Nat)

/-- what a placement state's reset works on: the world, the availability lists, the tape -/
structure PSt where
  w  : World
  av : Avail
  t  : Tape

/-- outcome of a reset: `err = none` is success; `post` is the world afterwards (on an error: the
partially filled grid the exception leaves behind) -/
structure PlaceOut where
  err  : Option GErr
  post : World
deriving Repr, DecidableEq

namespace World

/-- `e in self.grid.overlapping.get(pe, {})` -/
def ovHas (w : World) (pe e : Int) : Bool :=
  match w.overlap.lookup pe with
  | none => false
  | some s => decide (e ∈ s)

/-- `np.unravel_index(k, (rows, cols))` -/
def unravel (w : World) (k : Nat) : Pos := (((k / w.cols : Nat) : Int), ((k % w.cols : Nat) : Int))

def agentIds (w : World) : List Aid := List.range w.n

end World

/-- squared Euclidean distance (the order of `np.linalg.norm`) -/
def sqDist (p q : Pos) : Int := (p.1 - q.1) * (p.1 - q.1) + (p.2 - q.2) * (p.2 - q.2)

/-- `_update_available_positions(agent_just_placed)` with the placed agent's encoding `pe` and
ravelled cell `k` (`list.remove`, a missing value being the caught `ValueError`) -/
def updateAvail (w : World) (no : Bool) (av : Avail) (pe : Int) (k : Nat) : Avail :=
  av.map fun x => if no || !(w.ovHas pe x.1) then (x.1, x.2.erase k) else x

/-- `assert self.grid.place(agent, p)` followed by `_update_available_positions(agent)` -/
def placeAt (no : Bool) (s : PSt) (a : Aid) (p : Pos) : Except GErr PSt :=
  if s.w.inGrid p then
    let r := s.w.place a p
    if r.1 then
      .ok { s with w := r.2, av := updateAvail r.2 no s.av (r.2.encOf a) (r.2.idx p) }
    else .error .assertion
  else .error .badIndex          -- numpy `IndexError` (callers guard; outside `WF`)

/-- `np.random.choice([*cells], 1)`: `none` for an empty list (numpy's `ValueError`, raised before
anything is drawn) -/
def choice1 (l : List Nat) (t : Tape) : Option Nat × Tape :=
  match l with
  | [] => (none, t)
  | _ :: _ =>
    match Oracle.choiceRepl l 1 t with
    | ([k], t') => (some k, t')
    | (_, t') => (none, t')

/-- `PositionState._place_variable_position_agent` -/
def placeVarRandom (no : Bool) (s : PSt) (a : Aid) : Except GErr PSt :=
  match s.av.lookup (s.w.encOf a) with
  | none => .error .keyError
  | some l =>
    match choice1 l s.t with
    | (none, _) => .error .noCell
    | (some k, t') => placeAt no { s with t := t' } a (s.w.unravel k)

/-- does `_place_variable_position_agent` of the target/maze states take the last list element? -/
def PlaceOpts.useLast (o : PlaceOpts) (e : Int) : Bool :=
  (o.barrier.contains e && o.cluster) || (o.free.contains e && o.scatter)

/-- `_place_variable_position_agent` of `TargetBarriersFreePlacementState`/`MazePlacementState` -/
def placeVarTB (o : PlaceOpts) (s : PSt) (a : Aid) : Except GErr PSt :=
  let e := s.w.encOf a
  if o.useLast e then
    match s.av.lookup e with
    | none => .error .keyError
    | some l =>
      match l.getLast? with
      | none => .error .noCell
      | some k => placeAt o.noOverlap s a (s.w.unravel k)
  else placeVarRandom o.noOverlap s a

/-- `for agent in agents.values(): …` — stops at the first exception, keeping the state reached -/
def runLoop (step : PSt → Aid → Except GErr PSt) : List Aid → PSt → Option GErr × PSt
  | [], s => (none, s)
  | a :: rest, s =>
    match step s a with
    | .ok s' => runLoop step rest s'
    | .error e => (some e, s)

/-- body of the loop "place agents with initial positions" -/
def stepFixed (kind : PKind) (o : PlaceOpts) (s : PSt) (a : Aid) : Except GErr PSt :=
  if kind != .position && a == o.target then .ok s
  else
    match (s.w.cfgOf a).initPos with
    | some p => placeAt o.noOverlap s a p
    | none => .ok s

/-- body of the loop "now place agents with variable positions" -/
def stepFree (kind : PKind) (o : PlaceOpts) (s : PSt) (a : Aid) : Except GErr PSt :=
  if kind != .position && a == o.target then .ok s
  else
    match (s.w.cfgOf a).initPos with
    | some _ => .ok s
    | none => if kind == .position then placeVarRandom o.noOverlap s a else placeVarTB o s a

/-- the two placement loops, in this order, over the (possibly shuffled) listing -/
def placeAll (kind : PKind) (o : PlaceOpts) (order : List Aid) (s : PSt) : PlaceOut × Tape :=
  let r1 := runLoop (stepFixed kind o) order s
  match r1.1 with
  | some e => (⟨some e, r1.2.w⟩, r1.2.t)
  | none =>
    let r2 := runLoop (stepFree kind o) order r1.2
    (⟨r2.1, r2.2.w⟩, r2.2.t)

/-- `random.shuffle(list(self.agents.items()))` if requested -/
def placementListing (o : PlaceOpts) (w : World) (t : Tape) : List Aid × Tape :=
  if o.randomize then shuffle w.agentIds t else (w.agentIds, t)

/-- `max([agent.encoding for agent in self.agents.values()])` (`ValueError` for no agents) -/
def maxEnc (w : World) : Option Int :=
  match w.cfg.map (·.enc) with
  | [] => none
  | x :: xs => some (xs.foldl max x)

/-- `PositionState._build_available_positions` -/
def buildPosition (w : World) : Option Avail :=
  (maxEnc w).map fun m =>
    (List.range m.toNat).map fun i => (((i : Nat) : Int) + 1, List.range (w.rows * w.cols))

/-- `PositionState.reset` -/
def positionResetX (o : PlaceOpts) (w : World) (t : Tape) : PlaceOut × Tape :=
  let w0 := w.gridReset
  let sh := placementListing o w0 t
  match buildPosition w0 with
  | none => (⟨some .other, w0⟩, sh.2)
  | some av => placeAll .position o sh.1 ⟨w0, av, sh.2⟩

/-- `list.sort(key=distance, reverse=True)` -/
def sortFar (w : World) (start : Pos) (l : List Nat) : List Nat :=
  l.mergeSort fun a b => decide (sqDist (w.unravel a) start ≥ sqDist (w.unravel b) start)

/-- `list.sort(key=distance)` -/
def sortNear (w : World) (start : Pos) (l : List Nat) : List Nat :=
  l.mergeSort fun a b => decide (sqDist (w.unravel a) start ≤ sqDist (w.unravel b) start)

/-- the target's initial position, or `np.random.randint(0, (rows, cols))` (two draws) -/
def targetStart (o : PlaceOpts) (w : World) (t : Tape) : Pos × Tape :=
  match (w.cfgOf o.target).initPos with
  | some p => (p, t)
  | none =>
    let r := Oracle.randint 0 w.rows t
    let c := Oracle.randint 0 w.cols r.2
    ((r.1, c.1), c.2)

/-- `{**{e: barrier_cells for e in barrier_encodings}, **{e: free_cells for e in free_encodings}}` -/
def mkAvail (o : PlaceOpts) (bl fl : List Nat) : Avail :=
  ((o.barrier.filter fun e => !o.free.contains e).map fun e => (e, bl)) ++ o.free.map fun e => (e, fl)

/-- the unsorted barrier and free cell lists: every cell for the target state; wall cells and
passage cells of the maze generated at the start for the maze state -/
def baseLists (kind : PKind) (w : World) (start : Pos) (t : Tape) :
    Except GErr ((List Nat × List Nat) × Tape) :=
  if kind == .maze then
    match Maze.generateMaze w.rows w.cols start t with
    | .error e => .error e
    | .ok r =>
      .ok (((List.range (w.rows * w.cols)).filter (fun i => r.1.getD i 1 == 1),
            (List.range (w.rows * w.cols)).filter (fun i => r.1.getD i 1 == 0)), r.2)
  else .ok ((List.range (w.rows * w.cols), List.range (w.rows * w.cols)), t)

/-- `_build_available_positions` of the target and maze states, after the start is known -/
def buildTB (kind : PKind) (o : PlaceOpts) (w : World) (start : Pos) (t : Tape) :
    Except GErr (Avail × Tape) :=
  match baseLists kind w start t with
  | .error e => .error e
  | .ok r =>
    let bl := if o.cluster then sortFar w start r.1.1 else r.1.1
    let fl := if o.scatter then sortNear w start r.1.2 else r.1.2
    .ok (mkAvail o bl fl, r.2)

/-- `TargetBarriersFreePlacementState.reset` / `MazePlacementState.reset` -/
def tbResetX (kind : PKind) (o : PlaceOpts) (w : World) (t : Tape) : PlaceOut × Tape :=
  let w0 := w.gridReset
  let sh := placementListing o w0 t
  if w0.cfg.all fun c => (o.barrier ++ o.free).contains c.enc then
    let st := targetStart o w0 sh.2
    match buildTB kind o w0 st.1 st.2 with
    | .error e => (⟨some e, w0⟩, st.2)
    | .ok b =>
      match placeAt o.noOverlap ⟨w0, b.1, b.2⟩ o.target st.1 with
      | .error e => (⟨some e, w0⟩, b.2)
      | .ok s1 => placeAll kind o sh.1 s1
  else (⟨some .assertion, w0⟩, sh.2)

/-- the reset of a placement state of the given kind -/
def resetX (kind : PKind) (o : PlaceOpts) (w : World) (t : Tape) : PlaceOut × Tape :=
  if kind == .position then positionResetX o w t else tbResetX kind o w t

def PlaceOut.toExcept (r : PlaceOut × Tape) : Except GErr (World × Tape) :=
  match r.1.err with
  | none => .ok (r.1.post, r.2)
  | some e => .error e

def positionReset (o : PlaceOpts) (w : World) (t : Tape) : Except GErr (World × Tape) :=
  PlaceOut.toExcept (positionResetX o w t)
def targetReset (o : PlaceOpts) (w : World) (t : Tape) : Except GErr (World × Tape) :=
  PlaceOut.toExcept (tbResetX .target o w t)
def mazeReset (o : PlaceOpts) (w : World) (t : Tape) : Except GErr (World × Tape) :=
  PlaceOut.toExcept (tbResetX .maze o w t)

/-- the three resets, `Except`-typed, by kind -/
def placementReset (kind : PKind) (o : PlaceOpts) (w : World) (t : Tape) : Except GErr (World × Tape) :=
  PlaceOut.toExcept (resetX kind o w t)

end Abmarl
