import Abmarl.Model.ExamplesDriver
import Abmarl.Spec.Reach
/-!
Driver glue for `ReachTheTargetSim` (`gexample` / `mgrx` with configuration `(reach …)`; dispatched in Main.lean).
Trusted base.

`cfg` = `(reach learning comps (mapping stacked) target runners targets observeSelf)`; `stat`, `dyn0`, the trace
entries and the replies exactly as for the other grid examples (Model/ExamplesDriver.lean); an item of an action dict
= `(agent (dr dc) (g…))`, `g…` = the `SelectiveAttackActor`'s `Box(0, sim, (W, W), int)` flattened row-major
(`()` for an agent without attack channel).
-/
namespace Abmarl
namespace ReachDriver
open GridWire Ex ExamplesDriver

def cfg? (v : Val) : Option RT.Cfg := do
  match v with
  | .list [.atom "reach", lr, comps, .list [mp, st], tg, rs, ts, os] =>
    pure { learning := ← lr.bools?, comps := ← (← comps.list?).mapM GridSimDriver.comp?,
           attack := ⟨.selective, ← overlap? mp, ← st.bool?⟩, target := ← tg.nat?, runners := ← rs.nats?,
           targets := ← ts.nats?, observeSelf := ← os.bool? }
  | _ => none

def acts? (v : Val) : Option (List (Aid × Act)) := do
  (← v.list?).mapM fun p => do
    match p with
    | .list [a, d, g] => pure ((← a.nat?), { move := ← pos? d, attack := .grid (← g.nats?) })
    | _ => none

def encActs (l : List (Aid × Act)) : Val :=
  .list (l.map fun p => .list [Val.ofNat p.1, encPos p.2.move,
    (match p.2.attack with | .grid g => Val.ofNats g | _ => .list [])])

def op? (v : Val) : Option EOp := do
  match v with
  | .list [.atom "step", a, t] => pure (.step (← acts? a) (← t.nats?))
  | _ => ExamplesDriver.op? v

def handle (args : List Val) : Option Val := do
  match args with
  | [cfg, stat, dyn, ops, impl] =>
    let cfg ← cfg? cfg
    let w0 ← world? stat dyn
    let ops ← (← ops.list?).mapM op?
    let m := (RT.runOps cfg { w := w0 } ops).1
    let judge := fun (tr : List EEntry) => b2v (RT.specRT cfg w0 (zipOps ops tr))
    let is : Val :=
      match (impl.list?).bind (fun l => l.mapM (entry? stat w0)) with
      | some tr => if tr.isEmpty then .int (-1) else judge tr
      | none => .int (-1)
    pure (.list [.list (m.map encEntry), judge m, is, b2v (RT.rtPre cfg w0 ops)])
  | _ => none

def mop? (v : Val) : Option (Op Act) := do
  match v with
  | .list [.atom "r"] => pure .reset
  | .list [.atom "s", a] => pure (.step (← acts? a))
  | _ => none

def mentry? (op : Op Act) (v : Val) : Option ME := do
  match v with
  | .list [r, sa, acc, gh] =>
    let sa' ← match sa with
      | .list [.atom "n"] => pure none
      | .list [.atom "y", a] => pure (some (← acts? a))
      | _ => none
    pure { op := op, res := ← mres? r, simArgs := sa', accrued := ← acc.ints?, ghost := ← MgrDriver.ghost? gh }
  | _ => none

def mzip? : List (Op Act) → List Val → Option (List ME)
  | [], [] => some []
  | op :: ops, v :: vs => do pure ((← mentry? op v) :: (← mzip? ops vs))
  | _, _ => none

def encMEntry (e : ME) : Val :=
  .list [encMRes e.res,
         (match e.simArgs with | none => .list [.atom "n"] | some a => .list [.atom "y", encActs a]),
         Val.ofInts e.accrued,
         .list [Val.ofBool e.ghost.simAllDone, .list (e.ghost.simDone.map Val.ofBool),
                Val.ofInts e.ghost.pending, Val.ofNats e.ghost.nominated]]

def handleMgr (args : List Val) : Option Val := do
  match args with
  | [cfg, stat, dyn, k, sh, mtape, stape, ops, impl] =>
    let cfg ← cfg? cfg
    let w0 ← world? stat dyn
    let k ← MgrDriver.kind? k
    let sh ← sh.bool?
    let mtape ← mtape.nats?
    let stape ← stape.nats?
    let ops ← (← ops.list?).mapM mop?
    let S := RT.toSimIface cfg w0.n
    let tr := Abmarl.runOps S k (mgrInit ({ w := w0, tape := stape } : St) sh mtape) ops
    let spec1 := fun (t : List ME) => specC01 k S.n S.learning sh t
    let spec7 := fun (t : List ME) => specC07 k S.n S.learning t
    let implV ← impl.list?
    let (i1, i7) : Val × Val :=
      if implV.isEmpty then (.int (-1), .int (-1))
      else match mzip? ops implV with
        | some it => (b2v (spec1 it), b2v (spec7 it))
        | none => (.int (-2), .int (-2))
    pure (.list [.list (tr.map encMEntry), b2v (spec1 tr), b2v (spec7 tr), i1, i7])
  | _ => none

/-- `gexample` / `mgrx`: a configuration `(reach …)` is handled here, everything else by Model/ExamplesDriver.lean -/
def isReach : List Val → Bool
  | (.list (.atom "reach" :: _)) :: _ => true
  | _ => false

def gexample (args : List Val) : Option Val := if isReach args then handle args else ExamplesDriver.handle args
def mgrx (args : List Val) : Option Val := if isReach args then handleMgr args else ExamplesDriver.handleMgr args

end ReachDriver
end Abmarl
