import Abmarl.Model.MgrDriver
import Abmarl.Model.Comm
import Abmarl.Spec.Comm
/-!
Driver glue for the communication wrapper (`comm`): wire ↔ model types.  Trusted base.

`(comm script calls implTrace)`
  calls:  `(r)` | `(s ((agent (action sendRow receiveRow)) …))` | `(g agent)`;  row = `((agent bit) …)`
  trace item: `(res simArgs fusion buffer received)` with
     res      = `(r)` | `(s)` | `(o (obs…) row)` | `(e kind)`
     simArgs  = `(n)` | `(y ((agent action) …))`        (argument of the wrapped step, if called)
     fusion   = `(n)` | `(y row)`                       (fusion_matrix handed to the wrapped get_obs)
     buffer, received = `(row …)`                        (the wrapper's two dictionaries after the call)
reply `(modelTrace specOnModel specOnImpl)`.
-/
namespace Abmarl
namespace CommDriver
open MgrDriver

abbrev E := CEntry Int (List Int)

def row? (v : Val) : Option Row := pairList? Val.bool? v
def encRow (r : Row) : Val := encPairs Val.ofBool r

def act? (v : Val) : Option (CAct Int) := do
  match v with
  | .list [a, s, r] => pure { action := ← a.int?, send := ← row? s, receive := ← row? r }
  | _ => none

def op? (v : Val) : Option (COp Int) := do
  match v with
  | .list [.atom "r"] => pure .reset
  | .list [.atom "s", acts] => pure (.step (← pairList? act? acts))
  | .list [.atom "g", a] => pure (.getObs (← a.nat?))
  | _ => none

def res? (v : Val) : Option (CRes (List Int)) := do
  match v with
  | .list [.atom "r"] => pure .resetOk
  | .list [.atom "s"] => pure .stepOk
  | .list [.atom "o", o, b] => pure (.obsOk { obs := ← o.ints?, buffer := ← row? b })
  | .list [.atom "e", .atom c] => pure (.err (errOf c))
  | _ => none

def optTag? {β : Type} (f : Val → Option β) (v : Val) : Option (Option β) :=
  match v with
  | .list [.atom "n"] => some none
  | .list [.atom "y", x] => (f x).map some
  | _ => none

def entry? (op : COp Int) (v : Val) : Option E := do
  match v with
  | .list [r, sa, fu, b, rc] =>
    pure { op := op, res := ← res? r, simArgs := ← optTag? (pairList? Val.int?) sa,
           fusion := ← optTag? row? fu,
           buffer := ← (← b.list?).mapM row?, received := ← (← rc.list?).mapM row? }
  | _ => none

def zipEntries? : List (COp Int) → List Val → Option (List E)
  | [], [] => some []
  | op :: ops, v :: vs => do pure ((← entry? op v) :: (← zipEntries? ops vs))
  | _, _ => none

def encRes : CRes (List Int) → Val
  | .resetOk => .list [.atom "r"]
  | .stepOk => .list [.atom "s"]
  | .obsOk o => .list [.atom "o", Val.ofInts o.obs, encRow o.buffer]
  | .err e => .list [.atom "e", .atom (errStr e)]

def encOptTag {β : Type} (f : β → Val) : Option β → Val
  | none => .list [.atom "n"]
  | some x => .list [.atom "y", f x]

def encEntry (e : E) : Val :=
  .list [encRes e.res, encOptTag (encPairs Val.int) e.simArgs, encOptTag encRow e.fusion,
         .list (e.buffer.map encRow), .list (e.received.map encRow)]

/-- `(comm script calls implTrace)` -/
def handle (args : List Val) : Option Val := do
  match args with
  | [sc, calls, impl] =>
    let sc ← script? sc
    let ops ← (← calls.list?).mapM op?
    let S := stubComm sc
    let tr := commRun S (commInit ({} : StubSt)) ops
    let spec := fun (t : List E) => specC20 sc.n t
    let implV ← impl.list?
    let is : Val :=
      if implV.isEmpty && !ops.isEmpty then .int (-1)
      else match zipEntries? ops implV with
        | some it => b2i (spec it)
        | none => .int (-2)
    pure (.list [.list (tr.map encEntry), b2i (spec tr), is])
  | _ => none

end CommDriver
end Abmarl
