import Abmarl.Model.Wire
import Abmarl.Model.Mask
import Abmarl.Spec.Mask
/-! Driver glue for the shadow mask (`mask`): wire ↔ model types.  Trusted base.

Request `(mask R ((rd cd blocking active) ...) implTable)`: the range, every entry of the
`agents` dictionary in dictionary order as offset from the viewer plus its two flags, and the
mask the real `create_grid_and_mask` returned as a list of rows of `1` (visible) / `0`
(hidden) — `()` if no implementation outcome is sent.
Reply `(modelTable specOnModel specOnImpl)`: the model's mask in the same format, `specMask`
on the model's mask (self-test, always 1) and on the implementation's mask (1/0; −1 if none was
sent; −2 if it is not a table of 0/1 entries). -/
namespace Abmarl
namespace MaskDriver

def blocker? (v : Val) : Option Mask.Blocker := do
  match v with
  | .list [rd, cd, bl, ac] => pure ((← rd.int?), (← cd.int?), (← bl.bool?), (← ac.bool?))
  | _ => none

def table? (v : Val) : Option (List (List Bool)) := do (← v.list?).mapM Val.bools?

def encTable (t : List (List Bool)) : Val := .list (t.map fun row => .list (row.map Val.ofBool))

/-- `(mask R blockers implTable)` -/
def handle (args : List Val) : Option Val := do
  match args with
  | [r, bs, impl] =>
    let R ← r.nat?
    let bs ← (← bs.list?).mapM blocker?
    let model := Mask.maskOf R bs
    let implV ← impl.list?
    let implRes : Val :=
      if implV.isEmpty then .int (-1)
      else match table? impl with
        | some t => Val.ofBool (Mask.specMask R bs t)
        | none => .int (-2)
    pure (.list [encTable model, Val.ofBool (Mask.specMask R bs model), implRes])
  | _ => none

end MaskDriver
end Abmarl
