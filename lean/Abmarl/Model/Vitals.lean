import Abmarl.Model.Grid
import Abmarl.Model.Oracle
/-!
# `HealthState`, `AmmoState`, `OrientationState` (gridworld/state.py)

Each `reset` walks the agents in listing order.  Drawn values consume the oracle tape:
`np.random.uniform(0, 1)` for a missing initial health (regular stream: never exactly 0, finding K4
is the out-of-domain stream `closed := true`), `np.random.randint(1, 5)` for a missing (or falsy)
initial orientation.
-/
namespace Abmarl
namespace World

/-- `HealthState.reset` -/
def healthResetFrom (closed : Bool) : List Aid → World → Tape → World × Tape
  | [], w, t => (w, t)
  | a :: as, w, t =>
    match (w.cfgOf a).initHealth with
    | some h => healthResetFrom closed as (w.setHealth a h) t
    | none =>
      let d := if closed then Oracle.uniform01Closed t else Oracle.uniform01 t
      healthResetFrom closed as (w.setHealth a d.1) d.2

def healthReset (w : World) (t : Tape) (closed : Bool := false) : World × Tape :=
  healthResetFrom closed (List.range w.n) w t

/-- `AmmoState.reset` -/
def ammoResetFrom : List Aid → World → World
  | [], w => w
  | a :: as, w => ammoResetFrom as (if (w.cfgOf a).hasAmmo then w.setAmmo a (w.cfgOf a).initAmmo else w)

def ammoReset (w : World) : World := ammoResetFrom (List.range w.n) w

/-- `OrientationState.reset` (`if agent.initial_orientation:` — `None` and 0 are falsy) -/
def orientResetFrom : List Aid → World → Tape → World × Tape
  | [], w, t => (w, t)
  | a :: as, w, t =>
    if (w.cfgOf a).hasOrient then
      match (w.cfgOf a).initOrient with
      | some (o + 1) => orientResetFrom as (w.setSt a { w.stOf a with orient := o + 1 }) t
      | _ =>
        let d := Oracle.randint 1 5 t
        orientResetFrom as (w.setSt a { w.stOf a with orient := d.1.toNat }) d.2
    else orientResetFrom as w t

def orientReset (w : World) (t : Tape) : World × Tape := orientResetFrom (List.range w.n) w t

end World
end Abmarl
