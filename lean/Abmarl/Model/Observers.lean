import Abmarl.Model.Grid
import Abmarl.Model.Mask
import Abmarl.Model.Oracle
/-!
# M3 `Observers` — the five built-in observers of `abmarl/sim/gridworld/observer.py`

Transcribed branch for branch from `get_obs` of `AbsoluteEncodingObserver`,
`PositionCenteredEncodingObserver`, `StackedPositionCenteredEncodingObserver`,
`AbsolutePositionObserver`, `AmmoObserver`, and from the `local_grid` part of
`utils.create_grid_and_mask` (the mask part is `Model/Mask.lean`, property C10 — reused, not
re-modelled).  Conventions:

* the view range `R` is `agent.view_range` *after* the observer's constructor resolved `"FULL"`
  to `max(rows, cols) - 1` (`cfg.viewRange` holds the resolved number; the harness dumps it that
  way); a range larger than the grid is legal and modelled;
* `local_grid` is `np.empty(.., dtype=object)` (every entry `None`) into which the clipped slice
  `grid[r_lower:r_upper, c_lower:c_upper]` is assigned at the shifted slice
  `[(r_lower+R-r):(r_upper+R-r), (c_lower+R-c):(c_upper+R-c)]`: `clip` / `localCell` keep exactly
  these eight slice bounds; that the result is "`None` outside the grid, else the cell at
  `pos + offset`" is the *lemma* `window_embedding`, not the definition;
* the agents dictionary handed to `create_grid_and_mask` is the observer component's `agents`:
  **every** agent of the simulation in dictionary order, the observing agent itself included
  (offset `(0, 0)`, matches none of the eight branches) — `blockersOf`;
* `np.random.choice(list)` is `Oracle.choice` (one natural popped from the tape, element
  `v mod len`); it is called for **every** visible in-grid cell on which something reportable
  stands, also when there is a single occupant, and in row-major order of the window
  (`for r … for c …`), which fixes the order of the tape draws;
* observations: numpy arrays as nested lists (`Obs.grid`, `Obs.stack`), `agent.position` as a
  pair, `agent.ammo` as an integer, `{}` (unsupported agent) as `Obs.unsupported`;
* `isinstance(agent, GridObservingAgent)` is `cfg.observing` (the world description has one
  observing flag: an `ObservingAgent` that is a `GridWorldAgent` but not a `GridObservingAgent`
  is outside the described family), `isinstance(agent, AmmoAgent)` is `cfg.hasAmmo`.

Where the code's behaviour is *not* a function of the modelled state the model returns an
explicit error instead of inventing a value: an observer whose stored position lies outside the
grid would make the slice bounds negative (numpy then counts from the other end) — `badIndex`.
Every agent that was ever placed keeps an in-grid position, dead or alive, so the hypothesis
`inGrid pos` of the theorems is what real simulations provide.

This file imports only Model files: it is linked into the compiled driver.
-/
namespace Abmarl
namespace Observers
open World

/-- what `get_obs` returns under the observer's key (`unsupported` = the empty dict `{}`) -/
inductive Obs where
  | unsupported
  | grid   (g : List (List Int))
  | stack  (g : List (List (List Int)))
  | vec    (p : Pos)
  | scalar (v : Int)
deriving Repr, DecidableEq, Inhabited

/-- an `n × m` array given by its entries, as a list of rows -/
def tab {β : Type} (n m : Nat) (f : Nat → Nat → β) : List (List β) :=
  (List.range n).map fun i => (List.range m).map fun j => f i j

/-- entry `[i, j]` of an array stored as a list of rows (`d` is never returned for an index
inside the array) -/
def at2 {β : Type} (g : List (List β)) (i j : Nat) (d : β) : β := (g.getD i []).getD j d

/-! ## `create_grid_and_mask`: the local grid -/

/-- the four slice bounds `r_lower, r_upper, c_lower, c_upper` -/
structure Clip where
  rl : Int
  ru : Int
  cl : Int
  cu : Int
deriving Repr, DecidableEq

/-- `r_lower = max([0, r - R])`, `r_upper = min([rows - 1, r + R]) + 1`, and the same for columns -/
def clip (rows cols : Nat) (p : Pos) (R : Nat) : Clip :=
  { rl := max 0 (p.1 - (R : Int)),
    ru := min ((rows : Int) - 1) (p.1 + (R : Int)) + 1,
    cl := max 0 (p.2 - (R : Int)),
    cu := min ((cols : Int) - 1) (p.2 + (R : Int)) + 1 }

/-- entry `[i, j]` of `local_grid` for a viewer at `p`:
`local_grid[(rl+R-r):(ru+R-r), (cl+R-c):(cu+R-c)] = grid[rl:ru, cl:cu]`, everything else stays
`None`.  Element `k` of the destination slice receives element `k` of the source slice. -/
def localCell (w : World) (p : Pos) (R : Nat) (i j : Nat) : Option (List Aid) :=
  let k := clip w.rows w.cols p R
  let i0 := k.rl + (R : Int) - p.1      -- first row of the destination slice
  let i1 := k.ru + (R : Int) - p.1
  let j0 := k.cl + (R : Int) - p.2
  let j1 := k.cu + (R : Int) - p.2
  if i0 ≤ (i : Int) ∧ (i : Int) < i1 ∧ j0 ≤ (j : Int) ∧ (j : Int) < j1 then
    some (w.cell (k.rl + ((i : Int) - i0), k.cl + ((j : Int) - j0)))
  else none

/-- `local_grid`: the `(2R+1)²` window around agent `a` -/
def localGrid (w : World) (a : Aid) (R : Nat) : List (List (Option (List Aid))) :=
  tab (2*R+1) (2*R+1) (localCell w (w.stOf a).pos R)

/-- every entry of `agents` in dictionary order as `(r_diff, c_diff, blocking, active)` relative
to the viewer `a` — **including `a` itself** (`other.position - agent.position`) -/
def blockersOf (w : World) (a : Aid) : List Mask.Blocker :=
  (List.range w.n).map fun b =>
    ((w.stOf b).pos.1 - (w.stOf a).pos.1, (w.stOf b).pos.2 - (w.stOf a).pos.2,
     (w.cfgOf b).blocking, (w.stOf b).active)

/-- the `mask` returned by `create_grid_and_mask(agent, grid, R, agents)` (`true` = 1 = visible) -/
def maskFor (w : World) (a : Aid) (R : Nat) : List (List Bool) := Mask.maskOf R (blockersOf w a)

/-! ## Threading the tape through the double loop -/

/-- `for x in xs: out.append(f(x))` where `f` may draw from the tape and may raise -/
def scanM {α β : Type} (f : α → Tape → Except GErr (β × Tape)) :
    List α → Tape → Except GErr (List β × Tape)
  | [], t => .ok ([], t)
  | x :: xs, t =>
    match f x t with
    | .error e => .error e
    | .ok (y, t1) =>
      match scanM f xs t1 with
      | .error e => .error e
      | .ok (ys, t2) => .ok (y :: ys, t2)

/-- `for r in range(2R+1): for c in range(2R+1): out[r, c] = f(r, c)` — row-major -/
def convolve (R : Nat) (f : Nat → Nat → Tape → Except GErr (Int × Tape)) (t : Tape) :
    Except GErr (List (List Int) × Tape) :=
  scanM (fun i => scanM (fun j => f i j) (List.range (2*R+1))) (List.range (2*R+1)) t

/-- `np.random.choice([other.encoding for other in …])` -/
def pick (w : World) (occ : List Aid) (t : Tape) : Except GErr (Int × Tape) :=
  match Oracle.choice (occ.map w.encOf) t with
  | (some v, t') => .ok (v, t')
  | (none, _) => .error .other          -- numpy raises `ValueError` on an empty sequence

/-! ## `AbsoluteEncodingObserver` -/

/-- body of the double loop (`convolved_grid = np.zeros(..)` supplies the 0 of the `continue`) -/
def absCell (w : World) (a : Aid) (vis : Bool) (cell : Option (List Aid)) (t : Tape) :
    Except GErr (Int × Tape) :=
  if vis then                                   -- `if mask[r, c]`
    match cell with
    | none => .ok (0, t)                        -- out of bounds: `continue` (cropped out below)
    | some occ =>
      if occ.isEmpty then .ok (0, t)            -- `elif not candidate_agents`
      else if a ∈ occ then .ok (-1, t)          -- `if agent.id in candidate_agents`
      else pick w occ t                         -- one of the encodings on the cell
  else .ok (-2, t)

/-- `obs = -2 * ones((rows, cols)); obs[rl:ru, cl:cu] = convolved[(rl+R-r):(ru+R-r), (cl+R-c):(cu+R-c)]` -/
def paste (rows cols : Nat) (p : Pos) (R : Nat) (conv : List (List Int)) : List (List Int) :=
  let k := clip rows cols p R
  tab rows cols fun gi gj =>
    if k.rl ≤ (gi : Int) ∧ (gi : Int) < k.ru ∧ k.cl ≤ (gj : Int) ∧ (gj : Int) < k.cu then
      at2 conv ((k.rl + (R : Int) - p.1) + ((gi : Int) - k.rl)).toNat
               ((k.cl + (R : Int) - p.2) + ((gj : Int) - k.cl)).toNat (-2)
    else -2

def getObsAbsolute (w : World) (a : Aid) (t : Tape) : Except GErr (Obs × Tape) :=
  if !(w.cfgOf a).observing then .ok (.unsupported, t)
  else if !w.inGrid (w.stOf a).pos then .error .badIndex
  else
    let R := (w.cfgOf a).viewRange
    let lg := localGrid w a R
    let m := maskFor w a R
    match convolve R (fun i j => absCell w a (at2 m i j false) (at2 lg i j none)) t with
    | .error e => .error e
    | .ok (conv, t') => .ok (.grid (paste w.rows w.cols (w.stOf a).pos R conv), t')

/-! ## `PositionCenteredEncodingObserver` -/

def cenCell (w : World) (a : Aid) (observeSelf : Bool) (vis : Bool) (cell : Option (List Aid))
    (t : Tape) : Except GErr (Int × Tape) :=
  if vis then
    match cell with
    | none => .ok (-1, t)                       -- out of bounds
    | some occ =>
      if occ.isEmpty then .ok (0, t)
      else if observeSelf then pick w occ t
      else
        let others := occ.filter (fun b => b != a)      -- `if other.id != agent.id`
        if others.isEmpty then .ok (0, t)               -- `… if choices else 0`
        else pick w others t
  else .ok (-2, t)

def getObsCentered (w : World) (a : Aid) (observeSelf : Bool) (t : Tape) : Except GErr (Obs × Tape) :=
  if !(w.cfgOf a).observing then .ok (.unsupported, t)
  else if !w.inGrid (w.stOf a).pos then .error .badIndex
  else
    let R := (w.cfgOf a).viewRange
    let lg := localGrid w a R
    let m := maskFor w a R
    match convolve R (fun i j => cenCell w a observeSelf (at2 m i j false) (at2 lg i j none)) t with
    | .error e => .error e
    | .ok (obs, t') => .ok (.grid obs, t')

/-! ## `StackedPositionCenteredEncodingObserver` -/

/-- `max([agent.encoding for agent in agents.values()])` (0 for an empty dictionary, where
Python raises — no agent could be asked then) -/
def maxEnc (w : World) : Int :=
  match w.cfg with
  | [] => 0
  | c :: cs => cs.foldl (fun m x => max m x.enc) c.enc

/-- `obs[r, c, encoding]`; layer `e` counts the occupants whose encoding is `e + 1` -/
def stkCell (w : World) (vis : Bool) (cell : Option (List Aid)) (e : Nat) : Int :=
  if vis then
    match cell with
    | none => -1
    | some occ =>
      if occ.isEmpty then 0
      else ((occ.countP fun b => w.encOf b == (e : Int) + 1 : Nat) : Int)
  else -2

/-- the triple loop `for encoding: for r: for c:` draws nothing from the tape, so the order of
the loops is unobservable; the array is built entry by entry, shape `(2R+1, 2R+1, E)`.
`E = number_of_encodings ≤ 0` makes `np.zeros` raise (negative dimension). -/
def getObsStacked (w : World) (a : Aid) (t : Tape) : Except GErr (Obs × Tape) :=
  if !(w.cfgOf a).observing then .ok (.unsupported, t)
  else if !w.inGrid (w.stOf a).pos then .error .badIndex
  else if maxEnc w < 0 then .error .other
  else
    let R := (w.cfgOf a).viewRange
    let lg := localGrid w a R
    let m := maskFor w a R
    let E := (maxEnc w).toNat
    .ok (.stack (tab (2*R+1) (2*R+1) fun i j =>
            (List.range E).map fun e => stkCell w (at2 m i j false) (at2 lg i j none) e), t)

/-! ## `AbsolutePositionObserver`, `AmmoObserver` -/

/-- `isinstance(agent, ObservingAgent) and isinstance(agent, GridWorldAgent)` → `agent.position` -/
def getObsPosition (w : World) (a : Aid) (t : Tape) : Except GErr (Obs × Tape) :=
  if !(w.cfgOf a).observing then .ok (.unsupported, t)
  else .ok (.vec (w.stOf a).pos, t)

/-- `isinstance(agent, AmmoAgent) and isinstance(agent, ObservingAgent)` → `agent.ammo` -/
def getObsAmmo (w : World) (a : Aid) (t : Tape) : Except GErr (Obs × Tape) :=
  if !((w.cfgOf a).hasAmmo && (w.cfgOf a).observing) then .ok (.unsupported, t)
  else .ok (.scalar (w.stOf a).ammo, t)

/-! ## One entry point for the driver -/

inductive Kind where
  | absolute | centered (observeSelf : Bool) | stacked | position | ammo
deriving Repr, DecidableEq

def getObs (w : World) (a : Aid) : Kind → Tape → Except GErr (Obs × Tape)
  | .absolute, t => getObsAbsolute w a t
  | .centered os, t => getObsCentered w a os t
  | .stacked, t => getObsStacked w a t
  | .position, t => getObsPosition w a t
  | .ammo, t => getObsAmmo w a t

end Observers
end Abmarl
