import Abmarl.Model.GridSimDriver
import Abmarl.Model.MgrDriver
import Abmarl.Model.AttacksDriver
import Abmarl.Spec.MultiGrid
/-!
Driver glue for `MultiAgentGridSim` (`gexample` / `mgrx` with configuration `(multigrid learning comp)`).
Trusted base.

**`(gexample (multigrid learning comp) stat dyn0 ops implTrace)`** — `learning` = `is_agent` per agent,
`comp` = the `PositionState` with its options (as in `ghist`); `stat`, `dyn0` the world as built;
`ops` = `(reset comp tape)` | `(step (agent…))` (the keys of the action dict) | `(obs a)` | `(rew a)` | `(done a)` |
`(alldone)`; trace entry = `(res dyn)`, `res` = `(unit)` | `(int r)` | `(obs nkeys member)` | `(bool b)` |
`(err kind)`; a call that raised is sent as `((err kind) ())`.  Reply `(modelTrace specOnModel specOnImpl pre)`.

**`(mgrx (multigrid learning comp) stat dyn0 kind shuffle mgrTape simTape ops implTrace)`** — `ops` = `(r)` |
`(s ((agent 0)…))`; observations `(nkeys member)`, infos `()`.
-/
namespace Abmarl
namespace MultiGridDriver
open GridWire MAG

def cfg? (v : Val) : Option Cfg := do
  match v with
  | .list [.atom "multigrid", lr, c] => pure { learning := ← lr.bools?, comp := ← GridSimDriver.comp? c }
  | _ => none

def op? (v : Val) : Option MOp := do
  match v with
  | .list [.atom "reset", c, t] => pure (.reset (← GridSimDriver.comp? c) (← t.nats?))
  | .list [.atom "step", a] => pure (.step (← a.nats?))
  | .list [.atom "obs", a] => pure (.obs (← a.nat?))
  | .list [.atom "rew", a] => pure (.rew (← a.nat?))
  | .list [.atom "done", a] => pure (.done (← a.nat?))
  | .list [.atom "alldone"] => pure .allDone
  | _ => none

def encRes : MRes → Val
  | .unit => .list [.atom "unit"]
  | .int r => .list [.atom "int", .int r]
  | .obs k m => .list [.atom "obs", Val.ofNat k, Val.ofBool m]
  | .bool b => .list [.atom "bool", Val.ofBool b]
  | .err e => .list [.atom "err", encGErr e]

def res? (v : Val) : Option MRes := do
  match v with
  | .list [.atom "unit"] => pure .unit
  | .list [.atom "int", r] => pure (.int (← r.int?))
  | .list [.atom "obs", k, m] => pure (.obs (← k.nat?) (← m.bool?))
  | .list [.atom "bool", b] => pure (.bool (← b.bool?))
  | .list [.atom "err", e] => pure (.err (AttacksDriver.gerr? e))
  | _ => none

def encEntry (e : MEntry) : Val :=
  match e.res with
  | .err _ => .list [encRes e.res, .list []]
  | _ => .list [encRes e.res, encDyn e.w]

def entry? (stat : Val) (w0 : World) (v : Val) : Option MEntry := do
  match v with
  | .list [r, .list []] =>
    match ← res? r with
    | .err e => pure { res := .err e, w := w0 }
    | _ => none
  | .list [r, dyn] => pure { res := ← res? r, w := ← world? stat dyn }
  | _ => none

def b2v (b : Bool) : Val := Val.ofBool b

def handle (args : List Val) : Option Val := do
  match args with
  | [cfg, stat, dyn, ops, impl] =>
    let _cfg ← cfg? cfg
    let w0 ← world? stat dyn
    let ops ← (← ops.list?).mapM op?
    let m := (MAG.runOps { w := w0 } ops).1
    let judge := fun (tr : List MEntry) => b2v (specMAG w0 (zipOps ops tr))
    let is : Val :=
      match (impl.list?).bind (fun l => l.mapM (entry? stat w0)) with
      | some tr => if tr.isEmpty then .int (-1) else judge tr
      | none => .int (-1)
    pure (.list [.list (m.map encEntry), judge m, is, b2v (magPre w0 ops)])
  | _ => none

/-! ## `mgrx` -/

abbrev ME := Entry Int ObsOut Unit

def acts? (v : Val) : Option (List (Aid × Int)) := MgrDriver.pairList? Val.int? v

def mop? (v : Val) : Option (Op Int) := do
  match v with
  | .list [.atom "r"] => pure .reset
  | .list [.atom "s", a] => pure (.step (← acts? a))
  | _ => none

def encObsOut (o : ObsOut) : Val := .list [Val.ofNat o.1, Val.ofBool o.2]

def obsOut? (v : Val) : Option ObsOut := do
  match v with
  | .list [k, m] => pure (← k.nat?, ← m.bool?)
  | _ => none

def unit? (v : Val) : Option Unit :=
  match v with
  | .list [] => some ()
  | _ => none

def mres? (v : Val) : Option (Res Int ObsOut Unit) := do
  match v with
  | .list [.atom "r", o] => pure (.resetOk (← MgrDriver.pairList? obsOut? o))
  | .list [.atom "s", o, r, d, i, ad] =>
    pure (.stepOk { obs := ← MgrDriver.pairList? obsOut? o, rewards := ← MgrDriver.pairList? Val.int? r,
                    dones := ← MgrDriver.pairList? Val.bool? d, infos := ← MgrDriver.pairList? unit? i,
                    allDone := ← ad.bool? })
  | .list [.atom "e", .atom c] => pure (.err (MgrDriver.errOf c))
  | _ => none

def mentry? (op : Op Int) (v : Val) : Option ME := do
  match v with
  | .list [r, sa, acc, gh] =>
    let sa' ← match sa with
      | .list [.atom "n"] => pure none
      | .list [.atom "y", a] => pure (some (← acts? a))
      | _ => none
    pure { op := op, res := ← mres? r, simArgs := sa', accrued := ← acc.ints?, ghost := ← MgrDriver.ghost? gh }
  | _ => none

def mzip? : List (Op Int) → List Val → Option (List ME)
  | [], [] => some []
  | op :: ops, v :: vs => do pure ((← mentry? op v) :: (← mzip? ops vs))
  | _, _ => none

def encMRes : Res Int ObsOut Unit → Val
  | .resetOk o => .list [.atom "r", MgrDriver.encPairs encObsOut o]
  | .stepOk o => .list [.atom "s", MgrDriver.encPairs encObsOut o.obs, MgrDriver.encPairs Val.int o.rewards,
                        MgrDriver.encPairs Val.ofBool o.dones, MgrDriver.encPairs (fun _ => .list []) o.infos,
                        Val.ofBool o.allDone]
  | .err e => .list [.atom "e", .atom (MgrDriver.errStr e)]

def encMEntry (e : ME) : Val :=
  .list [encMRes e.res,
         (match e.simArgs with | none => .list [.atom "n"] | some a => .list [.atom "y", MgrDriver.encPairs Val.int a]),
         Val.ofInts e.accrued,
         .list [Val.ofBool e.ghost.simAllDone, .list (e.ghost.simDone.map Val.ofBool),
                Val.ofInts e.ghost.pending, Val.ofNats e.ghost.nominated]]

def handleMgr (args : List Val) : Option Val := do
  match args with
  | [cfg, stat, dyn, k, sh, mtape, stape, ops, impl] =>
    let cfg ← cfg? cfg
    let w0 ← world? stat dyn
    let k ← MgrDriver.kind? k
    let sh ← sh.bool?
    let mtape ← mtape.nats?
    let stape ← stape.nats?
    let ops ← (← ops.list?).mapM mop?
    let S := toSimIface cfg w0.n
    let tr := Abmarl.runOps S k (mgrInit ({ w := w0, tape := stape } : St) sh mtape) ops
    let spec1 := fun (t : List ME) => specC01 k S.n S.learning sh t
    let spec7 := fun (t : List ME) => specC07 k S.n S.learning t
    let implV ← impl.list?
    let (i1, i7) : Val × Val :=
      if implV.isEmpty then (.int (-1), .int (-1))
      else match mzip? ops implV with
        | some it => (b2v (spec1 it), b2v (spec7 it))
        | none => (.int (-2), .int (-2))
    pure (.list [.list (tr.map encMEntry), b2v (spec1 tr), b2v (spec7 tr), i1, i7])
  | _ => none

end MultiGridDriver
end Abmarl
