import Abmarl.Model.GridWire
import Abmarl.Spec.Placement
import Abmarl.Spec.GridSim
/-!
Driver glue for C13.

`(gplace stat dynPre opts tape implOutcome)`
  opts    = `(kind noOverlap randomize cluster scatter target (barrier…) (free…))`, kind ∈ position|target|maze
  outcome = `(ok dynPost)` | `(err kind dynPost)`   (dynPost of an error: the grid it leaves behind)
  reply   = `(modelOutcome (spec wf c03) (spec static vitals posInv fixedOnInit aloneFinal maze replay c03))` —
            `specPlacement` on the model's and on the implementation's outcome (1/0, -1 when
            absent/unparsable), the latter followed by its conjuncts; `wf` = `wfPlacement`, the
            decidable hypothesis of the theorems.  The trailing `c03` of both lists is `specC03Place`
            (Spec/GridSim.lean; read by the C03 check only): a successful reset that finds everybody
            alive with legal vitals leaves a world satisfying `WInv`.

`(gmaze rows cols (r c) tape implOutcome)`
  outcome = `(ok (flat maze))` | `(err kind)`
  reply   = `(modelOutcome (spec) (spec))` — `specMaze`.
-/
namespace Abmarl
namespace PlacementDriver
open GridWire World

def kind? (v : Val) : Option PKind :=
  match v with
  | .atom "position" => some .position | .atom "target" => some .target | .atom "maze" => some .maze
  | _ => none

def opts? (v : Val) : Option (PKind × PlaceOpts) := do
  match v with
  | .list [k, no, rnd, cl, sc, tg, bar, fr] =>
    pure (← kind? k, { noOverlap := ← no.bool?, randomize := ← rnd.bool?, cluster := ← cl.bool?,
                       scatter := ← sc.bool?, target := ← tg.nat?, barrier := ← bar.ints?,
                       free := ← fr.ints? })
  | _ => none

def gerr? (v : Val) : Option GErr :=
  match v with
  | .atom "keyError" => some .keyError | .atom "badIndex" => some .badIndex
  | .atom "assertion" => some .assertion | .atom "noCell" => some .noCell | .atom _ => some .other
  | _ => none

def encOut (o : PlaceOut) : Val :=
  match o.err with
  | none => .list [.atom "ok", encDyn o.post]
  | some e => .list [.atom "err", encGErr e, encDyn o.post]

def out? (stat : Val) (v : Val) : Option PlaceOut := do
  match v with
  | .list [.atom "ok", dyn] => pure ⟨none, ← world? stat dyn⟩
  | .list [.atom "err", k, dyn] => pure ⟨some (← gerr? k), ← world? stat dyn⟩
  | _ => none

def b2v (b : Bool) : Val := Val.ofBool b

/-- the conjuncts of `specPlacement`, one by one (for the replay files and the finding matcher) -/
def parts (kind : PKind) (o : PlaceOpts) (w : World) (t : Tape) (out : PlaceOut) : List Val :=
  let w' := out.post
  let mz := mazeOf kind o w t w'
  [b2v (specPlacement kind o w t out), b2v (sameGrid w w' && w'.wShape), b2v (vitalsKept w w'),
   b2v (out.err.isSome || w'.posInv), b2v (out.err.isSome || fixedOnInit w'),
   b2v (out.err.isSome || aloneFinal o w'),
   b2v (out.err.isSome || kind != .maze || Maze.specMaze w'.rows w'.cols (w'.stOf o.target).pos mz),
   b2v (replay kind o w' mz out.err (placementOrder kind o w t) (List.replicate (w.rows * w.cols) []))]

def handlePlace (args : List Val) : Option Val := do
  match args with
  | [stat, dyn, opts, tape, impl] =>
    let w ← world? stat dyn
    let (kind, o) ← opts? opts
    let t ← tape.nats?
    let m := (resetX kind o w t).1
    let ms : Val := .list [b2v (specPlacement kind o w t m), b2v (wfPlacement kind o w), b2v (specC03Place w m)]
    let is : Val :=
      match out? stat impl with
      | some io => .list (parts kind o w t io ++ [b2v (specC03Place w io)])
      | none => .list [.int (-1)]
    pure (.list [encOut m, ms, is])
  | _ => none

def encMaze : Except GErr (List Nat × Tape) → Val
  | .ok r => .list [.atom "ok", Val.ofNats r.1]
  | .error e => .list [.atom "err", encGErr e]

def handleMaze (args : List Val) : Option Val := do
  match args with
  | [rows, cols, start, tape, impl] =>
    let rows ← rows.nat?
    let cols ← cols.nat?
    let s ← pos? start
    let t ← tape.nats?
    let m := Maze.generateMaze rows cols s t
    let ms : Val :=
      match m with
      | .ok r => .list [b2v (Maze.specMaze rows cols s r.1)]
      | .error _ => .list [.int 0]
    let is : Val :=
      match impl with
      | .list [.atom "ok", mz] =>
        (match mz.nats? with
         | some l => .list [b2v (Maze.specMaze rows cols s l)]
         | none => .list [.int (-1)])
      | .list [.atom "err", _] => .list [.int 0]
      | _ => .list [.int (-1)]
    pure (.list [encMaze m, ms, is])
  | _ => none

end PlacementDriver
end Abmarl
