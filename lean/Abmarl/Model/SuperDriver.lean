import Abmarl.Model.MgrDriver
import Abmarl.Model.SuperAgent
import Abmarl.Spec.SuperAgent
/-!
Driver glue for the super-agent wrapper (C14).  Trusted base.

`(super script cfg calls implOutcome)` — call-level session of the wrapper over the stub
  cfg      `(groups uncovered nullObs nullTruthy)`, nullObs item `()` | `((ints…))`
  call     `(r)` | `(s ((ref act)…))` | `(o ref)` | `(w ref)` | `(d ref)` | `(a)` | `(i ref)`
  ref      `(S i)` | `(I a)`;   act `(p v)` | `(j ((c v)…))`
  outcome  `(ok (entry…))` | `(e kind)` | `()` (none sent)
  entry    `(res simArgs accrued obsReads simDone pending simAllDone simInfos)`
  res      `(u)` | `(o obs)` | `(w int)` | `(d bool)` | `(i info)` | `(e kind)`
  obs      `(p (ints…))` | `(s ((c bit)…) ((c (ints…))…))`;  info `(p (ints…))` | `(s ((c (ints…))…))`
reply `(modelOutcome specOnModel specOnImpl)`.

`(supermgr kind shuffle script cfg tape ops implTrace)` — a manager over the wrapper over the stub:
the manager model instantiated on `superSim (stubSim script) cfg`; ops `(r)` | `(s ((outer act)…))`;
entries as for `mgr` with super observations / infos / actions; reply
`(modelTrace specC01 specC07 specC01onImpl specC07onImpl)`.
-/
namespace Abmarl
namespace SuperDriver
open MgrDriver

abbrev E := SupEntry Int (List Int) (List Int)
abbrev ME := Entry (SAct Int) (SObs (List Int)) (SInfo (List Int))

def encOpt {β : Type} (f : β → Val) : Option β → Val
  | none => .list [] | some x => .list [f x]

def opt? {β : Type} (f : Val → Option β) (v : Val) : Option (Option β) :=
  match v with
  | .list [] => some none
  | .list [x] => (f x).map some
  | _ => none

def cfg? (v : Val) : Option (SuperCfg (List Int)) := do
  match v with
  | .list [g, u, no, nt] =>
    pure { groups := ← (← g.list?).mapM Val.nats?, uncovered := ← u.nats?,
           nullObs := ← (← no.list?).mapM (opt? Val.ints?), nullTruthy := ← nt.bools? }
  | _ => none

def ref? (v : Val) : Option Ref :=
  match v with
  | .list [.atom "S", i] => i.nat?.map Ref.sup
  | .list [.atom "I", a] => a.nat?.map Ref.inner
  | _ => none

def act? (v : Val) : Option (SAct Int) := do
  match v with
  | .list [.atom "p", x] => pure (.plain (← x.int?))
  | .list [.atom "j", l] => pure (.joint (← pairList? Val.int? l))
  | _ => none

def encAct : SAct Int → Val
  | .plain v => .list [.atom "p", .int v]
  | .joint l => .list [.atom "j", encPairs Val.int l]

def call? (v : Val) : Option (SCall Int) := do
  match v with
  | .list [.atom "r"] => pure .reset
  | .list [.atom "s", acts] =>
    pure (.step (← (← acts.list?).mapM fun p => do
      match p with
      | .list [r, a] => pure ((← ref? r), (← act? a))
      | _ => none))
  | .list [.atom "o", r] => pure (.getObs (← ref? r))
  | .list [.atom "w", r] => pure (.getReward (← ref? r))
  | .list [.atom "d", r] => pure (.getDone (← ref? r))
  | .list [.atom "a"] => pure .getAllDone
  | .list [.atom "i", r] => pure (.getInfo (← ref? r))
  | _ => none

def obs? (v : Val) : Option (SObs (List Int)) := do
  match v with
  | .list [.atom "p", o] => pure (.plain (← o.ints?))
  | .list [.atom "s", m, o] => pure (.super (← pairList? Val.bool? m) (← pairList? Val.ints? o))
  | _ => none

def encObs : SObs (List Int) → Val
  | .plain o => .list [.atom "p", Val.ofInts o]
  | .super m o => .list [.atom "s", encPairs Val.ofBool m, encPairs Val.ofInts o]

def info? (v : Val) : Option (SInfo (List Int)) := do
  match v with
  | .list [.atom "p", o] => pure (.plain (← o.ints?))
  | .list [.atom "s", o] => pure (.super (← pairList? Val.ints? o))
  | _ => none

def encInfo : SInfo (List Int) → Val
  | .plain o => .list [.atom "p", Val.ofInts o]
  | .super o => .list [.atom "s", encPairs Val.ofInts o]

def sres? (v : Val) : Option (SupRes (List Int) (List Int)) := do
  match v with
  | .list [.atom "u"] => pure .unit
  | .list [.atom "o", o] => pure (.obs (← obs? o))
  | .list [.atom "w", r] => pure (.reward (← r.int?))
  | .list [.atom "d", b] => pure (.done (← b.bool?))
  | .list [.atom "i", i] => pure (.info (← info? i))
  | .list [.atom "e", .atom c] => pure (.err (errOf c))
  | _ => none

def encSRes : SupRes (List Int) (List Int) → Val
  | .unit => .list [.atom "u"]
  | .obs o => .list [.atom "o", encObs o]
  | .reward r => .list [.atom "w", .int r]
  | .done b => .list [.atom "d", Val.ofBool b]
  | .info i => .list [.atom "i", encInfo i]
  | .err e => .list [.atom "e", .atom (errStr e)]

def sentry? (call : SCall Int) (v : Val) : Option E := do
  match v with
  | .list [r, sa, acc, reads, sd, p, ad, infos] =>
    pure { call := call, res := ← sres? r, simArgs := ← opt? (pairList? Val.int?) sa,
           accrued := ← acc.ints?, obsReads := ← pairList? Val.ints? reads, simDone := ← sd.bools?,
           pending := ← p.ints?, simAllDone := ← ad.bool?, simInfos := ← (← infos.list?).mapM Val.ints? }
  | _ => none

def encSEntry (e : E) : Val :=
  .list [encSRes e.res, encOpt (encPairs Val.int) e.simArgs, Val.ofInts e.accrued,
         encPairs Val.ofInts e.obsReads, .list (e.simDone.map Val.ofBool), Val.ofInts e.pending,
         Val.ofBool e.simAllDone, .list (e.simInfos.map Val.ofInts)]

def zipS? : List (SCall Int) → List Val → Option (List E)
  | [], [] => some []
  | c :: cs, v :: vs => do pure ((← sentry? c v) :: (← zipS? cs vs))
  | _, _ => none

def outcome? (calls : List (SCall Int)) (v : Val) : Option (Except Err (List E)) := do
  match v with
  | .list [.atom "ok", es] => pure (.ok (← zipS? calls (← es.list?)))
  | .list [.atom "e", .atom c] => pure (.error (errOf c))
  | _ => none

def encOutcome : Except Err (List E) → Val
  | .ok tr => .list [.atom "ok", .list (tr.map encSEntry)]
  | .error e => .list [.atom "e", .atom (errStr e)]

/-- `(super script cfg calls implOutcome)` -/
def handle (args : List Val) : Option Val := do
  match args with
  | [sc, cfg, calls, impl] =>
    let sc ← script? sc
    let cfg ← cfg? cfg
    let calls ← (← calls.list?).mapM call?
    let S := stubSim sc
    let s0 : StubSt := { reads := List.replicate sc.n 0, pend := List.replicate sc.n 0 }
    let out := supSession S cfg s0 calls
    let spec := fun (o : Except Err (List E)) => specC14 sc.n S.learning cfg o
    let is : Val :=
      match impl with
      | .list [] => .int (-1)
      | v => match outcome? calls v with
        | some o => b2i (spec o)
        | none => .int (-2)
    pure (.list [encOutcome out, b2i (spec out), is])
  | _ => none

/-! manager over the wrapper -/

def mop? (v : Val) : Option (Op (SAct Int)) := do
  match v with
  | .list [.atom "r"] => pure .reset
  | .list [.atom "s", acts] => pure (.step (← pairList? act? acts))
  | _ => none

def mres? (v : Val) : Option (Res (SAct Int) (SObs (List Int)) (SInfo (List Int))) := do
  match v with
  | .list [.atom "r", o] => pure (.resetOk (← pairList? obs? o))
  | .list [.atom "s", o, r, d, i, ad] =>
    pure (.stepOk { obs := ← pairList? obs? o, rewards := ← pairList? Val.int? r,
                    dones := ← pairList? Val.bool? d, infos := ← pairList? info? i,
                    allDone := ← ad.bool? })
  | .list [.atom "e", .atom c] => pure (.err (errOf c))
  | _ => none

def encMRes : Res (SAct Int) (SObs (List Int)) (SInfo (List Int)) → Val
  | .resetOk o => .list [.atom "r", encPairs encObs o]
  | .stepOk o => .list [.atom "s", encPairs encObs o.obs, encPairs Val.int o.rewards,
                        encPairs Val.ofBool o.dones, encPairs encInfo o.infos, Val.ofBool o.allDone]
  | .err e => .list [.atom "e", .atom (errStr e)]

def mentry? (op : Op (SAct Int)) (v : Val) : Option ME := do
  match v with
  | .list [r, sa, acc, gh] =>
    let sa' ← match sa with
      | .list [.atom "n"] => pure none
      | .list [.atom "y", a] => pure (some (← pairList? act? a))
      | _ => none
    pure { op := op, res := ← mres? r, simArgs := sa', accrued := ← acc.ints?, ghost := ← ghost? gh }
  | _ => none

def zipM? : List (Op (SAct Int)) → List Val → Option (List ME)
  | [], [] => some []
  | op :: ops, v :: vs => do pure ((← mentry? op v) :: (← zipM? ops vs))
  | _, _ => none

def encMEntry (e : ME) : Val :=
  .list [encMRes e.res,
         (match e.simArgs with | none => .list [.atom "n"] | some a => .list [.atom "y", encPairs encAct a]),
         Val.ofInts e.accrued,
         .list [Val.ofBool e.ghost.simAllDone, .list (e.ghost.simDone.map Val.ofBool),
                Val.ofInts e.ghost.pending, Val.ofNats e.ghost.nominated]]

/-- `(supermgr kind shuffle script cfg tape ops implTrace)` -/
def handleMgr (args : List Val) : Option Val := do
  match args with
  | [k, sh, sc, cfg, tape, ops, impl] =>
    let k ← kind? k
    let sh ← sh.bool?
    let sc ← script? sc
    let cfg ← cfg? cfg
    let tape ← tape.nats?
    let ops ← (← ops.list?).mapM mop?
    let S := superSim (stubSim sc) cfg
    let tr := runOps S k (mgrInit ({ sim := {} } : SupSt StubSt) sh tape) ops
    let spec1 := fun (t : List ME) => specC01 k S.n S.learning sh t
    let spec7 := fun (t : List ME) => specC07 k S.n S.learning t
    let implV ← impl.list?
    let implRes : List Val :=
      if implV.isEmpty then [.int (-1), .int (-1)]
      else match zipM? ops implV with
        | some it => [b2i (spec1 it), b2i (spec7 it)]
        | none => [.int (-2), .int (-2)]
    pure (.list ([.list (tr.map encMEntry), b2i (spec1 tr), b2i (spec7 tr)] ++ implRes))
  | _ => none

end SuperDriver
end Abmarl
