import Abmarl.Model.GridSimDriver
import Abmarl.Model.ObserversDriver
import Abmarl.Model.DoneDriver
import Abmarl.Model.MgrDriver
import Abmarl.Spec.Examples
import Abmarl.Model.CorridorDriver
import Abmarl.Model.MultiGridDriver
import Abmarl.Model.BroadcastDriver
/-!
Driver glue for the packaged example simulations (`gexample`, `mgrx`).  Trusted base.

**`(gexample cfg stat dyn0 ops implTrace)`** — a history of direct calls on ONE simulation object.

* `cfg` = `(which learning comps observers dones (mapping stacked) navigator target navs)`
  * `which` ∈ `teamBattle | predatorPrey | mazeNav | multiMaze | traffic`;
  * `learning` = `is_agent` per agent (0/1); `comps` = the state components in the order the
    `SimIface` instance resets them (as in `ghist`); `observers` = `()` (attribute unset) |
    `(((kind observeSelf)…))` in iteration order (as in `gobs`); `dones` = `()` | `((comp…))` (as in
    `gdone`); `(mapping stacked)` = the `BinaryAttackActor`'s normalised attack mapping and
    `stacked_attacks`; `navigator`, `target` = agent indices; `navs` = indices of the
    `MultiMazeNavigationAgent`s;
* `stat`, `dyn0` — the world as built (`GridWire.world?`);
* `ops` = `(reset (comp…) tape)` | `(step ((agent (dr dc) attack)…) tape)` (items of the action dict
  in insertion order; `attack` = the `Discrete` value of the binary attack channel) |
  `(obs a tape)` | `(rew a)` | `(done a)` | `(alldone)`;
* trace entry = `(res dyn ledger)`, `res` = `(unit)` | `(int r)` (units of 1/100) |
  `(obs ((key value)…))` (values as in `gobs`) | `(bool b)` | `(err kind)`;
  `ledger` = `()` (no reward dict yet) | `(((a r)…))`; a call that raised is sent as
  `((err kind) () ())` (no dump: the history ends there);
* reply `(modelTrace specOnModel specOnImpl pre)`: `specEx` on the model's and on the
  implementation's trace (1/0; −1: no or unparsable trace), and `exPre` (the hypotheses of
  `examples_hist`).

A configuration `(corridor end n)` (`MultiCorridor`, not a grid world) is handed to `Model/CorridorDriver.lean`
(both ops), a configuration `(multigrid learning comp)` (`MultiAgentGridSim`) to `Model/MultiGridDriver.lean`, a
configuration `(broadcast …)` (`BroadcastSim` of comms_blocking.py; `gexample` only) to `Model/BroadcastDriver.lean`.

**`(mgrx cfg stat dyn0 kind shuffle mgrTape simTape ops implTrace)`** — a real manager over the
real example; `ops` = `(r)` | `(s ((agent (dr dc) attack)…))`; entries as in `mgr` with observations
`(ok ((key value)…))` | `(err kind)`, infos `()`.  Reply
`(modelTrace c01Model c07Model c01Impl c07Impl)`.
-/
namespace Abmarl
namespace ExamplesDriver
open GridWire Ex

def which? : Val → Option Which
  | .atom "teamBattle" => some .teamBattle
  | .atom "predatorPrey" => some .predatorPrey
  | .atom "mazeNav" => some .mazeNav
  | .atom "multiMaze" => some .multiMaze
  | .atom "traffic" => some .traffic
  | _ => none

def optList? {β : Type} (f : Val → Option β) (v : Val) : Option (Option (List β)) :=
  match v with
  | .list [] => some none
  | .list [.list l] => (l.mapM f).map some
  | _ => none

def obsKind? (v : Val) : Option Observers.Kind :=
  match v with
  | .list [k, os] => ObserversDriver.kind? k os
  | _ => none

def cfg? (v : Val) : Option Cfg := do
  match v with
  | .list [wh, lr, comps, obs, dones, .list [mp, st], nav, tg, navs] =>
    pure { which := ← which? wh, learning := ← lr.bools?,
           comps := ← (← comps.list?).mapM GridSimDriver.comp?,
           observers := ← optList? obsKind? obs, dones := ← optList? DoneDriver.comp? dones,
           attack := ⟨.binary, ← overlap? mp, ← st.bool?⟩,
           navigator := ← nav.nat?, target := ← tg.nat?, navs := ← navs.nats? }
  | _ => none

def acts? (v : Val) : Option (List (Aid × Act)) := do
  (← v.list?).mapM fun p => do
    match p with
    | .list [a, d, k] => pure ((← a.nat?), { move := ← pos? d, attack := .count (← k.nat?) })
    | _ => none

def encActs (l : List (Aid × Act)) : Val :=
  .list (l.map fun p => .list [Val.ofNat p.1, encPos p.2.move,
    (match p.2.attack with | .count k => Val.ofNat k | _ => .int (-1))])

def op? (v : Val) : Option EOp := do
  match v with
  | .list [.atom "reset", cs, t] => pure (.reset (← (← cs.list?).mapM GridSimDriver.comp?) (← t.nats?))
  | .list [.atom "step", a, t] => pure (.step (← acts? a) (← t.nats?))
  | .list [.atom "obs", a, t] => pure (.obs (← a.nat?) (← t.nats?))
  | .list [.atom "rew", a] => pure (.rew (← a.nat?))
  | .list [.atom "done", a] => pure (.done (← a.nat?))
  | .list [.atom "alldone"] => pure .allDone
  | _ => none

def encItems (o : List (String × Observers.Obs)) : Val :=
  .list (o.map fun p => .list [.atom p.1, ObserversDriver.encObs p.2])

def items? (v : Val) : Option (List (String × Observers.Obs)) := do
  (← v.list?).mapM fun p => do
    match p with
    | .list [.atom k, o] =>
      match ← ObserversDriver.out? o with
      | .ok x => pure (k, x)
      | .error _ => none
    | _ => none

def encLedger : Option Ledger → Val
  | none => .list []
  | some r => .list [.list (r.map fun p => .list [Val.ofNat p.1, .int p.2])]

def ledger? (v : Val) : Option (Option Ledger) :=
  match v with
  | .list [] => some none
  | .list [l] => (MgrDriver.pairList? Val.int? l).map some
  | _ => none

def encRes : ERes → Val
  | .unit => .list [.atom "unit"]
  | .int r => .list [.atom "int", .int r]
  | .obs o => .list [.atom "obs", encItems o]
  | .bool b => .list [.atom "bool", Val.ofBool b]
  | .err e => .list [.atom "err", encGErr e]

def res? (v : Val) : Option ERes := do
  match v with
  | .list [.atom "unit"] => pure .unit
  | .list [.atom "int", r] => pure (.int (← r.int?))
  | .list [.atom "obs", o] => pure (.obs (← items? o))
  | .list [.atom "bool", b] => pure (.bool (← b.bool?))
  | .list [.atom "err", e] => pure (.err (AttacksDriver.gerr? e))
  | _ => none

/-- a call that raised is sent without dump (the real object may have been changed half-way) -/
def encEntry (e : EEntry) : Val :=
  match e.res with
  | .err _ => .list [encRes e.res, .list [], .list []]
  | _ => .list [encRes e.res, encDyn e.w, encLedger e.rewards]

def entry? (stat : Val) (w0 : World) (v : Val) : Option EEntry := do
  match v with
  | .list [r, .list [], .list []] =>
    match ← res? r with
    | .err e => pure { res := .err e, w := w0, rewards := none }
    | _ => none
  | .list [r, dyn, l] => pure { res := ← res? r, w := ← world? stat dyn, rewards := ← ledger? l }
  | _ => none

def b2v (b : Bool) : Val := Val.ofBool b

def handle (args : List Val) : Option Val := do
  match args with
  | (.list (.atom "corridor" :: _)) :: _ => CorridorDriver.handle args      -- `MultiCorridor` (not a grid world)
  | (.list (.atom "multigrid" :: _)) :: _ => MultiGridDriver.handle args    -- `MultiAgentGridSim`
  | (.list (.atom "broadcast" :: _)) :: _ => BroadcastDriver.handle args    -- `BroadcastSim` (comms_blocking.py)
  | [cfg, stat, dyn, ops, impl] =>
    let cfg ← cfg? cfg
    let w0 ← world? stat dyn
    let ops ← (← ops.list?).mapM op?
    let m := (Ex.runOps cfg { w := w0 } ops).1
    let judge := fun (tr : List EEntry) => b2v (specEx cfg w0 (zipOps ops tr))
    let is : Val :=
      match (impl.list?).bind (fun l => l.mapM (entry? stat w0)) with
      | some tr => if tr.isEmpty then .int (-1) else judge tr
      | none => .int (-1)
    pure (.list [.list (m.map encEntry), judge m, is, b2v (exPre cfg w0 ops)])
  | _ => none

/-! ## `mgrx` -/

abbrev ME := Entry Act ObsOut Unit

def mop? (v : Val) : Option (Op Act) := do
  match v with
  | .list [.atom "r"] => pure .reset
  | .list [.atom "s", a] => pure (.step (← acts? a))
  | _ => none

def encObsOut : ObsOut → Val
  | .ok o => .list [.atom "ok", encItems o]
  | .error e => .list [.atom "err", encGErr e]

def obsOut? (v : Val) : Option ObsOut := do
  match v with
  | .list [.atom "ok", o] => pure (.ok (← items? o))
  | .list [.atom "err", e] => pure (.error (AttacksDriver.gerr? e))
  | _ => none

def unit? (v : Val) : Option Unit :=
  match v with
  | .list [] => some ()
  | _ => none

def mres? (v : Val) : Option (Res Act ObsOut Unit) := do
  match v with
  | .list [.atom "r", o] => pure (.resetOk (← MgrDriver.pairList? obsOut? o))
  | .list [.atom "s", o, r, d, i, ad] =>
    pure (.stepOk { obs := ← MgrDriver.pairList? obsOut? o, rewards := ← MgrDriver.pairList? Val.int? r,
                    dones := ← MgrDriver.pairList? Val.bool? d, infos := ← MgrDriver.pairList? unit? i,
                    allDone := ← ad.bool? })
  | .list [.atom "e", .atom c] => pure (.err (MgrDriver.errOf c))
  | _ => none

def mentry? (op : Op Act) (v : Val) : Option ME := do
  match v with
  | .list [r, sa, acc, gh] =>
    let sa' ← match sa with
      | .list [.atom "n"] => pure none
      | .list [.atom "y", a] => pure (some (← acts? a))
      | _ => none
    pure { op := op, res := ← mres? r, simArgs := sa', accrued := ← acc.ints?, ghost := ← MgrDriver.ghost? gh }
  | _ => none

def mzip? : List (Op Act) → List Val → Option (List ME)
  | [], [] => some []
  | op :: ops, v :: vs => do pure ((← mentry? op v) :: (← mzip? ops vs))
  | _, _ => none

def encMRes : Res Act ObsOut Unit → Val
  | .resetOk o => .list [.atom "r", MgrDriver.encPairs encObsOut o]
  | .stepOk o => .list [.atom "s", MgrDriver.encPairs encObsOut o.obs, MgrDriver.encPairs Val.int o.rewards,
                        MgrDriver.encPairs Val.ofBool o.dones, MgrDriver.encPairs (fun _ => .list []) o.infos,
                        Val.ofBool o.allDone]
  | .err e => .list [.atom "e", .atom (MgrDriver.errStr e)]

def encMEntry (e : ME) : Val :=
  .list [encMRes e.res,
         (match e.simArgs with | none => .list [.atom "n"] | some a => .list [.atom "y", encActs a]),
         Val.ofInts e.accrued,
         .list [Val.ofBool e.ghost.simAllDone, .list (e.ghost.simDone.map Val.ofBool),
                Val.ofInts e.ghost.pending, Val.ofNats e.ghost.nominated]]

def handleMgr (args : List Val) : Option Val := do
  match args with
  | (.list (.atom "corridor" :: _)) :: _ => CorridorDriver.handleMgr args
  | (.list (.atom "multigrid" :: _)) :: _ => MultiGridDriver.handleMgr args
  | [cfg, stat, dyn, k, sh, mtape, stape, ops, impl] =>
    let cfg ← cfg? cfg
    let w0 ← world? stat dyn
    let k ← MgrDriver.kind? k
    let sh ← sh.bool?
    let mtape ← mtape.nats?
    let stape ← stape.nats?
    let ops ← (← ops.list?).mapM mop?
    let S := toSimIface cfg w0.n
    let tr := Abmarl.runOps S k (mgrInit ({ w := w0, tape := stape } : St) sh mtape) ops
    let spec1 := fun (t : List ME) => specC01 k S.n S.learning sh t
    let spec7 := fun (t : List ME) => specC07 k S.n S.learning t
    let implV ← impl.list?
    let (i1, i7) : Val × Val :=
      if implV.isEmpty then (.int (-1), .int (-1))
      else match mzip? ops implV with
        | some it => (b2v (spec1 it), b2v (spec7 it))
        | none => (.int (-2), .int (-2))
    pure (.list [.list (tr.map encMEntry), b2v (spec1 tr), b2v (spec7 tr), i1, i7])
  | _ => none

end ExamplesDriver
end Abmarl
