import Abmarl.Model.GridWire
import Abmarl.Model.Done
import Abmarl.Model.Smart
import Abmarl.Spec.Done
/-!
Driver glue for C17 (trusted base).

**`gdone`** — one done component over one world, every getter:
request  `(gdone stat dyn comp implOutcomes)`;
         comp = `(active)` | `(overlap ((a t)…))` | `(tinactive ((a t)…))` |
                `(tenc ((e (t…))…) oneDone)` | `(oneteam)`;
         implOutcomes = `get_done` of agents `0..n-1` in order, then `get_all_done`, each
         `(ok b)` or `(err kind)`  (empty list = none sent);
reply    `((modelOutcomes…) specOnModel specOnImpl)` — spec = every outcome satisfies
         `specDone`/`specAllDone` (and, for the model, the mapping is a dict); 1/0, -1 = not sent,
         -2 = unparsable.

**`gsmart`** — a history of a smart simulation over scripted stub observers / state components:
request  `(gsmart stat dyn0 (learning dones observers states) ops implTrace)`;
         dones = `()` (attribute unset) | `((comp…))` in iteration order;
         observers = `()` | `(((id (key…))…))`: stub observer `id` returns for agent `a` the items
           `key ↦ id·100000 + key·1000 + a·100 + (t mod 50)·2 + [a active]`, `t` = steps so far;
         states = `()` | `(((id ((agent (r c) (num den))…))…))`: stub state component `id` sets
           the listed agents' position and health (the health setter decides `active`);
         op = `(reset)` | `(step ((a x)…) sts)` (accruals; agent states after the subclass's step —
           the step function is the subclass's own code and is an *input*) | `(rew a)` | `(obs a)` |
           `(done a)` | `(alldone)`;
         trace entry = `(res pending sim calls outs)`, res = `(unit)` | `(int r)` |
           `(obs ((k v)…))` | `(bool b)` | `(err kind)`; pending = `()` | `(((a r)…))`;
           sim = agent states after a successful reset, `()` otherwise;
reply    `(modelTrace specOnModel specOnImpl)` with spec = `specSmart`.

**`gmerge`** — see the end of the file.
-/
namespace Abmarl
namespace DoneDriver
open GridWire

def pairs? {α β : Type} (f : Val → Option α) (g : Val → Option β) (v : Val) : Option (List (α × β)) := do
  (← v.list?).mapM fun p => do
    match p with
    | .list [a, b] => pure ((← f a), (← g b))
    | _ => none

def comp? (v : Val) : Option DoneComp := do
  match v with
  | .list [.atom "active"] => pure .active
  | .list [.atom "oneteam"] => pure .oneTeam
  | .list [.atom "overlap", m] => pure (.targetOverlap (← pairs? Val.nat? Val.nat? m))
  | .list [.atom "tinactive", m] => pure (.targetInactive (← pairs? Val.nat? Val.nat? m))
  | .list [.atom "tenc", m, one] => pure (.targetEncoding (← pairs? Val.int? Val.ints? m) (← one.bool?))
  | _ => none

def errOf (s : String) : GErr :=
  match s with
  | "keyError" => .keyError
  | "badIndex" => .badIndex
  | "assertion" => .assertion
  | "noCell" => .noCell
  | _ => .other

def outcome? (v : Val) : Option (Except GErr Bool) := do
  match v with
  | .list [.atom "ok", b] => pure (.ok (← b.bool?))
  | .list [.atom "err", .atom k] => pure (.error (errOf k))
  | _ => none

def encOutcome : Except GErr Bool → Val
  | .ok b => .list [.atom "ok", Val.ofBool b]
  | .error e => .list [.atom "err", encGErr e]

/-- all getters of one component: `get_done` for every agent, then `get_all_done` -/
def allOutcomes (c : DoneComp) (w : World) : List (Except GErr Bool) :=
  (List.range w.n).map (Done.getDone c w) ++ [Done.getAllDone c w]

def judgeOutcomes (c : DoneComp) (w : World) (outs : List (Except GErr Bool)) : Bool :=
  (outs.length == w.n + 1) &&
  (List.range w.n).all (fun a => match outs[a]? with | some o => specDone c w a o | none => false) &&
  (match outs[w.n]? with | some o => specAllDone c w o | none => false)

def handleDone (args : List Val) : Option Val := do
  match args with
  | [stat, dyn, comp, impl] =>
    let w ← world? stat dyn
    let c ← comp? comp
    let m := allOutcomes c w
    let ms := judgeOutcomes c w m && c.isDict
    let implV ← impl.list?
    let is : Val :=
      if implV.isEmpty then .int (-1)
      else match implV.mapM outcome? with
        | some io => Val.ofBool (judgeOutcomes c w io)
        | none => .int (-2)
    pure (.list [.list (m.map encOutcome), Val.ofBool ms, is])
  | _ => none

/-! ### the stub smart simulation -/

structure StubSt where
  w : World
  t : Nat := 0

def obsVal (id k : Nat) (a : Aid) (s : StubSt) : Int :=
  (id * 100000 + k * 1000 + a * 100 + (s.t % 50) * 2 + (if (s.w.stOf a).active then 1 else 0) : Nat)

def stubObserver (id : Nat) (keys : List Nat) : StubSt → Aid → List (Nat × Int) :=
  fun s a => keys.map (fun k => (k, obsVal id k a s))

def stubState (assign : List (Aid × Pos × Rat)) : StubSt → StubSt :=
  fun s => { s with w := assign.foldl (fun w p =>
    (w.setSt p.1 { w.stOf p.1 with pos := p.2.1 }).setHealth p.1 p.2.2) s.w }

def observer? (v : Val) : Option (StubSt → Aid → List (Nat × Int)) := do
  match v with
  | .list [id, keys] => pure (stubObserver (← id.nat?) (← keys.nats?))
  | _ => none

def assign? (v : Val) : Option (Aid × Pos × Rat) := do
  match v with
  | .list [a, p, h] => pure ((← a.nat?), (← pos? p), (← rat? h))
  | _ => none

def state? (v : Val) : Option (StubSt → StubSt) := do
  match v with
  | .list [_, asg] => pure (stubState (← (← asg.list?).mapM assign?))
  | _ => none

/-- `()` = attribute unset, `((x…))` = the components in iteration order -/
def optList? {β : Type} (f : Val → Option β) (v : Val) : Option (Option (List β)) :=
  match v with
  | .list [] => some none
  | .list [.list l] => (l.mapM f).map some
  | _ => none

abbrev E := SEntry StubSt Nat Int

def op? (v : Val) : Option (SOp StubSt) := do
  match v with
  | .list [.atom "reset"] => pure .reset
  | .list [.atom "step", acc, sts] =>
    let sts ← (← sts.list?).mapM st?
    pure (.step (fun s => { w := { s.w with st := sts }, t := s.t + 1 }) (← pairs? Val.nat? Val.int? acc))
  | .list [.atom "rew", a] => pure (.reward (← a.nat?))
  | .list [.atom "obs", a] => pure (.obs (← a.nat?))
  | .list [.atom "done", a] => pure (.done (← a.nat?))
  | .list [.atom "alldone"] => pure .allDone
  | _ => none

def encItems (o : List (Nat × Int)) : Val := .list (o.map fun p => .list [Val.ofNat p.1, .int p.2])

def encRes : SRes Nat Int → Val
  | .unit => .list [.atom "unit"]
  | .int r => .list [.atom "int", .int r]
  | .obs o => .list [.atom "obs", encItems o]
  | .bool b => .list [.atom "bool", Val.ofBool b]
  | .err e => .list [.atom "err", encGErr e]

def encPending : Option (List (Aid × Int)) → Val
  | none => .list []
  | some d => .list [.list (d.map fun p => .list [Val.ofNat p.1, .int p.2])]

def isResetOk (e : E) : Bool :=
  match e.op, e.res with
  | .reset, .unit => true
  | _, _ => false

def encEntry (e : E) : Val :=
  .list [encRes e.res, encPending e.pending,
         (if isResetOk e then .list (e.sim.w.st.map encSt) else .list []),
         Val.ofNats e.calls, .list (e.outs.map encItems)]

def res? (v : Val) : Option (SRes Nat Int) := do
  match v with
  | .list [.atom "unit"] => pure .unit
  | .list [.atom "int", r] => pure (.int (← r.int?))
  | .list [.atom "obs", o] => pure (.obs (← pairs? Val.nat? Val.int? o))
  | .list [.atom "bool", b] => pure (.bool (← b.bool?))
  | .list [.atom "err", .atom k] => pure (.err (errOf k))
  | _ => none

def pending? (v : Val) : Option (Option (List (Aid × Int))) :=
  match v with
  | .list [] => some none
  | .list [d] => (pairs? Val.nat? Val.int? d).map some
  | _ => none

/-- rebuild the implementation's trace; the ghost simulation state is threaded: a successful reset
shows the new agent states, a successful step's are in the operation, nothing else changes it -/
def implTrace? : StubSt → List (SOp StubSt) → List Val → Option (List E)
  | _, [], [] => some []
  | s, op :: ops, v :: vs => do
    match v with
    | .list [r, p, sim, calls, outs] =>
      let res ← res? r
      let s' ← (match op, res with
        | .reset, .unit => do
          let sts ← (← sim.list?).mapM st?
          pure { s with w := { s.w with st := sts } }
        | .step f _, .unit => pure (f s)
        | _, _ => pure s : Option StubSt)
      let e : E := { op := op, res := res, pending := ← pending? p, sim := s', calls := ← calls.nats?,
                     outs := ← (← outs.list?).mapM (pairs? Val.nat? Val.int?) }
      pure (e :: (← implTrace? s' ops vs))
    | _ => none
  | _, _, _ => none

def handleSmart (args : List Val) : Option Val := do
  match args with
  | [stat, dyn, .list [learning, dones, observers, states], ops, impl] =>
    let w ← world? stat dyn
    let learning ← learning.bools?
    let comps ← optList? comp? dones
    let obsL ← optList? observer? observers
    let stL ← optList? state? states
    let ops ← (← ops.list?).mapM op?
    let S : Smart StubSt Nat Int :=
      { n := w.n, learning := fun a => learning.getD a false,
        dones := comps.map (fun cs => cs.map (DoneComp.iface (fun s : StubSt => s.w))),
        observers := obsL, states := stL }
    let F : SmartFacts StubSt :=
      { n := w.n, learning := fun a => learning.getD a false, comps := comps,
        nObs := obsL.map List.length, nStates := stL.map List.length, worldOf := fun s => s.w }
    let s0 : SmartSt StubSt := { sim := { w := w } }
    let tr := (S.runOps s0 ops).1
    let dictOK := (comps.getD []).all DoneComp.isDict
    let implV ← impl.list?
    let is : Val :=
      if implV.isEmpty then .int (-1)
      else match implTrace? s0.sim ops implV with
        | some it => Val.ofBool (specSmart F it)
        | none => .int (-2)
    pure (.list [.list (tr.map encEntry), Val.ofBool (specSmart F tr && dictOK), is])
  | _ => none

/-! ### `gmerge`: the dict merge of `get_obs` on the outputs of real observers

request `(gmerge ((outs merged)…))` — one pair per `get_obs` call: `outs` = what each observer
returned, in call order, as item lists `((key (ints…))…)`; `merged` = what the simulation returned;
reply `((modelMerged…) specOnModel specOnImpl)`. -/

def vitems? (v : Val) : Option (List (Nat × List Int)) := pairs? Val.nat? Val.ints? v

def encVItems (o : List (Nat × List Int)) : Val :=
  .list (o.map fun p => .list [Val.ofNat p.1, Val.ofInts p.2])

def handleMerge (args : List Val) : Option Val := do
  match args with
  | [calls] =>
    let cs ← (← calls.list?).mapM fun c => do
      match c with
      | .list [outs, merged] => pure ((← (← outs.list?).mapM vitems?), (← vitems? merged))
      | _ => none
    let model := cs.map fun c => mergeObs c.1
    let ms := cs.all fun c => specMerge c.1 (mergeObs c.1)
    let is := cs.all fun c => specMerge c.1 c.2
    pure (.list [.list (model.map encVItems), Val.ofBool ms, Val.ofBool is])
  | _ => none

end DoneDriver
end Abmarl
