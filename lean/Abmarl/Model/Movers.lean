import Abmarl.Model.Grid
/-!
# Move actors (`MoveActor`, `CrossMoveActor`, `DriftMoveActor` of gridworld/actor.py)

`process_action` returns `True/False` for a supported agent and `None` otherwise; the model
returns `Option Bool` accordingly.  The drift actor's overwrite of the caller's action
dictionary (observation O4 of DESIGN.md) is returned as the third component so that the
correspondence check sees it.
-/
namespace Abmarl
namespace World

/-- the common body of `MoveActor.process_action` / `CrossMoveActor.process_action` -/
def moveBy (w : World) (a : Aid) (d : Pos) : Except GErr (Bool × World) :=
  let src := (w.stOf a).pos
  let dst : Pos := (src.1 + d.1, src.2 + d.2)
  if w.inGrid dst then
    if dst = src then .ok (true, w)
    else if w.query a dst then
      match w.remove a src with
      | .error e => .error e
      | .ok w1 => .ok (true, (w1.place a dst).2)      -- the result of `place` is ignored
    else .ok (false, w)
  else .ok (false, w)

/-- `MoveActor.process_action` -/
def moveAct (w : World) (a : Aid) (d : Pos) : Except GErr (Option Bool × World) :=
  if (w.cfgOf a).moving then
    match w.moveBy a d with
    | .ok (b, w') => .ok (some b, w')
    | .error e => .error e
  else .ok (none, w)

/-- `CrossMoveActor.grid_action` -/
def crossTable : Int → Option Pos
  | 0 => some (0, 0)
  | 1 => some (0, -1)
  | 2 => some (1, 0)
  | 3 => some (0, 1)
  | 4 => some (-1, 0)
  | _ => none

/-- `CrossMoveActor.process_action` -/
def crossAct (w : World) (a : Aid) (act : Int) : Except GErr (Option Bool × World) :=
  if (w.cfgOf a).moving then
    match crossTable act with
    | none => .error .assertion
    | some d =>
      match w.moveBy a d with
      | .ok (b, w') => .ok (some b, w')
      | .error e => .error e
  else .ok (none, w)

/-- `DriftMoveActor.process_action`; third component: the value left in `action_dict['move']` -/
def driftAct (w : World) (a : Aid) (act : Int) : Except GErr (Option Bool × World × Int) :=
  if (w.cfgOf a).moving && (w.cfgOf a).hasOrient then
    let drift := fun (w0 : World) =>
      let o : Int := (w0.stOf a).orient
      match w0.crossAct a o with
      | .ok (b, w') => Except.ok (b, w', o)
      | .error e => .error e
    if act ≠ 0 then
      match w.crossAct a act with
      | .error e => .error e
      | .ok (some true, w1) =>
        -- `agent.orientation = cross_action` (the setter asserts 1..4, guaranteed by the table)
        .ok (some true, w1.setSt a { w1.stOf a with orient := act.toNat }, act)
      | .ok (_, w1) => drift w1
    else drift w
  else .ok (none, w, act)

end World
end Abmarl
