import Abmarl.Model.Wire
import Abmarl.Model.Wrappers
import Abmarl.Model.SpacesDriver
import Abmarl.Model.MgrDriver
import Abmarl.Model.GridWire
import Abmarl.Spec.Wrappers
/-!
Driver glue for the wrapper operations of C06 (`wsar`, `wexcl`, `wactor`, `wunwrap`): wire ↔ model
types.  Trusted base.  Spaces, points, flat arrays and Boxes travel as in `SpacesDriver.lean`,
scripts as in `MgrDriver.lean`, worlds as in `GridWire.lean`.

`(wsar kind spaces inner calls implInit implEntries)`
* `kind` ∈ `ravel | flatten | flattenAction`
* `spaces`: per entity `()` (not a learning agent) or `(actionSpace observationSpace)` of the *inner* agent
* `inner`: `(stub script obsPts flatEp)` — the scripted stub with spaces, fully modelled — or `(rec)` —
  real code the model does not contain: the twin's returned values / state dumps are taken from
  `implEntries` and the wrapped side is predicted from them (`predictW`)
* `calls`: `(r)` `(s ((a wrappedAction)…))` `(o a)` `(w a)` `(d a)` `(ad)` `(i a)`
* `implInit`: `(none)`, `(e err)` or per entity `()` / the wrapped spaces the real constructor computed
  (ravel: `(nAction nObs)`; flatten: `((kind lo hi) (kind lo hi))`; flattenAction: `((kind lo hi))`)
* `implEntries`: `()` (nothing sent) or per call `(retW inW isIn stW retT argsT stT)` with
  ret = `(u)` `(o a x)` `(w r)` `(f b)` `(i (ints))` `(x err)`, ghost = `(n)` / `(y ((a point)…))`
* reply `((modelInit modelEntries) (specInitModel specModel) (specInitImpl specImpl))`

`(wexcl space (dec k) impl)` / `(wexcl space (enc point) impl)` / `(wexcl space (dims) impl)`,
`(wactor kind actor sup stat dynPre a fromSpace k impl)`, `(wunwrap (layer…) impl)`:
reply `(modelOutcome specOnModel specOnImpl)`.
-/
namespace Abmarl
namespace WrappersDriver
open SpacesDriver

def b2v (b : Bool) : Val := Val.ofBool b
def opt2v (o : Option Bool) : Val := match o with | some b => b2v b | none => .int (-1)

/-! ## parsing / printing of calls, returned values and ghosts -/

def agentSpaces? (v : Val) : Option AgentSpaces := do
  (← v.list?).mapM fun x =>
    match x with
    | .list [] => some none
    | .list [a, o] => do pure (some ((← space? a), (← space? o)))
    | _ => none

/-- everything kind-specific about a SAR wrapper -/
structure Codec (α' ω' : Type) where
  dec    : Aid → α' → Except Err Pt
  enc    : Aid → Pt → ω'
  memW   : Aid → ω' → Bool
  act?   : Aid → Val → Option α'
  obsW?  : Aid → Val → Option ω'
  encObs : Aid → ω' → Option Val          -- `none`: the encoding raised

def ravelCodec (sp : AgentSpaces) : Codec Nat (Option Int) where
  dec := ravelDec sp
  enc := ravelEnc sp
  memW := ravelMemW sp
  act? := fun _ v => v.nat?
  obsW? := fun _ v => match v with | .list [.atom "k", x] => (x.int?).map some | _ => none
  encObs := fun _ o => o.map fun k => .list [.atom "k", .int k]

def flattenCodec (sp : AgentSpaces) : Codec (List Num) (Option (List Num)) where
  dec := flatDec sp
  enc := flatEnc sp
  memW := flatMemW sp
  act? := fun _ v => flat? v
  obsW? := fun _ v => (flat? v).map some
  encObs := fun _ o => o.map encFlat

def flattenActionCodec (sp : AgentSpaces) : Codec (List Num) Pt where
  dec := flatDec sp
  enc := fun _ o => o
  memW := idMemW sp
  act? := fun _ v => flat? v
  obsW? := fun a v => match obsSpace? sp a with | some s => pt? s v | none => none
  encObs := fun a o => match obsSpace? sp a with | some s => some (encPt s o) | none => none

abbrev Info := List Int

def call? {α' : Type} (act? : Aid → Val → Option α') (v : Val) : Option (WCall α') :=
  match v with
  | .list [.atom "r"] => some .reset
  | .list [.atom "s", .list acts] => do
    let l ← acts.mapM fun p =>
      match p with
      | .list [a, x] => do
        let a ← a.nat?
        pure (a, (← act? a x))
      | _ => none
    pure (.step l)
  | .list [.atom "o", a] => do pure (.obs (← a.nat?))
  | .list [.atom "w", a] => do pure (.reward (← a.nat?))
  | .list [.atom "d", a] => do pure (.done (← a.nat?))
  | .list [.atom "ad"] => some .allDone
  | .list [.atom "i", a] => do pure (.info (← a.nat?))
  | _ => none

def errV (e : Err) : Val := .list [.atom "x", .atom (MgrDriver.errStr e)]

/-- a returned value; `obs?` parses an observation of the given agent -/
def ret? {ω : Type} (obs? : Aid → Val → Option ω) (v : Val) : Option (SRet ω Info) :=
  match v with
  | .list [.atom "u"] => some .unit
  | .list [.atom "o", a, x] => do
    let a ← a.nat?
    pure (.obs a (← obs? a x))
  | .list [.atom "w", r] => do pure (.reward (← r.int?))
  | .list [.atom "f", b] => do pure (.flag (← b.bool?))
  | .list [.atom "i", l] => do pure (.info (← l.ints?))
  | .list [.atom "x", .atom e] => some (.raised (MgrDriver.errOf e))
  | _ => none

/-- print a returned value; an observation whose encoding raised is the outcome "the call raised" -/
def encRetV {ω : Type} (encObs : Aid → ω → Option Val) : SRet ω Info → Val
  | .unit => .list [.atom "u"]
  | .obs a o =>
    (match encObs a o with
     | some x => .list [.atom "o", Val.ofNat a, x]
     | none => errV .crash)
  | .reward r => .list [.atom "w", .int r]
  | .flag b => .list [.atom "f", b2v b]
  | .info i => .list [.atom "i", Val.ofInts i]
  | .raised e => errV e

/-- stands for an implementation value that is not a point of the expected space at all (the harness sends the
atom `bad`); it is not a member of any well-formed space -/
def garbagePt : Pt := .dict [] [.tuple []]

def encPtG (s : Space) (p : Pt) : Val := if p == garbagePt then .atom "bad" else encPt s p

def ghost? (sp : AgentSpaces) (v : Val) : Option (Option (List (Aid × Pt))) :=
  match v with
  | .list [.atom "n"] => some none
  | .list [.atom "y", .list acts] => do
    let l ← acts.mapM fun p =>
      match p with
      | .list [a, x] => do
        let a ← a.nat?
        let s ← actSpace? sp a
        pure (a, (pt? s x).getD garbagePt)
      | _ => none
    pure (some l)
  | _ => none

def encGhost (sp : AgentSpaces) : Option (List (Aid × Pt)) → Val
  | none => .list [.atom "n"]
  | some l => .list [.atom "y", .list (l.map fun p =>
      .list [Val.ofNat p.1, match actSpace? sp p.1 with | some s => encPtG s p.2 | none => .atom "nospace"])]

def innerObs? (sp : AgentSpaces) (a : Aid) (v : Val) : Option Pt :=
  match obsSpace? sp a with
  | some s => pt? s v
  | none => none

def encInnerObs (sp : AgentSpaces) (a : Aid) (o : Pt) : Option Val :=
  match obsSpace? sp a with
  | some s => some (encPt s o)
  | none => some (.atom "nospace")

def entry? {α' ω' : Type} (sp : AgentSpaces) (C : Codec α' ω') (c : WCall α') (v : Val) :
    Option (WEntry α' Pt ω' Pt Info) :=
  match v with
  | .list [rw, iw, isIn, sw, rt, at_, st] => do
    pure { call := c, retW := ← ret? C.obsW? rw, inW := ← ghost? sp iw, isIn := ← isIn.bool?,
           stW := ← sw.ints?, retT := ← ret? (innerObs? sp) rt, argsT := ← ghost? sp at_,
           stT := ← st.ints? }
  | _ => none

def encEntry {α' ω' : Type} (sp : AgentSpaces) (C : Codec α' ω') (e : WEntry α' Pt ω' Pt Info) : Val :=
  .list [encRetV C.encObs e.retW, encGhost sp e.inW, b2v e.isIn, Val.ofInts e.stW,
         encRetV (encInnerObs sp) e.retT, encGhost sp e.argsT, Val.ofInts e.stT]

def zipEntries? {α' ω' : Type} (sp : AgentSpaces) (C : Codec α' ω') :
    List (WCall α') → List Val → Option (List (WEntry α' Pt ω' Pt Info))
  | [], [] => some []
  | c :: cs, v :: vs => do pure ((← entry? sp C c v) :: (← zipEntries? sp C cs vs))
  | _, _ => none

/-! ## the inner simulation -/

inductive Inner where
  | stub (sc : SpaceScript) (flat : Bool)
  | recorded

def obsPts? (sp : AgentSpaces) (v : Val) : Option (List (List Pt)) := do
  let l ← v.list?
  let rec go : Nat → List Val → Option (List (List Pt))
    | _, [] => some []
    | a, x :: xs => do
      let pts ← x.list?
      let here ← match obsSpace? sp a with
        | some s => pts.mapM (pt? s)
        | none => if pts.isEmpty then some [] else none
      pure (here :: (← go (a + 1) xs))
  go 0 l

def inner? (sp : AgentSpaces) (v : Val) : Option Inner :=
  match v with
  | .list [.atom "rec"] => some .recorded
  | .list [.atom "stub", sc, pts, flat] => do
    pure (.stub { base := ← MgrDriver.script? sc, spaces := sp, obsPts := ← obsPts? sp pts } (← flat.bool?))
  | _ => none

/-! ## `wsar` -/

def encBox (b : FlatBox) : Val := .list [encKind b.kind, .list (b.lo.map encRat), .list (b.hi.map encRat)]

def box? (v : Val) : Option FlatBox :=
  match v with
  | .list [k, lo, hi] => do pure ⟨← kind? k, ← rats? lo, ← rats? hi⟩
  | _ => none

/-- model outcome and judgements for the constructor: per learning agent the wrapped spaces -/
def initPart (kind : String) (sp : AgentSpaces) (impl : Val) : Val × Bool × Option Bool :=
  let learners := sp.filterMap id
  match kind with
  | "ravel" =>
    let model := sp.map fun x => x.map ravelInit1
    let mv : Val := .list (model.map fun x =>
      match x with
      | none => .list []
      | some (some (na, no)) => .list [Val.ofNat na, Val.ofNat no]
      | some none => .list [.atom "e"])
    let sm := learners.all fun x => specRavelInit x (ravelInit1 x)
    let si : Option Bool :=
      match impl with
      | .list [.atom "none"] => none
      | .list vs =>
        if vs.length = sp.length then
          some ((sp.zip vs).all fun (x, v) =>
            match x, v with
            | none, .list [] => true
            | some x, .list [na, no] =>
              (match na.nat?, no.nat? with
               | some na, some no => specRavelInit x (some (na, no))
               | _, _ => false)
            | _, _ => false)
        else some false
      | _ => some false
    (mv, sm, si)
  | "flatten" =>
    let model := sp.map fun x => x.map flatInit1
    let mv : Val := .list (model.map fun x =>
      match x with
      | none => .list []
      | some (some (a, o)) => .list [encBox a, encBox o]
      | some none => .list [.atom "e"])
    let sm := learners.all fun x => specFlatInit x (flatInit1 x)
    let si : Option Bool :=
      match impl with
      | .list [.atom "none"] => none
      | .list vs =>
        if vs.length = sp.length then
          some ((sp.zip vs).all fun (x, v) =>
            match x, v with
            | none, .list [] => true
            | some x, .list [a, o] =>
              (match box? a, box? o with
               | some a, some o => specFlatInit x (some (a, o))
               | _, _ => false)
            | _, _ => false)
        else some false
      | _ => some false
    (mv, sm, si)
  | _ =>
    -- flattenAction: only the action space is replaced
    let model := sp.map fun x => x.map fun y => flattenSpace y.1
    let mv : Val := .list (model.map fun x =>
      match x with
      | none => .list []
      | some (some a) => .list [encBox a]
      | some none => .list [.atom "e"])
    let sm := learners.all fun x => specFlatSpace x.1 ((flattenSpace x.1).map fun b => (b, flatdim x.1))
    let si : Option Bool :=
      match impl with
      | .list [.atom "none"] => none
      | .list vs =>
        if vs.length = sp.length then
          some ((sp.zip vs).all fun (x, v) =>
            match x, v with
            | none, .list [] => true
            | some x, .list [a] =>
              (match box? a with
               | some a => specFlatSpace x.1 (some (a, flatdim x.1))
               | none => false)
            | _, _ => false)
        else some false
      | _ => some false
    (mv, sm, si)

def sarPart {α' ω' : Type} [BEq ω'] (sp : AgentSpaces) (C : Codec α' ω') (inner : Inner)
    (callsV : List Val) (implV : List Val) : Option (Val × Bool × Option Bool) := do
  let calls ← callsV.mapM (call? C.act?)
  let spec := fun (tr : List (WEntry α' Pt ω' Pt Info)) => specCommute C.dec C.enc C.memW tr
  let impl : Option (List (WEntry α' Pt ω' Pt Info)) ←
    if implV.isEmpty && !calls.isEmpty then pure none
    else (zipEntries? sp C calls implV).map some
  let model : List (WEntry α' Pt ω' Pt Info) ←
    match inner with
    | .stub sc flat =>
      pure (twinRun (spaceStub sc flat) C.dec C.enc C.memW stubDump (({} : StubSt), ({} : StubSt)) calls)
    | .recorded =>
      match impl with
      | some it => pure (it.map fun e => predictW C.dec C.enc C.memW e.call e.retT e.stT)
      | none => none
  pure (.list (model.map (encEntry sp C)), spec model, impl.map spec)

def handleSar (args : List Val) : Option Val := do
  match args with
  | [.atom kind, spaces, inner, .list calls, implInit, .list implEntries] =>
    let sp ← agentSpaces? spaces
    let inn ← inner? sp inner
    let (iv, ism, isi) := initPart kind sp implInit
    let (tv, sm, si) ←
      match kind with
      | "ravel" => sarPart sp (ravelCodec sp) inn calls implEntries
      | "flatten" => sarPart sp (flattenCodec sp) inn calls implEntries
      | "flattenAction" => sarPart sp (flattenActionCodec sp) inn calls implEntries
      | _ => none
    pure (.list [.list [iv, tv], .list [b2v ism, b2v sm], .list [opt2v isi, opt2v si]])
  | _ => none

/-! ## `wexcl` -/

def okV (l : List Val) : Val := .list (.atom "ok" :: l)
def errOut : Val := .list [.atom "e", .atom "err"]

def handleExcl (args : List Val) : Option Val := do
  match args with
  | [s, .list [.atom "dec", k], impl] =>
    let s ← space? s
    let k ← k.nat?
    let model : Option (Pt × Bool × Int) :=
      (exclDecode s k).map fun p => (p, mem s p, (exclEncode s p).getD (-1))
    let enc : Option (Pt × Bool × Int) → Val := fun o =>
      match o with
      | some (p, b, re) => okV [encPt s p, b2v b, .int re]
      | none => errOut
    pure (SpacesDriver.reply enc (specExclusive s k)
      (wfExcl s && decide (card s < 2 ^ 63) && decide (k < exclDims s)) model
      (impl? impl fun r => match r with
        | [p, b, re] => do pure ((← pt? s p), (← b.bool?), (← re.int?))
        | _ => none))
  | [s, .list [.atom "enc", p], impl] =>
    let s ← space? s
    let p ← pt? s p
    let model : Option (Int × Pt) :=
      match exclEncode s p with
      | some c =>
        (match exclDecode s c.toNat with
         | some q => some (c, q)
         | none => none)
      | none => none
    let enc : Option (Int × Pt) → Val := fun o =>
      match o with
      | some (c, q) => okV [.int c, encPt s q]
      | none => errOut
    pure (SpacesDriver.reply enc (specExclEnc s p) (wfExcl s && decide (card s < 2 ^ 63)) model
      (impl? impl fun r => match r with
        | [c, q] => do pure ((← c.int?), (← pt? s q))
        | _ => none))
  | [s, .list [.atom "dims"], impl] =>
    let s ← space? s
    let model : Option Nat := (exclWrapSpace s).map fun _ => exclDims s
    let enc : Option Nat → Val := fun o =>
      match o with
      | some n => okV [Val.ofNat n]
      | none => errOut
    pure (SpacesDriver.reply enc (specExclDims s) (wfExcl s && decide (card s < 2 ^ 63)) model
      (impl? impl fun r => match r with
        | [n] => n.nat?
        | _ => none))
  | _ => none

/-! ## `wactor` -/

def encRecv (sp : Space) : Option Pt → Val
  | some p => .list [.atom "p", encPt sp p]
  | none => .list [.atom "n"]

def recv? (sp : Space) (v : Val) : Option (Option Pt) :=
  match v with
  | .list [.atom "n"] => some none
  | .list [.atom "p", x] => (pt? sp x).map some
  | _ => none

def retB : Option Bool → Int
  | none => -1 | some false => 0 | some true => 1

/-- `(wactor kind actor sup stat dynPre a fromSpace k impl)` — `actor` ∈ move | cross | drift (modelled:
the model also computes return value and post-world) | opaque (only the decoding is modelled) -/
def handleActor (args : List Val) : Option Val := do
  match args with
  | [.atom kind, .atom actor, sup, stat, dyn, a, fs, k, impl] =>
    let sup ← sup.bool?
    let w ← GridWire.world? stat dyn
    let a ← a.nat?
    let sp ← space? fs
    let k ← k.nat?
    let dec : Space → Nat → Option Pt := if kind == "excl" then exclDecode else unravel
    let mover : Option Nat :=
      match actor with
      | "move" => some 0 | "cross" => some 1 | "drift" => some 2 | _ => none
    -- the implementation's outcome
    let io : Option (Option ActorOut) :=
      match impl with
      | .list [.atom "none"] => none
      | .list [.atom "ok", rc, rw, pw, rt, pt_] =>
        some (do
          pure { received := ← recv? sp rc, retW := ← rw.ints?, postW := ← GridWire.world? stat pw,
                 retT := ← rt.ints?, postT := ← GridWire.world? stat pt_ })
      | _ => some none
    let applicable := sup && (if kind == "excl" then wfExcl sp && decide (k < exclDims sp)
                                else WF04 sp && decide (k < card sp))
    match mover with
    | some m =>
      let supM := moverSupported m w a
      let r := actorWrap (moverSupported m) (fun _ => some sp) dec (moverPt m) w a k
      let (mv, mo) : Val × Option ActorOut :=
        match r with
        | .ok none => (okV [encRecv sp none, Val.ofInts [-1], GridWire.encDyn w], none)
        | .ok (some (.ok (ret, post, _))) =>
          (okV [encRecv sp (dec sp k), Val.ofInts [retB ret], GridWire.encDyn post],
           some ⟨dec sp k, [retB ret], post, [retB ret], post⟩)
        | .ok (some (.error e)) => (.list [.atom "err", GridWire.encGErr e], none)
        | .error e => (.list [.atom "err", GridWire.encGErr e], none)
      let sm : Val := if applicable && supM then b2v (specActor dec sp k mo) else .int (-1)
      let si : Val :=
        match io with
        | none => .int (-1)
        | some o => if sup then b2v (specActor dec sp k o)
                    else b2v (match o with
                      | some o => o.received.isNone && o.retW == o.retT && decide (o.postW = o.postT) &&
                                    decide (o.postW = w)
                      | none => false)
      pure (.list [mv, sm, si])
    | none =>
      let mv : Val := if sup then (match dec sp k with
                                    | some p => okV [encRecv sp (some p)]
                                    | none => .list [.atom "err", .atom "other"])
                      else okV [encRecv sp none]
      let sm : Val := if applicable then b2v ((dec sp k).isSome) else .int (-1)
      let si : Val :=
        match io with
        | none => .int (-1)
        | some o => if sup then b2v (specActor dec sp k o)
                    else b2v (match o with
                      | some o => o.received.isNone && decide (o.postW = o.postT) && decide (o.postW = w)
                      | none => false)
      pure (.list [mv, sm, si])
  | _ => none

/-! ## `wunwrap` -/

def layer? (v : Val) : Option Layer :=
  match v with
  | .atom "ravel" => some .ravel
  | .atom "flatten" => some .flatten
  | .atom "flattenAction" => some .flattenAction
  | .atom "super" => some .superAgent
  | .atom "comm" => some .comm
  | .atom "ravelAction" => some .ravelAction
  | .atom "exclusive" => some .exclusive
  | .atom _ => some .other
  | _ => none

def handleUnwrap (args : List Val) : Option Val := do
  match args with
  | [.list layers, impl] =>
    let stack ← layers.mapM layer?
    let model := unwrappedIdx (wrapAll stack (.base 0))
    let si : Val :=
      match impl with
      | .list [.atom "none"] => .int (-1)
      | v => match v.ints? with
        | some l => b2v (specUnwrapped stack.length l)
        | none => .int 0
    pure (.list [Val.ofInts model, b2v (specUnwrapped stack.length model), si])
  | _ => none

end WrappersDriver
end Abmarl
