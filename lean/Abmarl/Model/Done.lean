import Abmarl.Model.Grid
/-!
# M3 `Done` — the built-in done components

Transcribed branch for branch from `abmarl/sim/gridworld/done.py`.

* agents are indices (listing order of the `agents` dict); a target mapping of agents is the
  list of `(agent index, target index)` items of the Python dict in its insertion order, a
  target mapping of encodings the list of `(encoding, target encodings)` items (after the
  setter's upgrade of a bare `int` target to a one-element set; the harness sends every target
  set sorted);
* `self.target_mapping[agent.id]` of an agent without an entry is the `KeyError` the Python
  raises (`GErr.keyError`), never a default;
* `np.array_equal(agent.position, target.position)` compares the *stored* positions — also
  when the agent or its target is inactive and the stored position is stale.  The model does
  exactly that; whether it is what "overlaps its target" should mean is for `Spec/Done.lean` and
  `Props/C17.lean` to say;
* `all([... for agent_id in self.target_mapping])` builds the whole list before `all` looks at
  it (`collect`), so an error of any element would surface; `any(gen)` of the smart simulation
  is lazy (`Model/Smart.lean`);
* Python `set`s of encodings are only ever tested for emptiness of an intersection or for
  `len(..) <= 1`; `toSet` keeps first occurrences in listing order, which has the same length
  and the same members as the Python set.
-/
namespace Abmarl

/-- `target_mapping` of `TargetAgentOverlapDone` / `TargetAgentInactiveDone` (dict items) -/
abbrev AgentMap := List (Aid × Aid)
/-- `target_mapping` of `TargetEncodingInactiveDone` (dict items, values upgraded to sets) -/
abbrev EncMap := List (Int × List Int)

/-- a done component together with its configuration -/
inductive DoneComp where
  | active                                                  -- `ActiveDone`
  | targetOverlap (m : AgentMap)                            -- `TargetAgentOverlapDone`
  | targetInactive (m : AgentMap)                           -- `TargetAgentInactiveDone`
  | targetEncoding (m : EncMap) (oneDone : Bool)            -- `TargetEncodingInactiveDone`
  | oneTeam                                                 -- `OneTeamRemainingDone`
deriving Repr, DecidableEq, Inhabited

namespace World

def isActive (w : World) (a : Aid) : Bool := (w.stOf a).active
def posOf (w : World) (a : Aid) : Pos := (w.stOf a).pos

/-- `[agent.encoding for agent in self.agents.values() if agent.active]` (listing order) -/
def activeEncs (w : World) : List Int := ((List.range w.n).filter w.isActive).map w.encOf

end World

namespace Done

/-- `s.add(x)` on a set kept as the list of first occurrences -/
def setAdd (s : List Int) (x : Int) : List Int := if x ∈ s then s else s ++ [x]

/-- `set(l)` -/
def toSet (l : List Int) : List Int := l.foldl setAdd []

/-- truth value of `set.intersection(a, b)` -/
def meets (a b : List Int) : Bool := a.any (fun e => decide (e ∈ b))

/-- `[f(x) for x in l]` with exceptions: the first one raised wins, nothing is skipped -/
def collect {α β : Type} (f : α → Except GErr β) : List α → Except GErr (List β)
  | [] => .ok []
  | x :: xs =>
    match f x with
    | .error e => .error e
    | .ok b =>
      match collect f xs with
      | .error e => .error e
      | .ok bs => .ok (b :: bs)

/-- `ActiveDone.get_all_done`: `for agent in agents.values(): if agent.active: return False` -/
def activeLoop (w : World) : List Aid → Bool
  | [] => true
  | a :: as => if w.isActive a then false else activeLoop w as

/-- `TargetAgentOverlapDone.get_done` -/
def overlapDone (m : AgentMap) (w : World) (a : Aid) : Except GErr Bool :=
  match m.lookup a with
  | none => .error .keyError                               -- `self.target_mapping[agent.id]`
  | some t => .ok (decide (w.posOf a = w.posOf t))         -- `np.array_equal(position, position)`

/-- `TargetAgentInactiveDone.get_done` -/
def inactiveDone (m : AgentMap) (w : World) (a : Aid) : Except GErr Bool :=
  match m.lookup a with
  | none => .error .keyError
  | some t => .ok (!w.isActive t)

/-- `all([self.get_done(self.agents[agent_id]) for agent_id in self.target_mapping])` -/
def allMapped (f : Aid → Except GErr Bool) (m : AgentMap) : Except GErr Bool :=
  match collect (fun p => f p.1) m with
  | .error e => .error e
  | .ok l => .ok (l.all id)

/-- `False if set.intersection(active_encodings, target_encodings) else True` -/
def teamDone (w : World) (targets : List Int) : Bool :=
  if meets w.activeEncs targets then false else true

/-- `get_done(agent)` of each component -/
def getDone : DoneComp → World → Aid → Except GErr Bool
  | .active, w, a => .ok (!w.isActive a)
  | .targetOverlap m, w, a => overlapDone m w a
  | .targetInactive m, w, a => inactiveDone m w a
  | .targetEncoding m _, w, a =>
    match m.lookup (w.encOf a) with
    | none => .ok false                                    -- `agent.encoding not in target_mapping`
    | some ts => .ok (teamDone w ts)
  | .oneTeam, w, a => .ok (!w.isActive a)                  -- inherited from `ActiveDone`

/-- `get_all_done()` of each component -/
def getAllDone : DoneComp → World → Except GErr Bool
  | .active, w => .ok (activeLoop w (List.range w.n))
  | .targetOverlap m, w => allMapped (overlapDone m w) m
  | .targetInactive m, w => allMapped (inactiveDone m w) m
  | .targetEncoding m oneDone, w =>
    let doneEncodings := m.map (fun p => teamDone w p.2)   -- values of the `done_encodings` dict
    if oneDone then .ok (doneEncodings.any id) else .ok (doneEncodings.all id)
  | .oneTeam, w => .ok (decide ((toSet w.activeEncs).length ≤ 1))

end Done
end Abmarl
