import Abmarl.Model.Grid
import Abmarl.Model.Mask
import Abmarl.Model.Oracle
/-!
# The four attack actors of `abmarl/sim/gridworld/actor.py`

`AttackActorBaseComponent.process_action` with its helpers `_basic_criteria` and
`_subset_attackables`, and `_determine_attack` of `BinaryAttackActor`,
`EncodingBasedAttackActor`, `SelectiveAttackActor`, `RestrictedSelectiveAttackActor`,
transcribed branch for branch **including the order in which random draws are consumed**:

* the window is scanned row by row, every visible in-grid cell in the insertion order of its
  dictionary; `_basic_criteria` draws `np.random.uniform()` only for a candidate that passed the
  first three tests (not the attacker itself, active, encoding allowed by the mapping);
* `_subset_attackables` draws nothing when the list is returned whole, `k` naturals otherwise;
* the ammunition filter draws `ammo` naturals only when there are more victims than ammunition;
* the health loop is sequential: a victim that died earlier in the same loop is skipped, a
  victim that dies is removed from the cell of its position.

Representation of the inputs:
* the attack mapping is `List (Int × List Int)` (encoding ↦ attackable encodings); only
  membership is ever asked (`in`), so the order inside a row is irrelevant;
* actions: Binary — the number of attacks; EncodingBased — the action dictionary as the list of
  its items **in iteration order** (the harness pins that order and sends it); Selective — the
  `(2R+1)×(2R+1)` array flattened row-major; RestrictedSelective — the list of cell numbers
  (0 = unused attack);
* `create_grid_and_mask`: the mask is `Mask.maskOf` (C10) over every entry of the `agents`
  dictionary, the local grid is `localCell` (`none` = outside the grid).

Errors the Python raises are explicit: `KeyError` when the mapping has no row for the
attacker's encoding (`self.attack_mapping[attacking_agent.encoding]`) or the action dictionary
has no key for an attackable encoding, `IndexError` for a cell number beyond the window.
-/
namespace Abmarl

inductive AttackKind where
  | binary | encoding | selective | restricted
deriving Repr, DecidableEq, Inhabited

/-- the constructor arguments of an attack actor -/
structure AttackCfg where
  kind    : AttackKind
  mapping : List (Int × List Int)
  stacked : Bool
deriving Repr, Inhabited

/-- the value of `action_dict['attack']` -/
inductive AttackAct where
  | count  (k : Nat)                    -- Binary: `Discrete(simultaneous_attacks + 1)`
  | perEnc (l : List (Int × Nat))       -- EncodingBased: items of the `Dict`, in iteration order
  | grid   (l : List Nat)               -- Selective: `Box(0, sim, (W, W), int)` flattened row-major
  | cells  (l : List Nat)               -- RestrictedSelective: `MultiDiscrete([W*W+1] * sim)`
deriving Repr, DecidableEq, Inhabited

namespace World

/-! ## `create_grid_and_mask` as the attack actors use it -/

/-- every entry of the `agents` dictionary, in dictionary order, as the mask loop reads it:
`(r_diff, c_diff, blocking, active)` relative to the attacker -/
def attackBlockers (w : World) (a : Aid) : List Mask.Blocker :=
  (List.range w.n).map fun b =>
    ((w.stOf b).pos.1 - (w.stOf a).pos.1, (w.stOf b).pos.2 - (w.stOf a).pos.2,
     (w.cfgOf b).blocking, (w.stOf b).active)

/-- `local_grid[i, j]`: the grid cell `position - R + (i, j)`, `None` outside the grid -/
def localCell (w : World) (a : Aid) (R i j : Nat) : Option (List Aid) :=
  let p : Pos := ((w.stOf a).pos.1 - (R : Int) + (i : Int), (w.stOf a).pos.2 - (R : Int) + (j : Int))
  if w.inGrid p then some (w.cell p) else none

/-- `mask[i, j]` as a truth value (the indices the actors use are always inside the table; the
`none` branch is unreachable for `i, j < 2R+1`) -/
def maskAt (m : List (List Bool)) (i j : Nat) : Bool :=
  match (m[i]?).bind (·[j]?) with
  | some b => b
  | none => false

/-- what `if mask[r, c]: candidate_agents = local_grid[r, c]; if candidate_agents is not None:
for other in candidate_agents.values()` iterates over, in order -/
def cellCands (w : World) (a : Aid) (R : Nat) (m : List (List Bool)) (i j : Nat) : List Aid :=
  if maskAt m i j then
    match w.localCell a R i j with
    | some c => c
    | none => []
  else []

/-- the cells of the window in scanning order: `for r in range(W): for c in range(W)` -/
def windowCells (R : Nat) : List (Nat × Nat) :=
  (List.range (2*R+1)).flatMap fun i => (List.range (2*R+1)).map fun j => (i, j)

/-! ## `_basic_criteria` and `_subset_attackables` -/

/-- `_basic_criteria(attacking_agent, candidate)`; the accuracy draw is consumed only when the
first three tests pass -/
def basicCriteria (cfg : AttackCfg) (w : World) (a b : Aid) (t : Tape) : Except GErr (Bool × Tape) :=
  if b = a then .ok (false, t)                              -- cannot attack yourself
  else if !(w.stOf b).active then .ok (false, t)            -- cannot attack inactive agents
  else
    match cfg.mapping.lookup (w.encOf a) with
    | none => .error .keyError                              -- `self.attack_mapping[attacker.encoding]`
    | some s =>
      if !decide (w.encOf b ∈ s) then .ok (false, t)        -- cannot attack this type of agent
      else
        let (u, t') := Oracle.uniform t
        if u > (w.cfgOf a).accuracy then .ok (false, t')    -- failed attack
        else .ok (true, t')

/-- `for other in …: if self._basic_criteria(agent, other): attackable_agents.append(other)` -/
def scanCands (cfg : AttackCfg) (w : World) (a : Aid) : List Aid → Tape → Except GErr (List Aid × Tape)
  | [], t => .ok ([], t)
  | b :: bs, t =>
    match basicCriteria cfg w a b t with
    | .error e => .error e
    | .ok (ok, t1) =>
      match scanCands cfg w a bs t1 with
      | .error e => .error e
      | .ok (rest, t2) => .ok (if ok then b :: rest else rest, t2)

/-- `_subset_attackables(attackable_agents, number_of_attacks)` -/
def subsetAttackables (stacked : Bool) (l : List Aid) (k : Nat) (t : Tape) : List Aid × Tape :=
  if !stacked && decide (k > l.length) then (l, t)
  else if stacked then Oracle.choiceRepl l k t
  else Oracle.choiceNoRepl l k t

/-! ## `_determine_attack` of the four actors -/

/-- everything the scan of Binary / EncodingBased meets: the whole window, row by row -/
def windowCands (w : World) (a : Aid) (R : Nat) (m : List (List Bool)) : List Aid :=
  (windowCells R).flatMap fun ij => w.cellCands a R m ij.1 ij.2

/-- `BinaryAttackActor._determine_attack(agent, attack)` -/
def determineBinary (cfg : AttackCfg) (w : World) (a : Aid) (k : Nat) (t : Tape) :
    Except GErr ((Bool × List Aid) × Tape) :=
  if k = 0 then .ok ((false, []), t)                        -- `if not attack`
  else
    let R := (w.cfgOf a).attackRange
    let m := Mask.maskOf R (w.attackBlockers a)
    match scanCands cfg w a (w.windowCands a R m) t with
    | .error e => .error e
    | .ok (S, t1) =>
      if S.isEmpty then .ok ((true, []), t1)
      else
        let r := subsetAttackables cfg.stacked S k t1
        .ok ((true, r.1), r.2)

/-- `for encoding, num_attacks in attack.items(): …` -/
def encLoop (w : World) (stacked : Bool) (S : List Aid) : List (Int × Nat) → Tape → List Aid × Tape
  | [], t => ([], t)
  | (e, k) :: rest, t =>
    let G := S.filter fun b => w.encOf b == e              -- `attackable_agents[encoding]`
    if G.isEmpty then encLoop w stacked S rest t
    else
      let r := subsetAttackables stacked G k t
      let q := encLoop w stacked S rest r.2
      (r.1 ++ q.1, q.2)

/-- `EncodingBasedAttackActor._determine_attack(agent, attack)`; `act` = `attack.items()` -/
def determineEncoding (cfg : AttackCfg) (w : World) (a : Aid) (act : List (Int × Nat)) (t : Tape) :
    Except GErr ((Bool × List Aid) × Tape) :=
  if act.all (fun p => p.2 == 0) then .ok ((false, []), t)  -- `if not any(attack.values())`
  else
    let R := (w.cfgOf a).attackRange
    let m := Mask.maskOf R (w.attackBlockers a)
    match scanCands cfg w a (w.windowCands a R m) t with
    | .error e => .error e
    | .ok (S, t1) =>
      -- `attackable_agents[other.encoding].append(other)` raises KeyError for a missing key
      if S.all (fun b => act.any (fun p => p.1 == w.encOf b)) then
        let r := encLoop w cfg.stacked S act t1
        .ok ((true, r.1), r.2)
      else .error .keyError

/-- the double loop of `SelectiveAttackActor._determine_attack` over the window cells -/
def selLoop (cfg : AttackCfg) (w : World) (a : Aid) (R : Nat) (m : List (List Bool)) (act : List Nat) :
    List (Nat × Nat) → Tape → Except GErr (List Aid × Tape)
  | [], t => .ok ([], t)
  | (i, j) :: rest, t =>
    let k := act.getD (i * (2*R+1) + j) 0                   -- `attack[r, c]` (shape checked by the caller)
    if k = 0 then selLoop cfg w a R m act rest t            -- `if not attack[r, c]: continue`
    else
      match scanCands cfg w a (w.cellCands a R m i j) t with
      | .error e => .error e
      | .ok (S, t1) =>
        if S.isEmpty then selLoop cfg w a R m act rest t1
        else
          let r := subsetAttackables cfg.stacked S k t1
          match selLoop cfg w a R m act rest r.2 with
          | .error e => .error e
          | .ok (Q, t3) => .ok (r.1 ++ Q, t3)

/-- `SelectiveAttackActor._determine_attack(agent, attack)`; `act` = the array, row-major -/
def determineSelective (cfg : AttackCfg) (w : World) (a : Aid) (act : List Nat) (t : Tape) :
    Except GErr ((Bool × List Aid) × Tape) :=
  let R := (w.cfgOf a).attackRange
  if act.length ≠ (2*R+1) * (2*R+1) then .error .badIndex   -- not an array of the declared shape
  else if act.all (· == 0) then .ok ((false, []), t)         -- `if not np.any(attack)`
  else
    let m := Mask.maskOf R (w.attackBlockers a)
    match selLoop cfg w a R m act (windowCells R) t with
    | .error e => .error e
    | .ok (L, t1) => .ok ((true, L), t1)

/-- `for raveled_cell in attack:` of the restricted selective actor; `acc` = `attacked_agents` -/
def resLoop (cfg : AttackCfg) (w : World) (a : Aid) (R : Nat) (m : List (List Bool)) :
    List Nat → List Aid → Tape → Except GErr (List Aid × Tape)
  | [], acc, t => .ok (acc, t)
  | k :: rest, acc, t =>
    if k = 0 then resLoop cfg w a R m rest acc t            -- this attack is not used
    else
      let q := k - 1
      let i := q / (2*R+1)                                   -- `r = int(raveled_cell / W)`
      let j := q % (2*R+1)                                   -- `c = raveled_cell % W`
      if i ≥ 2*R+1 then .error .badIndex                    -- `mask[r, c]` beyond the table
      else
        match scanCands cfg w a (w.cellCands a R m i j) t with
        | .error e => .error e
        | .ok (S, t1) =>
          -- `elif other in attacked_agents and not self.stacked_attacks: continue`
          let S' := if cfg.stacked then S else S.filter fun b => !acc.contains b
          if S'.isEmpty then resLoop cfg w a R m rest acc t1
          else
            match Oracle.choice S' t1 with
            | (some v, t2) => resLoop cfg w a R m rest (acc ++ [v]) t2
            | (none, _) => .error .other

/-- `RestrictedSelectiveAttackActor._determine_attack(agent, attack)` -/
def determineRestricted (cfg : AttackCfg) (w : World) (a : Aid) (act : List Nat) (t : Tape) :
    Except GErr ((Bool × List Aid) × Tape) :=
  if act.all (· == 0) then .ok ((false, []), t)              -- `if not any(attack)`
  else
    let R := (w.cfgOf a).attackRange
    let m := Mask.maskOf R (w.attackBlockers a)
    match resLoop cfg w a R m act [] t with
    | .error e => .error e
    | .ok (L, t1) => .ok ((true, L), t1)

/-- dispatch on the actor class; an action of another actor's shape is a type error -/
def determineAttack (cfg : AttackCfg) (w : World) (a : Aid) (act : AttackAct) (t : Tape) :
    Except GErr ((Bool × List Aid) × Tape) :=
  match cfg.kind, act with
  | .binary, .count k => determineBinary cfg w a k t
  | .encoding, .perEnc l => determineEncoding cfg w a l t
  | .selective, .grid l => determineSelective cfg w a l t
  | .restricted, .cells l => determineRestricted cfg w a l t
  | _, _ => .error .other

/-! ## `process_action` -/

/-- "Filter the attacked agents by the amount of ammo the attacking agent has", then
`attacking_agent.ammo -= len(attacked_agents)` -/
def ammoFilter (w : World) (a : Aid) (L : List Aid) (t : Tape) : Except GErr (List Aid × World × Tape) :=
  if (w.cfgOf a).hasAmmo then
    let ammo := (w.stOf a).ammo
    if (L.length : Int) > ammo then
      if ammo < 0 then .error .other                         -- numpy: negative dimensions are not allowed
      else
        let r := Oracle.choiceNoRepl L ammo.toNat t
        .ok (r.1, w.setAmmo a (ammo - (r.1.length : Int)), r.2)
    else .ok (L, w.setAmmo a (ammo - (L.length : Int)), t)
  else .ok (L, w, t)

/-- one pass of `for attacked_agent in attacked_agents:` with attack strength `s` -/
def hitStep (w : World) (s : Rat) (v : Aid) : Except GErr World :=
  if !(w.stOf v).active then .ok w                           -- skip this agent since it is dead
  else
    let w1 := w.setHealth v ((w.stOf v).health - s)
    if !(w1.stOf v).active then w1.remove v (w1.stOf v).pos  -- `self.grid.remove(agent, agent.position)`
    else .ok w1

def applyHits (w : World) (s : Rat) : List Aid → Except GErr World
  | [] => .ok w
  | v :: vs =>
    match w.hitStep s v with
    | .error e => .error e
    | .ok w1 => applyHits w1 s vs

/-- `AttackActorBaseComponent.process_action(attacking_agent, {'attack': act})`: returns
`(attack_status, attacked_agents)`, the new world and the rest of the tape -/
def processAttack (cfg : AttackCfg) (w : World) (a : Aid) (act : AttackAct) (t : Tape) :
    Except GErr ((Bool × List Aid) × World × Tape) :=
  if (w.cfgOf a).attacking then                               -- `_supported_agent`
    match determineAttack cfg w a act t with
    | .error e => .error e
    | .ok ((status, L), t1) =>
      match w.ammoFilter a L t1 with
      | .error e => .error e
      | .ok (H, w1, t2) =>
        match applyHits w1 (w.cfgOf a).strength H with
        | .error e => .error e
        | .ok w2 => .ok ((status, H), w2, t2)
  else .ok ((false, []), w, t)

end World
end Abmarl
