import Abmarl.Model.AdaptersDriver
/-!
Driver glue for the used-versus-fresh twins of C08.
`(twin kind shuffle script prefixTape prefixOps seedTape followOps implUsed implFresh)`
`(ostwin kind script prefixCalls followCalls implUsed implFresh)`
`(gymabs doneAt calls implSnapshots)`    calls: `(r)` | `(s a)`; snapshot after each call: `(obs? reward? done? info?)`
reply `(modelUsedTrace twinEqualOnModel twinEqualOnImpl)` / `(modelSnapshots 1 implOK)`.
The simulation underneath is the stub with a constant episode number (`stubSimFlat`).
-/
namespace Abmarl
namespace TwinDriver
open MgrDriver TrainerDriver AdaptersDriver

/-- the manager state after a history (same as `finalState` of Props/C08.lean) -/
def finalSt (S : SimIface StubSt Int (List Int) (List Int)) (k : MKind) :
    MState StubSt → List (Op Int) → MState StubSt
  | m, [] => m
  | m, op :: ops => finalSt S k (runOp S k m op).2 ops

def handleTwin (args : List Val) : Option Val := do
  match args with
  | [k, sh, sc, ptape, pops, seed, fops, iu, ifr] =>
    let k ← kind? k
    let sh ← sh.bool?
    let sc ← script? sc
    let ptape ← ptape.nats?
    let pops ← (← pops.list?).mapM op?
    let seed ← seed.nats?
    let fops ← (← fops.list?).mapM op?
    let S := stubSimFlat sc
    let m0 := mgrInit ({} : StubSt) sh ptape
    let used := runOps S k { finalSt S k m0 pops with tape := seed } fops
    let fresh := runOps S k { m0 with tape := seed } fops
    let eu : Val := .list (used.map encEntry)
    let ef : Val := .list (fresh.map encEntry)
    pure (.list [eu, b2i (eu == ef), b2i (iu == ifr)])
  | _ => none

def osFinal (S : SimIface StubSt Int (List Int) (List Int)) (k : MKind) :
    OSState StubSt → List (Option (List Int)) → OSState StubSt
  | st, [] => st
  | st, c :: cs =>
    let r := match c with
      | none => osReset (α := Int) S k st
      | some acts => osStep S k st acts
    osFinal S k r.2 cs

def handleOSTwin (args : List Val) : Option Val := do
  match args with
  | [k, sc, pcalls, fcalls, iu, ifr] =>
    let k ← kind? k
    let sc ← script? sc
    let pcalls ← (← pcalls.list?).mapM osCall?
    let fcalls ← (← fcalls.list?).mapM osCall?
    let S := stubSimFlat sc
    let st0 : OSState StubSt := { m := mgrInit ({} : StubSt) false [] }
    let used := osRun S k (osFinal S k st0 pcalls) fcalls
    let fresh := osRun S k st0 fcalls
    let eu : Val := .list (used.map encOSCall)
    let ef : Val := .list (fresh.map encOSCall)
    pure (.list [eu, b2i (eu == ef), b2i (iu == ifr)])
  | _ => none

/-! GymABS over a scripted environment: state = steps since reset; `step a` returns
obs = count, reward = count·a, terminated = (count ≥ doneAt), truncated = false, info = count -/
def scriptedEnv (doneAt : Nat) : GymEnv Nat Int Int Int where
  reset := fun _ => ((0, 0), 0)
  step := fun c a => (((c + 1 : Nat), ((c + 1 : Nat) : Int) * a, decide (doneAt ≤ c + 1), false, ((c + 1 : Nat) : Int)), c + 1)

def snap (s : GymABSSt Nat Int Int) : Val :=
  .list [encOptV Val.int s.obs, encOptV Val.int s.reward, encOptV Val.ofBool s.done, encOptV Val.int s.info]

def gRun (doneAt : Nat) : GymABSSt Nat Int Int → List (Option Int) → List Val
  | _, [] => []
  | s, c :: cs =>
    let s' := match c with
      | none => gymabsReset (scriptedEnv doneAt) s
      | some a => gymabsStep (scriptedEnv doneAt) s a
    snap s' :: gRun doneAt s' cs

def handleGymABS (args : List Val) : Option Val := do
  match args with
  | [d, calls, impl] =>
    let d ← d.nat?
    let calls ← (← calls.list?).mapM gymCall?
    let m : Val := .list (gRun d { env := 0 } calls)
    pure (.list [m, .int 1, b2i (m == impl)])
  | _ => none

end TwinDriver
end Abmarl
