import Abmarl.Model.Wire
import Abmarl.Model.Spaces
import Abmarl.Spec.Spaces
/-!
Driver glue for the space operations (C04: `ravel`, `unravel`, `ravelspace`, `checkspace`;
C05: `flatten`, `unflatten`, `flatspace`): wire ↔ model types.  Trusted base.

Wire forms
* space: `(d n start)` `(mb n)` `(md (r…))` `(box (shape…) (lo…) (hi…) wide)`
  `(fbox (shape…) ((num den)…) ((num den)…))` `(ubox (shape…))` `(dict (key…) (space…))`
  `(tup (space…))`
* number: `i` (integer-typed) or `(num den)` (float-typed)
* point: `(s number)` `(a (shape…) (number…))` `(m (key…) (point…))` `(t (point…))`; the shape of
  an array is checked against the space when decoding and echoed from the space when encoding
* outcome: `(ok …)`, `(e err)` (the call raised), or `(none)` (no implementation outcome sent)
* reply: `(modelOutcome specOnModel specOnImpl)`; `specOnModel = -1` when the hypotheses of the
  theorems (`WF04`/`WF05`, membership) do not hold of the request; `specOnImpl = -1` when no
  implementation outcome was sent.
-/
namespace Abmarl
namespace SpacesDriver

def rat? (v : Val) : Option Rat :=
  match v with
  | .list [.int n, .int d] => if 0 < d then some (mkRat n d.toNat) else none
  | _ => none

def rats? (v : Val) : Option (List Rat) := do (← v.list?).mapM rat?

def num? (v : Val) : Option Num :=
  match v with
  | .int i => some (.int i)
  | _ => (rat? v).map .flt

def nums? (v : Val) : Option (List Num) := do (← v.list?).mapM num?

def encRat (q : Rat) : Val := .list [.int q.num, .int (Int.ofNat q.den)]

def encNum : Num → Val
  | .int i => .int i
  | .flt q => encRat q

partial def space? (v : Val) : Option Space :=
  match v with
  | .list [.atom "d", n, st] => do pure (.discrete (← n.nat?) (← st.int?))
  | .list [.atom "mb", n] => do pure (.multiBinary (← n.nat?))
  | .list [.atom "md", r] => do pure (.multiDiscrete (← r.nats?))
  | .list [.atom "box", sh, lo, hi, w] => do pure (.box (← sh.nats?) (← lo.ints?) (← hi.ints?) (← w.bool?))
  | .list [.atom "fbox", sh, lo, hi] => do pure (.fbox (← sh.nats?) (← rats? lo) (← rats? hi))
  | .list [.atom "ubox", sh] => do pure (.ubox (← sh.nats?))
  | .list [.atom "dict", ks, .list ss] => do pure (.dict (← ks.nats?) (← ss.mapM space?))
  | .list [.atom "tup", .list ss] => do pure (.tuple (← ss.mapM space?))
  | _ => none

/-- the shape an array point of this leaf must have -/
def leafShape : Space → List Nat
  | .multiBinary n => [n]
  | .multiDiscrete nvec => [nvec.length]
  | .box sh _ _ _ => sh
  | .fbox sh _ _ => sh
  | .ubox sh => sh
  | _ => []

mutual
def pt? : Space → Val → Option Pt
  | .discrete _ _, v =>
    match v with
    | .list [.atom "s", x] => (num? x).map .scalar
    | _ => none
  | .dict _ ss, v =>
    match v with
    | .list [.atom "m", ks, .list ps] => do pure (.dict (← ks.nats?) (← ptL? ss ps))
    | _ => none
  | .tuple ss, v =>
    match v with
    | .list [.atom "t", .list ps] => do pure (.tuple (← ptL? ss ps))
    | _ => none
  | s, v =>
    match v with
    | .list [.atom "a", sh, xs] => do
      let sh ← sh.nats?
      if sh = leafShape s then pure (.arr (← nums? xs)) else none
    | _ => none
def ptL? : List Space → List Val → Option (List Pt)
  | [], [] => some []
  | s :: ss, v :: vs => do pure ((← pt? s v) :: (← ptL? ss vs))
  | _, _ => none
end

mutual
def encPt : Space → Pt → Val
  | _, .scalar x => .list [.atom "s", encNum x]
  | s, .arr xs => .list [.atom "a", Val.ofNats (leafShape s), .list (xs.map encNum)]
  | .dict _ ss, .dict ks ps => .list [.atom "m", Val.ofNats ks, .list (encPtL ss ps)]
  | .tuple ss, .tuple ps => .list [.atom "t", .list (encPtL ss ps)]
  | _, _ => .atom "malformed"
def encPtL : List Space → List Pt → List Val
  | s :: ss, p :: ps => encPt s p :: encPtL ss ps
  | _, _ => []
end

def b2i (b : Bool) : Val := Val.ofBool b
def errV : Val := .list [.atom "e", .atom "err"]
def okV (l : List Val) : Val := .list (.atom "ok" :: l)

/-- a one-dimensional array `(a (len) (x…))` -/
def flat? (v : Val) : Option (List Num) :=
  match v with
  | .list [.atom "a", sh, xs] => do
    let sh ← sh.nats?
    let xs ← nums? xs
    if sh = [xs.length] then pure xs else none
  | _ => none

def encFlat (a : List Num) : Val := .list [.atom "a", Val.ofNats [a.length], .list (a.map encNum)]

def kind? (v : Val) : Option DKind :=
  match v with
  | .atom "i64" => some .i64
  | .atom "narrow" => some .narrow
  | .atom "f" => some .f
  | _ => none

def encKind : DKind → Val
  | .i64 => .atom "i64" | .narrow => .atom "narrow" | .f => .atom "f"

/-- decode an implementation outcome: `none` = not sent, `some none` = the call raised (or its
result does not even have the right shape), `some (some x)` = a result -/
def impl? {β : Type} (v : Val) (f : List Val → Option β) : Option (Option β) :=
  match v with
  | .list [.atom "none"] => none
  | .list (.atom "ok" :: rest) => some (f rest)
  | _ => some none

def reply {β : Type} (enc : Option β → Val) (spec : Option β → Bool) (applicable : Bool)
    (model : Option β) (impl : Option (Option β)) : Val :=
  .list [enc model,
         if applicable then b2i (spec model) else .int (-1),
         match impl with
         | none => .int (-1)
         | some o => b2i (spec o)]

def handle (op : String) (args : List Val) : Option Val := do
  match op, args with
  | "ravel", [s, p, impl] =>
    let s ← space? s
    let p ← pt? s p
    let enc : Option Int → Val := fun o => match o with | some v => okV [.int v] | none => errV
    pure (reply enc (specRavel s p) (WF04 s && mem s p) (outRavel s p)
      (impl? impl fun r => match r with | [.int v] => some v | _ => none))
  | "unravel", [s, k, impl] =>
    let s ← space? s
    let k ← k.nat?
    let enc : Option (Pt × Bool) → Val := fun o =>
      match o with | some (q, b) => okV [encPt s q, b2i b] | none => errV
    pure (reply enc (specUnravel s k) (WF04 s && decide (k < card s)) (outUnravel s k)
      (impl? impl fun r => match r with
        | [q, b] => do pure ((← pt? s q), (← b.bool?))
        | _ => none))
  | "ravelspace", [s, impl] =>
    let s ← space? s
    let enc : Option (Nat × Int) → Val := fun o =>
      match o with | some (n, st) => okV [Val.ofNat n, .int st] | none => errV
    pure (reply enc (specRavelSpace s) (WF04 s) (outRavelSpace s)
      (impl? impl fun r => match r with
        | [n, st] => do pure ((← n.nat?), (← st.int?))
        | _ => none))
  | "checkspace", [s, impl] =>
    let s ← space? s
    let enc : Option Bool → Val := fun o => match o with | some b => okV [b2i b] | none => errV
    pure (reply enc (specCheckSpace s) true (outCheckSpace s)
      (impl? impl fun r => match r with | [b] => b.bool? | _ => none))
  | "flatten", [s, p, impl] =>
    let s ← space? s
    let p ← pt? s p
    let enc : Option (List Num × Bool) → Val := fun o =>
      match o with | some (a, b) => okV [encFlat a, b2i b] | none => errV
    pure (reply enc (specFlatten s p) (WF05 s && mem s p) (outFlatten s p)
      (impl? impl fun r => match r with
        | [a, b] => do pure ((← flat? a), (← b.bool?))
        | _ => none))
  | "unflatten", [s, p, impl] =>
    let s ← space? s
    let p ← pt? s p
    let enc : Option (Pt × Int) → Val := fun o =>
      match o with | some (q, i) => okV [encPt s q, .int i] | none => errV
    pure (reply enc (specRoundTrip s p) (WF05 s && mem s p) (outRoundTrip s p (allLeavesInt s))
      (impl? impl fun r => match r with
        | [q, i] => do pure ((← pt? s q), (← i.int?))
        | _ => none))
  | "flatspace", [s, impl] =>
    let s ← space? s
    let enc : Option (FlatBox × Nat) → Val := fun o =>
      match o with
      | some (b, d) => okV [encKind b.kind, .list (b.lo.map encRat), .list (b.hi.map encRat), Val.ofNat d]
      | none => errV
    pure (reply enc (specFlatSpace s) (WF05 s) (outFlatSpace s)
      (impl? impl fun r => match r with
        | [k, lo, hi, d] => do pure (⟨← kind? k, ← rats? lo, ← rats? hi⟩, (← d.nat?))
        | _ => none))
  | _, _ => none

end SpacesDriver
end Abmarl
