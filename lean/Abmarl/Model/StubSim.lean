import Abmarl.Model.Managers
/-!
# The scripted stub simulation (Lean side of `harness/stub_sim.py`)

A `DynamicOrderSimulation` whose behaviour is a script: per-agent done time, a
simulation-finished time, nominations per time step, deterministic reward accruals kept
in read-and-reset accumulators, and observations `[episode, t, agent, read-count]` that make
every effectful read visible.  The manager theorems are for *every* `SimIface`; this
instance is only what the differential test drives.
-/
namespace Abmarl

structure Script where
  n        : Nat
  learning : List Bool
  doneAt   : List Nat            -- agent a is done  iff  t ≥ doneAt[a]
  finishAt : Nat                 -- get_all_done()   iff  t ≥ finishAt
  noms     : List (List Aid)     -- nomination at time t (0 = after reset); beyond: everybody
  undoneAt : List Nat := []      -- agent a stops being done again at t ≥ undoneAt[a] (a "revive"); default never
  unit     : Int := 1            -- every accrual is a multiple of this amount (big units: rewards beyond 2^53)
deriving Repr

structure StubSt where
  ep    : Nat := 0
  t     : Nat := 0
  reads : List Nat := []
  pend  : List Int := []
deriving Repr

def stubAccr (a t : Nat) (act : Option Int) : Int :=
  1 + ((3 * (a : Int) + 5 * (t : Int) + (match act with | some v => 2 + v.natAbs | none => 0)) % 4)

def bump (l : List Nat) (a : Nat) : List Nat := l.set a (l.getD a 0 + 1)

def stubSim (sc : Script) : SimIface StubSt Int (List Int) (List Int) where
  n := sc.n
  learning := fun a => sc.learning.getD a false
  reset := fun s => { ep := s.ep + 1, t := 0, reads := List.replicate sc.n 0, pend := List.replicate sc.n 0 }
  step := fun s acts =>
    let t' := s.t + 1
    { s with t := t',
             pend := (List.range sc.n).map (fun a => s.pend.getD a 0 + sc.unit * stubAccr a t' (acts.lookup a)) }
  obs := fun s a => ([(s.ep : Int), s.t, a, s.reads.getD a 0], { s with reads := bump s.reads a })
  reward := fun s a => (s.pend.getD a 0, { s with pend := s.pend.set a 0 })
  done := fun s a => decide (sc.doneAt.getD a 0 ≤ s.t) && !decide (sc.undoneAt.getD a 1000000 ≤ s.t)
  allDone := fun s => decide (sc.finishAt ≤ s.t)
  info := fun s _ => [(s.t : Int)]
  next := fun s => (sc.noms[s.t]?).getD (List.range sc.n)
  pending := fun s a => s.pend.getD a 0

end Abmarl

namespace Abmarl

/-- the stub with a constant episode number: its `reset` does not depend on the prior state at all
(used for the used-versus-fresh twins of C08) -/
def stubSimFlat (sc : Script) : SimIface StubSt Int (List Int) (List Int) :=
  { stubSim sc with
    reset := fun _ => { ep := 1, t := 0, reads := List.replicate sc.n 0, pend := List.replicate sc.n 0 } }

end Abmarl
