import Abmarl.Model.GridDriver
import Abmarl.Model.AttacksDriver
import Abmarl.Model.PlacementDriver
import Abmarl.Spec.GridSim
/-!
Driver glue for C03 on whole histories (`ghist`) and the invariant as a runtime monitor (`gwinv`).
Trusted base.

`(ghist stat dyn0 ops implTrace)`
  ops       = list of
              `(move <call>)`             call as in `gmove`: `(move a (dr dc))` | `(cross a x)` | `(drift a x)`
              `(attack <call> <tape>)`    call as in `gattack`: `(kind mapping stacked attacker action)`
              `(reset (<comp> ...) <tape>)` comp = `(position <opts as in gplace>)` | `health` |
                                          `healthClosed` (the oracle stream of finding K4) | `ammo` | `orient`,
                                          in the order in which the components are reset
  implTrace = per operation `(ok dyn)` or `(err kind)`; it stops after the first error
  reply     = `(modelTrace specOnModel specOnImpl pre (firstBad k4))`
              modelTrace  `traceGOps`, encoded like implTrace
              specOn…     `specC03Hist` on the model's / the implementation's trace (1/0; -1: unparsable)
              pre         `histPre`: the hypotheses of `C03_hist`
              firstBad    index of the first world of the implementation's trace that fails `WInv` (-1: none)
              k4          diagnosis for finding K4 (1/0): some world of the implementation's trace fails
                          `WInv`, and every world satisfies it once the agents are taken out of the cells
                          that have no initial health and came out of the latest reset with health 0

`(gwinv stat dyn)`  reply `(winv weak)`: `WInv` and `WInvWeak` of a dumped world (1/0).
-/
namespace Abmarl
namespace GridSimDriver
open GridWire World

def comp? (v : Val) : Option StateComp :=
  match v with
  | .atom "health" => some .health
  | .atom "healthClosed" => some .healthClosed
  | .atom "ammo" => some .ammo
  | .atom "orient" => some .orient
  | .list [.atom "position", o] => (PlacementDriver.opts? o).map fun r => .position r.1 r.2
  | _ => none

def op? (v : Val) : Option (GOp × Tape) := do
  match v with
  | .list [.atom "move", c] => pure (.move (← GridDriver.call? c), [])
  | .list [.atom "attack", c, t] =>
    let (cfg, a, act) ← AttacksDriver.call? c
    pure (.attack cfg a act, ← t.nats?)
  | .list [.atom "reset", cs, t] => pure (.reset (← (← cs.list?).mapM comp?), ← t.nats?)
  | _ => none

def entry? (stat : Val) (v : Val) : Option (Except GErr World) := do
  match v with
  | .list [.atom "ok", dyn] => pure (.ok (← world? stat dyn))
  | .list [.atom "err", e] => pure (.error (AttacksDriver.gerr? e))
  | _ => none

def encEntry : Except GErr World → Val
  | .ok w => .list [.atom "ok", encDyn w]
  | .error e => .list [.atom "err", encGErr e]

def b2v (b : Bool) : Val := Val.ofBool b

/-- index of the first world of a trace that fails the invariant -/
def firstBad : List (Except GErr World) → Nat → Int
  | [], _ => -1
  | .ok w :: tr, k => if w.WInv then firstBad tr (k + 1) else k
  | .error _ :: _, _ => -1

/-- the agents without initial health that have health 0 in `w` -/
def zeroDrawn (w : World) : List Aid :=
  w.allAgents.filter fun a => (w.cfgOf a).initHealth.isNone && ((w.stOf a).health == 0)

/-- every world satisfies the invariant once the zero-drawn agents of the latest reset are taken
out of the cells -/
def k4Excused : List (GOp × Tape) → List (Except GErr World) → List Aid → Bool
  | (op, _) :: rest, .ok w :: tr, zs =>
    let zs' := if op.isReset then zeroDrawn w else zs
    (w.dropFromCells zs').WInv && k4Excused rest tr zs'
  | _, _, _ => true

def handleHist (args : List Val) : Option Val := do
  match args with
  | [stat, dyn, ops, impl] =>
    let w0 ← world? stat dyn
    let ops ← (← ops.list?).mapM op?
    let m := traceGOps w0 ops
    let (is, diag) : Val × Val :=
      match (impl.list?).bind (fun l => l.mapM (entry? stat)) with
      | some tr =>
        let fb := firstBad tr 0
        (b2v (specC03Hist w0 ops tr), .list [.int fb, b2v (decide (0 ≤ fb) && k4Excused ops tr [])])
      | none => (.int (-1), .list [.int (-1), .int 0])
    pure (.list [.list (m.map encEntry), b2v (specC03Hist w0 ops m), is, b2v (histPre w0 ops), diag])
  | _ => none

def handleWInv (args : List Val) : Option Val := do
  match args with
  | [stat, dyn] =>
    let w ← world? stat dyn
    pure (.list [b2v w.WInv, b2v w.WInvWeak])
  | _ => none

end GridSimDriver
end Abmarl
