import Abmarl.Model.MgrDriver
import Abmarl.Model.AttacksDriver
import Abmarl.Spec.Corridor
/-!
Driver glue for `MultiCorridor` (`gexample` / `mgrx` with configuration `(corridor end n)`).  Trusted base.

**`(gexample (corridor end n) () () ops implTrace)`** — a history of direct calls on ONE object.

* `ops` = `(reset tape)` | `(step ((agent action)…))` (items of the action dict in insertion order; `action`
  any integer) | `(obs a)` | `(rew a)` | `(done a)` | `(alldone)`;
* trace entry = `(res dyn)`; `res` = `(unit)` | `(int r)` | `(obs p l r member)` | `(bool b)` | `(err kind)`;
  `dyn` = `()` (the attributes do not exist yet) | `((pos…) (cell…) (reward…))`, a cell = agent index or −1;
  the dump is sent after EVERY call, also one that raised;
* reply `(modelTrace specOnModel specOnImpl 1)` (`corridor_hist` has no hypothesis).

**`(mgrx (corridor end n) () () kind shuffle mgrTape simTape ops implTrace)`** — a real manager over the real
object; `ops` = `(r)` | `(s ((agent action)…))`; entries as in `mgr` with observations `(ok (p l r member))` |
`(err kind)`, infos `()`.  Reply `(modelTrace c01Model c07Model c01Impl c07Impl)`.
-/
namespace Abmarl
namespace CorridorDriver
open Cor

def cfg? (v : Val) : Option Cfg := do
  match v with
  | .list [.atom "corridor", e, n] => pure { endp := ← e.nat?, n := ← n.nat? }
  | _ => none

def acts? (v : Val) : Option (List (Aid × Int)) := MgrDriver.pairList? Val.int? v

def op? (v : Val) : Option COp := do
  match v with
  | .list [.atom "reset", t] => pure (.reset (← t.nats?))
  | .list [.atom "step", a] => pure (.step (← acts? a))
  | .list [.atom "obs", a] => pure (.obs (← a.nat?))
  | .list [.atom "rew", a] => pure (.rew (← a.nat?))
  | .list [.atom "done", a] => pure (.done (← a.nat?))
  | .list [.atom "alldone"] => pure .allDone
  | _ => none

def encCell : Option Aid → Val
  | none => .int (-1)
  | some a => Val.ofNat a

def cell? (v : Val) : Option (Option Aid) := do
  let i ← v.int?
  if i < 0 then pure none else pure (some i.toNat)

def encDyn : Option Dyn → Val
  | none => .list []
  | some d => .list [Val.ofNats d.pos, .list (d.cor.map encCell), Val.ofInts d.rew]

def dyn? (v : Val) : Option (Option Dyn) := do
  match v with
  | .list [] => pure none
  | .list [p, c, r] => pure (some { pos := ← p.nats?, cor := ← (← c.list?).mapM cell?, rew := ← r.ints? })
  | _ => none

def encObs (o : Obs) : List Val :=
  [Val.ofNat o.position, Val.ofBool o.left, Val.ofBool o.right, Val.ofBool o.member]

def obs? (l : List Val) : Option Obs := do
  match l with
  | [p, a, b, m] => pure { position := ← p.nat?, left := ← a.bool?, right := ← b.bool?, member := ← m.bool? }
  | _ => none

def encRes : CRes → Val
  | .unit => .list [.atom "unit"]
  | .int r => .list [.atom "int", .int r]
  | .obs o => .list (.atom "obs" :: encObs o)
  | .bool b => .list [.atom "bool", Val.ofBool b]
  | .err e => .list [.atom "err", GridWire.encGErr e]

def res? (v : Val) : Option CRes := do
  match v with
  | .list [.atom "unit"] => pure .unit
  | .list [.atom "int", r] => pure (.int (← r.int?))
  | .list (.atom "obs" :: l) => pure (.obs (← obs? l))
  | .list [.atom "bool", b] => pure (.bool (← b.bool?))
  | .list [.atom "err", e] => pure (.err (AttacksDriver.gerr? e))
  | _ => none

def encEntry (e : CEntry) : Val := .list [encRes e.res, encDyn e.dyn]

def entry? (v : Val) : Option CEntry := do
  match v with
  | .list [r, d] => pure { res := ← res? r, dyn := ← dyn? d }
  | _ => none

def b2v (b : Bool) : Val := Val.ofBool b

def handle (args : List Val) : Option Val := do
  match args with
  | [cfg, _, _, ops, impl] =>
    let cfg ← cfg? cfg
    let ops ← (← ops.list?).mapM op?
    let m := (Cor.runOps cfg {} ops).1
    let judge := fun (tr : List CEntry) => b2v (specCor cfg (zipOps ops tr))
    let is : Val :=
      match (impl.list?).bind (fun l => l.mapM entry?) with
      | some tr => if tr.length != ops.length then .int (-1) else judge tr
      | none => .int (-1)
    pure (.list [.list (m.map encEntry), judge m, is, .int 1])
  | _ => none

/-! ## `mgrx` -/

abbrev ME := Entry Int ObsOut Unit

def mop? (v : Val) : Option (Op Int) := do
  match v with
  | .list [.atom "r"] => pure .reset
  | .list [.atom "s", a] => pure (.step (← acts? a))
  | _ => none

def encObsOut : ObsOut → Val
  | .ok o => .list [.atom "ok", .list (encObs o)]
  | .error e => .list [.atom "err", GridWire.encGErr e]

def obsOut? (v : Val) : Option ObsOut := do
  match v with
  | .list [.atom "ok", .list o] => pure (.ok (← obs? o))
  | .list [.atom "err", e] => pure (.error (AttacksDriver.gerr? e))
  | _ => none

def unit? (v : Val) : Option Unit :=
  match v with
  | .list [] => some ()
  | _ => none

def mres? (v : Val) : Option (Res Int ObsOut Unit) := do
  match v with
  | .list [.atom "r", o] => pure (.resetOk (← MgrDriver.pairList? obsOut? o))
  | .list [.atom "s", o, r, d, i, ad] =>
    pure (.stepOk { obs := ← MgrDriver.pairList? obsOut? o, rewards := ← MgrDriver.pairList? Val.int? r,
                    dones := ← MgrDriver.pairList? Val.bool? d, infos := ← MgrDriver.pairList? unit? i,
                    allDone := ← ad.bool? })
  | .list [.atom "e", .atom c] => pure (.err (MgrDriver.errOf c))
  | _ => none

def mentry? (op : Op Int) (v : Val) : Option ME := do
  match v with
  | .list [r, sa, acc, gh] =>
    let sa' ← match sa with
      | .list [.atom "n"] => pure none
      | .list [.atom "y", a] => pure (some (← acts? a))
      | _ => none
    pure { op := op, res := ← mres? r, simArgs := sa', accrued := ← acc.ints?, ghost := ← MgrDriver.ghost? gh }
  | _ => none

def mzip? : List (Op Int) → List Val → Option (List ME)
  | [], [] => some []
  | op :: ops, v :: vs => do pure ((← mentry? op v) :: (← mzip? ops vs))
  | _, _ => none

def encMRes : Res Int ObsOut Unit → Val
  | .resetOk o => .list [.atom "r", MgrDriver.encPairs encObsOut o]
  | .stepOk o => .list [.atom "s", MgrDriver.encPairs encObsOut o.obs, MgrDriver.encPairs Val.int o.rewards,
                        MgrDriver.encPairs Val.ofBool o.dones, MgrDriver.encPairs (fun _ => .list []) o.infos,
                        Val.ofBool o.allDone]
  | .err e => .list [.atom "e", .atom (MgrDriver.errStr e)]

def encMEntry (e : ME) : Val :=
  .list [encMRes e.res,
         (match e.simArgs with | none => .list [.atom "n"] | some a => .list [.atom "y", MgrDriver.encPairs Val.int a]),
         Val.ofInts e.accrued,
         .list [Val.ofBool e.ghost.simAllDone, .list (e.ghost.simDone.map Val.ofBool),
                Val.ofInts e.ghost.pending, Val.ofNats e.ghost.nominated]]

def handleMgr (args : List Val) : Option Val := do
  match args with
  | [cfg, _, _, k, sh, mtape, stape, ops, impl] =>
    let cfg ← cfg? cfg
    let k ← MgrDriver.kind? k
    let sh ← sh.bool?
    let mtape ← mtape.nats?
    let stape ← stape.nats?
    let ops ← (← ops.list?).mapM mop?
    let S := toSimIface cfg
    let tr := Abmarl.runOps S k (mgrInit ({ tape := stape } : St) sh mtape) ops
    let spec1 := fun (t : List ME) => specC01 k S.n S.learning sh t
    let spec7 := fun (t : List ME) => specC07 k S.n S.learning t
    let implV ← impl.list?
    let (i1, i7) : Val × Val :=
      if implV.isEmpty then (.int (-1), .int (-1))
      else match mzip? ops implV with
        | some it => (b2v (spec1 it), b2v (spec7 it))
        | none => (.int (-2), .int (-2))
    pure (.list [.list (tr.map encMEntry), b2v (spec1 tr), b2v (spec7 tr), i1, i7])
  | _ => none

end CorridorDriver
end Abmarl
