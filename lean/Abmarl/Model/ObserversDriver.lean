import Abmarl.Model.GridWire
import Abmarl.Model.Observers
import Abmarl.Spec.Observers
/-! Driver glue for the five observers (`gobs`): wire ↔ model types.  Trusted base.

Request `(gobs stat dyn (kind agent observeSelf) tape implObservation)`:
* `stat`, `dyn` — the world (`GridWire.world?`; `viewRange` already resolved from `"FULL"`);
* `kind` ∈ `absolute | centered | stacked | position | ammo`, `agent` the index of the observing
  agent, `observeSelf` 0/1 (read by `centered` only);
* `tape` — the oracle tape `(v0 v1 …)`;
* `implObservation` — what the real `get_obs(agent)` returned: `(none)` for `{}`,
  `(grid (row …))`, `(stack ((layers …) …))`, `(vec (r c))`, `(scalar v)`, `(err kind)` if it
  raised, `()` if no implementation outcome is sent.

Reply `(modelObservation (spec declared hyp) (spec declared))`: the model's observation in the
same format; on the model's outcome the judge `specC09`, the declared-space predicate and whether
the hypotheses of the theorems hold for this input (`WInv`, agent exists, observer position in the
grid, positive encodings); on the implementation's outcome the judge and the declared-space
predicate (1/0; −1 if none was sent or it could not be parsed). -/
namespace Abmarl
namespace ObserversDriver
open GridWire Observers World

def encGrid (g : List (List Int)) : Val := .list (g.map Val.ofInts)

def encObs : Obs → Val
  | .unsupported => .list [.atom "none"]
  | .grid g => .list [.atom "grid", encGrid g]
  | .stack g => .list [.atom "stack", .list (g.map encGrid)]
  | .vec p => .list [.atom "vec", encPos p]
  | .scalar v => .list [.atom "scalar", .int v]

def encOut : Except GErr Obs → Val
  | .ok o => encObs o
  | .error e => .list [.atom "err", encGErr e]

def grid? (v : Val) : Option (List (List Int)) := do (← v.list?).mapM Val.ints?

def out? (v : Val) : Option (Except GErr Obs) := do
  match v with
  | .list [.atom "none"] => pure (.ok .unsupported)
  | .list [.atom "grid", g] => pure (.ok (.grid (← grid? g)))
  | .list [.atom "stack", g] => pure (.ok (.stack (← (← g.list?).mapM grid?)))
  | .list [.atom "vec", p] => pure (.ok (.vec (← pos? p)))
  | .list [.atom "scalar", x] => pure (.ok (.scalar (← x.int?)))
  | .list [.atom "err", _] => pure (.error .other)
  | _ => none

def kind? (k os : Val) : Option Kind := do
  match k with
  | .atom "absolute" => pure .absolute
  | .atom "centered" => pure (.centered (← os.bool?))
  | .atom "stacked" => pure .stacked
  | .atom "position" => pure .position
  | .atom "ammo" => pure .ammo
  | _ => none

/-- the hypotheses of `C09_observers`, evaluated on the input -/
def hyps (w : World) (a : Aid) : Bool :=
  w.WInv && decide (a < w.n) && w.inGrid (w.stOf a).pos && w.allAgents.all fun b => decide (0 < w.encOf b)

def specs (w : World) (a : Aid) (k : Kind) (o : Except GErr Obs) : List Val :=
  [Val.ofBool (specC09 w a k o),
   Val.ofBool (match o with | .ok x => declared w a k x | .error _ => false)]

def handle (args : List Val) : Option Val := do
  match args with
  | [stat, dyn, .list [k, a, os], tape, impl] =>
    let w ← world? stat dyn
    let a ← a.nat?
    let k ← kind? k os
    let t ← tape.nats?
    let m : Except GErr Obs := (getObs w a k t).map (·.1)
    let is : Val :=
      match out? impl with
      | some io => .list (specs w a k io)
      | none => .list [.int (-1), .int (-1)]
    pure (.list [encOut m, .list (specs w a k m ++ [Val.ofBool (hyps w a)]), is])
  | _ => none

end ObserversDriver
end Abmarl
