import Abmarl.Model.Wire
import Abmarl.Model.StubSim
import Abmarl.Spec.Managers
/-! Driver glue for the manager operations (`mgr`): wire ↔ model types. Trusted base. -/
namespace Abmarl
namespace MgrDriver

abbrev E := Entry Int (List Int) (List Int)

def pairList? {β : Type} (f : Val → Option β) (v : Val) : Option (List (Aid × β)) := do
  (← v.list?).mapM fun p => do
    match p with
    | .list [a, b] => pure ((← a.nat?), (← f b))
    | _ => none

def script? (v : Val) : Option Script := do
  match v with
  | .list [n, l, d, f, noms] =>
    pure { n := ← n.nat?, learning := ← l.bools?, doneAt := ← d.nats?, finishAt := ← f.nat?,
           noms := ← (← noms.list?).mapM Val.nats? }
  | .list [n, l, d, f, noms, u] =>
    pure { n := ← n.nat?, learning := ← l.bools?, doneAt := ← d.nats?, finishAt := ← f.nat?,
           noms := ← (← noms.list?).mapM Val.nats?, undoneAt := ← u.nats? }
  | .list [n, l, d, f, noms, u, unit] =>
    pure { n := ← n.nat?, learning := ← l.bools?, doneAt := ← d.nats?, finishAt := ← f.nat?,
           noms := ← (← noms.list?).mapM Val.nats?, undoneAt := ← u.nats?, unit := ← unit.int? }
  | _ => none

def op? (v : Val) : Option (Op Int) := do
  match v with
  | .list [.atom "r"] => pure .reset
  | .list [.atom "s", acts] => pure (.step (← pairList? Val.int? acts))
  | _ => none

def kind? (v : Val) : Option MKind :=
  match v with
  | .int 0 => some .allStep
  | .int 1 => some .turnBased
  | .int 2 => some .dynamic
  | _ => none

def errOf (s : String) : Err :=
  match s with
  | "rejected" => .rejected
  | "exhausted" => .exhausted
  | "hang" => .hang
  | _ => .crash

def errStr : Err → String
  | .rejected => "rejected" | .exhausted => "exhausted" | .hang => "hang" | .crash => "crash"

def res? (v : Val) : Option (Res Int (List Int) (List Int)) := do
  match v with
  | .list [.atom "r", o] => pure (.resetOk (← pairList? Val.ints? o))
  | .list [.atom "s", o, r, d, i, ad] =>
    pure (.stepOk { obs := ← pairList? Val.ints? o, rewards := ← pairList? Val.int? r,
                    dones := ← pairList? Val.bool? d, infos := ← pairList? Val.ints? i,
                    allDone := ← ad.bool? })
  | .list [.atom "e", .atom c] => pure (.err (errOf c))
  | _ => none

def ghost? (v : Val) : Option Ghost := do
  match v with
  | .list [ad, sd, p, nm] =>
    pure { simAllDone := ← ad.bool?, simDone := ← sd.bools?, pending := ← p.ints?, nominated := ← nm.nats? }
  | _ => none

def entry? (op : Op Int) (v : Val) : Option E := do
  match v with
  | .list [r, sa, acc, gh] =>
    let sa' ← match sa with
      | .list [.atom "n"] => pure none
      | .list [.atom "y", a] => pure (some (← pairList? Val.int? a))
      | _ => none
    pure { op := op, res := ← res? r, simArgs := sa', accrued := ← acc.ints?, ghost := ← ghost? gh }
  | _ => none

def zipEntries? : List (Op Int) → List Val → Option (List E)
  | [], [] => some []
  | op :: ops, v :: vs => do pure ((← entry? op v) :: (← zipEntries? ops vs))
  | _, _ => none

def encPairs {β : Type} (f : β → Val) (l : List (Aid × β)) : Val :=
  .list (l.map fun p => .list [Val.ofNat p.1, f p.2])

def encRes : Res Int (List Int) (List Int) → Val
  | .resetOk o => .list [.atom "r", encPairs Val.ofInts o]
  | .stepOk o => .list [.atom "s", encPairs Val.ofInts o.obs, encPairs Val.int o.rewards,
                        encPairs Val.ofBool o.dones, encPairs Val.ofInts o.infos, Val.ofBool o.allDone]
  | .err e => .list [.atom "e", .atom (errStr e)]

def encEntry (e : E) : Val :=
  .list [encRes e.res,
         (match e.simArgs with | none => .list [.atom "n"] | some a => .list [.atom "y", encPairs Val.int a]),
         Val.ofInts e.accrued,
         .list [Val.ofBool e.ghost.simAllDone, .list (e.ghost.simDone.map Val.ofBool),
                Val.ofInts e.ghost.pending, Val.ofNats e.ghost.nominated]]

def b2i (b : Bool) : Val := Val.ofBool b

/-- `(mgr kind shuffle script tape ops implTrace)` -/
def handle (args : List Val) : Option Val := do
  match args with
  | [k, sh, sc, tape, ops, impl] =>
    let k ← kind? k
    let sh ← sh.bool?
    let sc ← script? sc
    let tape ← tape.nats?
    let ops ← (← ops.list?).mapM op?
    let S := stubSim sc
    let tr := runOps S k (mgrInit ({} : StubSt) sh tape) ops
    let spec1 := fun (t : List E) => specC01 k sc.n S.learning sh t
    let spec7 := fun (t : List E) => specC07 k sc.n S.learning t
    let implV ← impl.list?
    let implRes : List Val :=
      if implV.isEmpty then [.int (-1), .int (-1)]
      else match zipEntries? ops implV with
        | some it => [b2i (spec1 it), b2i (spec7 it)]
        | none => [.int (-2), .int (-2)]
    pure (.list ([.list (tr.map encEntry), b2i (spec1 tr), b2i (spec7 tr)] ++ implRes))
  | _ => none

end MgrDriver
end Abmarl
