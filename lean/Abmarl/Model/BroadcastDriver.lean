import Abmarl.Model.GridSimDriver
import Abmarl.Model.ObserversDriver
import Abmarl.Model.MgrDriver
import Abmarl.Model.AttacksDriver
import Abmarl.Spec.Broadcast
/-!
Driver glue for `BroadcastSim` (`gexample` with configuration `(broadcast …)`; dispatched in Model/ExamplesDriver.lean).
Trusted base.

**`(gexample (broadcast bcast range initMsg mapping tol observeSelf) stat dyn0 ops implTrace)`**

* `bcast` = `isinstance(agent, BroadcastingAgent)` per agent (0/1); `range` = `broadcast_range` per agent (0 for the
  others); `initMsg` = `()` | `((num den))` per agent; `mapping` = `((enc (encs…))…)`; `tol` = `(num den)`;
* `stat`, `dyn0` — the world as built (`GridWire.world?`);
* `ops` = `(reset comp tape)` | `(step ((agent (dr dc) broadcast)…) tape)` | `(obs a tape)` | `(rew a)` | `(done a)` |
  `(alldone)`;
* trace entry = `(res dyn msgs recv ledger)`: `msgs` = `()` | `((num den))` per agent (every float as the exact rational
  it is); `recv` = `()` | `(((receiver ((sender (num den))…))…))`; `ledger` = `()` | `(((a r)…))` in units of 1/100;
  `res` = `(unit)` | `(int r)` | `(obs ((key value)…) msg)` | `(bool b)` | `(err kind)`, `msg` = `()` (no `message` key) |
  `(((key (cand…) (num den))…))` with `cand` = `z` | `o` | `(e k)`: the stored numbers whose float32 rounding the
  observed entry equals (`z`: it is 0; `o`: the agent's own message after the call; `(e k)`: entry `k` of the receiving
  list before the call), and `(num den)` the observed float32 exactly; a call that raised is sent as
  `((err kind) () () () ())`;
* reply `(trace specOnModel specOnImpl pre)`.

**Per-call refinement** (floats): `trace` is NOT the model's run from `dyn0` but, call by call, the model's outcome from
the state the IMPLEMENTATION's previous entry shows (`refine`).  An outcome *agrees* with the implementation's entry when
everything discrete is equal (result, world, receiving lists — whose numbers are copies, hence equal exactly —, reward
dict), every message is within `BC.bound = 2⁻⁴⁰` of the model's exact number, every observation slot lists what the
model says it carries, and an answer of `get_all_done` is the exact one or lies in the judge's grey zone
(`BC.doneAccepted`); an agreeing entry is echoed verbatim, the first disagreeing one is replaced by the model's own
outcome and ends the reply, so that the harness's comparison of `trace` with what it sent is exactly "agrees at every
call".  `specOnModel` is `BC.specBC` on the model's own exact run from `dyn0` (`broadcast_hist`), `specOnImpl` on the
implementation's trace.
-/
namespace Abmarl
namespace BroadcastDriver
open GridWire BC

def optRat? (v : Val) : Option (Option Rat) := opt? rat? v
def encOptRat (q : Option Rat) : Val := encOpt encRat q

def cfg? (v : Val) : Option Cfg := do
  match v with
  | .list [.atom "broadcast", bc, rg, im, mp, tol, os] =>
    pure { bcast := ← bc.bools?, range := ← rg.nats?, initMsg := ← (← im.list?).mapM optRat?,
           mapping := ← overlap? mp, tol := ← rat? tol, observeSelf := ← os.bool? }
  | _ => none

def acts? (v : Val) : Option (List (Aid × Act)) := do
  (← v.list?).mapM fun p => do
    match p with
    | .list [a, d, b] => pure ((← a.nat?), { move := ← pos? d, broadcast := ← b.int? })
    | _ => none

def op? (v : Val) : Option BOp := do
  match v with
  | .list [.atom "reset", c, t] => pure (.reset (← GridSimDriver.comp? c) (← t.nats?))
  | .list [.atom "step", a, t] => pure (.step (← acts? a) (← t.nats?))
  | .list [.atom "obs", a, t] => pure (.obs (← a.nat?) (← t.nats?))
  | .list [.atom "rew", a] => pure (.rew (← a.nat?))
  | .list [.atom "done", a] => pure (.done (← a.nat?))
  | .list [.atom "alldone"] => pure .allDone
  | _ => none

def encItems (o : List (String × Observers.Obs)) : Val :=
  .list (o.map fun p => .list [.atom p.1, ObserversDriver.encObs p.2])

def items? (v : Val) : Option (List (String × Observers.Obs)) := do
  (← v.list?).mapM fun p => do
    match p with
    | .list [.atom k, o] =>
      match ← ObserversDriver.out? o with
      | .ok x => pure (k, x)
      | .error _ => none
    | _ => none

def encSlot : Slot → Val
  | .zero => .atom "z"
  | .own => .atom "o"
  | .entry k => .list [.atom "e", Val.ofNat k]

def slot? (v : Val) : Option Slot := do
  match v with
  | .atom "z" => pure .zero
  | .atom "o" => pure .own
  | .list [.atom "e", k] => pure (.entry (← k.nat?))
  | _ => none

def encMsg : Option (List (Aid × List Slot × Rat)) → Val
  | none => .list []
  | some l => .list [.list (l.map fun p => .list [Val.ofNat p.1, .list (p.2.1.map encSlot), encRat p.2.2])]

def msg? (v : Val) : Option (Option (List (Aid × List Slot × Rat))) := do
  match v with
  | .list [] => pure none
  | .list [l] =>
    let r ← (← l.list?).mapM fun p => do
      match p with
      | .list [k, cs, q] => pure ((← k.nat?), (← (← cs.list?).mapM slot?), (← rat? q))
      | _ => none
    pure (some r)
  | _ => none

def encLedger : Option Ex.Ledger → Val
  | none => .list []
  | some r => .list [.list (r.map fun p => .list [Val.ofNat p.1, .int p.2])]

def ledger? (v : Val) : Option (Option Ex.Ledger) :=
  match v with
  | .list [] => some none
  | .list [l] => (MgrDriver.pairList? Val.int? l).map some
  | _ => none

def encRecv : Option Recv → Val
  | none => .list []
  | some r => .list [.list (r.map fun p => .list [Val.ofNat p.1, .list (p.2.map fun x => .list [Val.ofNat x.1, encRat x.2])])]

def recv? (v : Val) : Option (Option Recv) := do
  match v with
  | .list [] => pure none
  | .list [l] =>
    let r ← MgrDriver.pairList? (fun e => MgrDriver.pairList? rat? e) l
    pure (some r)
  | _ => none

def encRes : BRes → Val
  | .unit => .list [.atom "unit"]
  | .int r => .list [.atom "int", .int r]
  | .obs o => .list [.atom "obs", encItems o.grid, encMsg o.msg]
  | .bool b => .list [.atom "bool", Val.ofBool b]
  | .err e => .list [.atom "err", encGErr e]

def res? (v : Val) : Option BRes := do
  match v with
  | .list [.atom "unit"] => pure .unit
  | .list [.atom "int", r] => pure (.int (← r.int?))
  | .list [.atom "obs", g, m] => pure (.obs ⟨← items? g, ← msg? m⟩)
  | .list [.atom "bool", b] => pure (.bool (← b.bool?))
  | .list [.atom "err", e] => pure (.err (AttacksDriver.gerr? e))
  | _ => none

/-- a call that raised is sent without dump -/
def encEntry (e : BEntry) : Val :=
  match e.res with
  | .err _ => .list [encRes e.res, .list [], .list [], .list [], .list []]
  | _ => .list [encRes e.res, encDyn e.w, .list (e.msgs.map encOptRat), encRecv e.recv, encLedger e.rewards]

def entry? (stat : Val) (w0 : World) (v : Val) : Option BEntry := do
  match v with
  | .list [r, .list [], .list [], .list [], .list []] =>
    match ← res? r with
    | .err e => pure ⟨.err e, w0, [], none, none⟩
    | _ => none
  | .list [r, dyn, ms, rv, l] =>
    pure ⟨← res? r, ← world? stat dyn, ← (← ms.list?).mapM optRat?, ← recv? rv, ← ledger? l⟩
  | _ => none

def b2v (b : Bool) : Val := Val.ofBool b

/-! ## per-call refinement -/

def close (q f : Rat) : Bool := decide (absR (f - q) ≤ bound)

/-- model's exact messages against the implementation's floats -/
def msgsClose : List (Option Rat) → List (Option Rat) → Bool
  | [], [] => true
  | none :: a, none :: b => msgsClose a b
  | some q :: a, some f :: b => close q f && msgsClose a b
  | _, _ => false

/-- float32 has 24 significant bits: an observed entry is within `2⁻²³` of the stored number it renders -/
def close32 (q f : Rat) : Bool := decide (absR (f - q) ≤ mkRat 1 8388608)

def slotsAgree : List (Aid × List Slot × Rat) → List (Aid × List Slot × Rat) → Bool
  | [], [] => true
  | x :: xs, y :: ys =>
    (x.1 == y.1) && (match x.2.1 with | [d] => y.2.1.contains d | _ => false) && close32 x.2.2 y.2.2 &&
    slotsAgree xs ys
  | _, _ => false

def resAgree (m i : BRes) : Bool :=
  match m, i with
  | .obs om, .obs oi =>
    (om.grid == oi.grid) &&
    (match om.msg, oi.msg with
     | none, none => true
     | some sm, some si => slotsAgree sm si
     | _, _ => false)
  | a, b => a == b

/-- `get_all_done`: an answer inside the judge's grey zone agrees too -/
def doneAgree (cfg : Cfg) (j : BEntry) (op : BOp) (i : BRes) : Bool :=
  match op with
  | .allDone =>
    (match (bcasters cfg j.w.n).mapM (fun b => j.msgs.getD b none) with
     | some ms => doneAccepted cfg ms i
     | none => false)
  | _ => false

def agree (cfg : Cfg) (j : BEntry) (op : BOp) (m i : BEntry) : Bool :=
  (resAgree m.res i.res || doneAgree cfg j op i.res) &&
  (m.res.isErr || ((m.w == i.w) && msgsClose m.msgs i.msgs && (m.recv == i.recv) && (m.rewards == i.rewards)))

/-- call by call from the implementation's own previous dump -/
def refine (cfg : Cfg) : BEntry → List BOp → List BEntry → List BEntry
  | _, [], _ => []
  | _, _ :: _, [] => []
  | j, op :: ops, ei :: es =>
    let em := (BC.runOp cfg j.toSt op).1
    if agree cfg j op em ei then
      if em.res.isErr then [ei] else ei :: refine cfg ei ops es
    else [em]

def handle (args : List Val) : Option Val := do
  match args with
  | [cfg, stat, dyn, ops, impl] =>
    let cfg ← cfg? cfg
    let w0 ← world? stat dyn
    let ops ← (← ops.list?).mapM op?
    let m := (BC.runOps cfg (init w0) ops).1
    let judge := fun (tr : List BEntry) => b2v (specBC cfg w0 (zipOps ops tr))
    let pre := b2v (bcPre cfg w0 ops)
    match (impl.list?).bind (fun l => l.mapM (entry? stat w0)) with
    | some tr =>
      if tr.isEmpty then pure (.list [.list (m.map encEntry), judge m, .int (-1), pre])
      else pure (.list [.list ((refine cfg (see .unit (init w0)) ops tr).map encEntry), judge m, judge tr, pre])
    | none => pure (.list [.list (m.map encEntry), judge m, .int (-1), pre])
  | _ => none

end BroadcastDriver
end Abmarl
