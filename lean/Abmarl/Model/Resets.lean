import Abmarl.Model.Placement
import Abmarl.Model.Vitals
/-!
# `SmartGridWorldSimulation.reset`: the state components one after the other

(`placementReset` dispatches on the placement kind; see Model/Placement.lean.)
-/
namespace Abmarl

/-- the state components of a grid-world simulation -/
inductive StateComp where
  | position (kind : PKind) (o : PlaceOpts)    -- PositionState / TargetBarriersFree… / MazePlacementState
  | health | ammo | orient
  | healthClosed     -- `HealthState` under the out-of-domain oracle stream in which `uniform(0, 1)`
                     -- may return exactly 0.0 (finding K4); outside the domain of the C03 theorems

/-- one component's `reset` -/
def applyComp : StateComp → World → Tape → Except GErr (World × Tape)
  | .position kind o, w, t => placementReset kind o w t
  | .health, w, t => .ok (w.healthReset t)
  | .ammo, w, t => .ok (w.ammoReset, t)
  | .orient, w, t => .ok (w.orientReset t)
  | .healthClosed, w, t => .ok (w.healthReset t true)

/-- `SmartGridWorldSimulation.reset`: every state component once, in the (unspecified) iteration
order of the Python set -/
def applyComps : List StateComp → World → Tape → Except GErr (World × Tape)
  | [], w, t => .ok (w, t)
  | c :: cs, w, t =>
    match applyComp c w t with
    | .error e => .error e
    | .ok (w1, t1) => applyComps cs w1 t1


end Abmarl
