import Abmarl.Model.Managers
/-!
# `MultiPolicyTrainer.generate_episode` over a manager (trainers/base.py)

The trainer is an adaptive client of the manager: which actions it sends depends on the
previous output.  The model returns, besides the four record dictionaries, the ghost log of
what it did: the manager calls (as `Entry`s, exactly what `runOp` produces), and the policy
queries (agent, policy id, observation handed over, action returned).
-/
namespace Abmarl
variable {σ α ω ι : Type}

/-- `d[k].append(v)` with `d[k] = [v]` on `KeyError` -/
def appendTo {β : Type} (d : List (Aid × List β)) (k : Aid) (v : β) : List (Aid × List β) :=
  match d with
  | [] => [(k, [v])]
  | (k', l) :: rest => if k' = k then (k', l ++ [v]) :: rest else (k', l) :: appendTo rest k v

def appendAll {β : Type} (d : List (Aid × List β)) (kvs : List (Aid × β)) : List (Aid × List β) :=
  kvs.foldl (fun acc p => appendTo acc p.1 p.2) d

structure Query (α ω : Type) where
  agent  : Aid
  policy : Nat
  obs    : ω
  action : α

structure EpRec (α ω ι : Type) where
  observations : List (Aid × List ω) := []
  actions      : List (Aid × List α) := []
  rewards      : List (Aid × List Int) := []
  dones        : List (Aid × List Bool) := []
  allDones     : List Bool := []                 -- the `'__all__'` series inside `dones`
  /-- ghost: every manager call made, in order -/
  trace        : List (Entry α ω ι) := []
  /-- ghost: the policy queries of each loop iteration -/
  queries      : List (List (Query α ω)) := []
  /-- an exception escaped `generate_episode` -/
  err          : Option Err := none

/-- the policies: `policy_mapping_fn` and `compute_action` of the mapped policy -/
structure Policies (α ω : Type) where
  pmap : Aid → Nat
  act  : Nat → ω → α

def askAll (P : Policies α ω) (obs : List (Aid × ω)) : List (Query α ω) :=
  obs.map fun p => ⟨p.1, P.pmap p.1, p.2, P.act (P.pmap p.1) p.2⟩

/-- the `for j in range(horizon)` loop -/
def episodeLoop (S : SimIface σ α ω ι) (k : MKind) (P : Policies α ω) :
    Nat → List (Aid × ω) → MState σ → EpRec α ω ι → EpRec α ω ι
  | 0, _, _, r => r
  | j + 1, obs, m, r =>
    let qs := askAll P obs
    let acts := qs.map fun q => (q.agent, q.action)
    let step := runOp S k m (.step acts)
    let r1 := { r with trace := r.trace ++ [step.1], queries := r.queries ++ [qs] }
    match step.1.res with
    | .stepOk out =>
      let r2 := { r1 with observations := appendAll r1.observations out.obs,
                          rewards := appendAll r1.rewards out.rewards,
                          actions := appendAll r1.actions acts,
                          dones := appendAll r1.dones out.dones,
                          allDones := r1.allDones ++ [out.allDone] }
      if out.allDone then r2
      else
        -- `del obs[agent_id]` for every agent reported done
        let obs' := out.obs.filter fun p => !((out.dones.lookup p.1).getD false)
        episodeLoop S k P j obs' step.2 r2
    | .err e => { r1 with err := some e }
    | .resetOk _ => { r1 with err := some .crash }

def generateEpisode (S : SimIface σ α ω ι) (k : MKind) (P : Policies α ω) (horizon : Nat)
    (m : MState σ) : EpRec α ω ι :=
  let reset := runOp (α := α) S k m .reset
  match reset.1.res with
  | .resetOk obs =>
    let r0 : EpRec α ω ι :=
      { observations := obs.map (fun p => (p.1, [p.2])), trace := [reset.1] }
    episodeLoop S k P horizon obs reset.2 r0
  | .err e => { trace := [reset.1], err := some e }
  | .stepOk _ => { trace := [reset.1], err := some .crash }

/-- the manager state after the calls of a record (replays the recorded operations) -/
def stateAfter (S : SimIface σ α ω ι) (k : MKind) : MState σ → List (Op α) → MState σ
  | m, [] => m
  | m, op :: ops => stateAfter S k (runOp S k m op).2 ops

/-- `DebugTrainer.train(iterations, horizon=h)`: one `generate_episode(horizon=h)` per iteration on
the same manager -/
def trainEpisodes (S : SimIface σ α ω ι) (k : MKind) (P : Policies α ω) (horizon : Nat) :
    Nat → MState σ → List (EpRec α ω ι)
  | 0, _ => []
  | n + 1, m =>
    let r := generateEpisode S k P horizon m
    r :: trainEpisodes S k P horizon n (stateAfter S k m (r.trace.map (·.op)))

/-- `_check_agent_policy_alignment`: every learning agent's spaces equal its mapped policy's
(spaces are compared by `==` in Python; here they are abstract identifiers) -/
def checkAlignment (n : Nat) (learning : Aid → Bool) (pmap : Aid → Nat)
    (agentObsSpace agentActSpace : Aid → Nat) (polObsSpace polActSpace : Nat → Nat) : Bool :=
  (List.range n).all fun a =>
    !learning a || (agentActSpace a == polActSpace (pmap a) && agentObsSpace a == polObsSpace (pmap a))

end Abmarl
