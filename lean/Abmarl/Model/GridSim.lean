import Abmarl.Model.Resets
import Abmarl.Model.Attacks
import Abmarl.Spec.Grid
/-!
# A grid-world simulation as a sequence of component calls

`SmartGridWorldSimulation.reset` resets every state component; the `step` of a simulation built
from the library's components (the example simulations, `abmarl/examples/sim/*.py`) hands each
*active* agent's action to the actors, one call after the other:

```python
for agent_id, action in action_dict.items():
    agent = self.agents[agent_id]
    if agent.active:
        ... self.attack_actor.process_action(agent, action) ...
for agent_id, action in action_dict.items():
    agent = self.agents[agent_id]
    if agent.active:
        ... self.move_actor.process_action(agent, action) ...
```

Whatever the interleaving chosen by a particular `step`, the history of the world is a sequence of
`GOp`s: a move call, an attack call, or a reset of a set of state components (in some order).  Each
operation carries the oracle tape its random draws consume.
-/
namespace Abmarl
open World

/-- one operation on the world -/
inductive GOp where
  | move (c : MoveCall)
  | attack (cfg : AttackCfg) (a : Aid) (act : AttackAct)
  | reset (cs : List StateComp)

/-- run one operation.  `step` skips agents that are not active (`if agent.active:`) and agents the
simulation does not have; a move action is a point of the mover's action space (anything else is
not a move the simulation can be asked for, and is skipped here). -/
def runGOp (w : World) (t : Tape) : GOp → Except GErr World
  | .move c =>
    if decide (c.agent < w.n) && (w.stOf c.agent).active && c.inSpace w then
      (runMoveCall w c).map fun o => o.post
    else .ok w
  | .attack cfg a act =>
    if decide (a < w.n) && (w.stOf a).active then
      (processAttack cfg w a act t).map fun r => r.2.1
    else .ok w
  | .reset cs => (applyComps cs w t).map fun r => r.1

/-- run a history; an operation that raises ends it -/
def runGOps : World → List (GOp × Tape) → Except GErr World
  | w, [] => .ok w
  | w, (op, t) :: rest =>
    match runGOp w t op with
    | .error e => .error e
    | .ok w' => runGOps w' rest

/-- the same, keeping every intermediate world (the driver compares each with the implementation) -/
def traceGOps : World → List (GOp × Tape) → List (Except GErr World)
  | _, [] => []
  | w, (op, t) :: rest =>
    match runGOp w t op with
    | .error e => [.error e]
    | .ok w' => .ok w' :: traceGOps w' rest

/-! ## One tape threaded through a sequence of operations

`runGOps` gives every operation its own tape (the harness re-seeds the oracle before each component
call).  Inside ONE `step()` / `reset()` of a simulation the random draws of successive component
calls come from one stream: `runGOpSeq` returns what an operation left of the tape, `runGOpsSeq`
hands it on to the next one.  (Moves draw nothing.) -/

/-- one operation, returning the world **and the rest of the tape** -/
def runGOpSeq (w : World) (t : Tape) : GOp → Except GErr (World × Tape)
  | .move c =>
    if decide (c.agent < w.n) && (w.stOf c.agent).active && c.inSpace w then
      (runMoveCall w c).map fun o => (o.post, t)
    else .ok (w, t)
  | .attack cfg a act =>
    if decide (a < w.n) && (w.stOf a).active then
      (processAttack cfg w a act t).map fun r => (r.2.1, r.2.2)
    else .ok (w, t)
  | .reset cs => applyComps cs w t

/-- a sequence of operations on ONE tape; an operation that raises ends it -/
def runGOpsSeq : World → Tape → List GOp → Except GErr (World × Tape)
  | w, t, [] => .ok (w, t)
  | w, t, op :: rest =>
    match runGOpSeq w t op with
    | .error e => .error e
    | .ok (w', t') => runGOpsSeq w' t' rest

end Abmarl
