import Abmarl.Model.GridWire
import Abmarl.Spec.Grid
/-!
Driver glue for the mover operations.
request  `(gmove stat dynPre (kind a arg) implOutcome)` with kind ∈ move|cross|drift,
         arg = `(dr dc)` for move, an int otherwise;
outcome  `(ok ret dynPost left)`  (ret: -1 = None, 0 = False, 1 = True; left: value left in the
         action dict) or `(err kind)`;
reply    `(modelOutcome (c12 c03) (c12 c03))` — specs on the model's and on the implementation's
         outcome (1/0, -1 when absent/unparsable); the specs are `specMoveAny` / `specC03MoveAny`, which are
         `specC12` / `specC03Move` for an active mover and say "nothing changes" for a mover that is not active.
-/
namespace Abmarl
namespace GridDriver
open GridWire World

def encRet : Option Bool → Val
  | none => .int (-1) | some false => .int 0 | some true => .int 1

def ret? (v : Val) : Option (Option Bool) :=
  match v with
  | .int (-1) => some none | .int 0 => some (some false) | .int 1 => some (some true) | _ => none

def encOut : Except GErr MoveOut → Val
  | .ok o => .list [.atom "ok", encRet o.ret, encDyn o.post, .int o.left]
  | .error e => .list [.atom "err", encGErr e]

def call? (v : Val) : Option MoveCall := do
  match v with
  | .list [.atom "move", a, d] => pure (.move (← a.nat?) (← pos? d))
  | .list [.atom "cross", a, x] => pure (.cross (← a.nat?) (← x.int?))
  | .list [.atom "drift", a, x] => pure (.drift (← a.nat?) (← x.int?))
  | _ => none

def out? (stat : Val) (v : Val) : Option (Except GErr MoveOut) := do
  match v with
  | .list [.atom "ok", r, dyn, left] =>
    pure (.ok ⟨← ret? r, ← world? stat dyn, ← left.int?⟩)
  | .list [.atom "err", _] => pure (.error .other)
  | _ => none

def b2v (b : Bool) : Val := Val.ofBool b

def handle (args : List Val) : Option Val := do
  match args with
  | [stat, dyn, call, impl] =>
    let w ← world? stat dyn
    let c ← call? call
    let m := runMoveCall w c
    let ms : Val := .list [b2v (specMoveAny w c m), b2v (specC03MoveAny w c m), b2v w.WInv]
    let is : Val :=
      match out? stat impl with
      | some io => .list [b2v (specMoveAny w c io), b2v (specC03MoveAny w c io)]
      | none => .list [.int (-1), .int (-1)]
    pure (.list [encOut m, ms, is])
  | _ => none

end GridDriver
end Abmarl
