import Abmarl.Model.Done
/-!
# M3 `Smart` — `SmartGridWorldSimulation` over abstract components

Transcribed from `abmarl/sim/gridworld/smart.py`.  The simulation only *combines* components,
so they are abstract here:

* a done component is any pair of getters on the simulation state (`DoneIface`); `Model/Done.lean`
  supplies the built-in ones;
* an observer is any function returning the items of its observation dict,
  `[(channel key, value), …]`; a state component is any function on the simulation state;
* `self._dones`, `self._observers`, `self._states` are Python `set`s: the lists below are in the
  set's *iteration order*, which the harness reads at run time and sends as input
  (DESIGN.md §3); every theorem is for every order;
* a component set that was `None` or empty at construction leaves the attribute unset
  (`if dones:`), and every getter that needs it fails its `assert hasattr(..)`: `none` here;
* `any(done.get_done(agent) for done in self._dones)` is lazy: it stops at the first `True`, an
  exception raised before that propagates, one that would be raised after it never happens
  (`anyLazy`);
* `{k: v for observer in self._observers for k, v in observer.get_obs(agent).items()}` is a
  dict built by successive assignments: a repeated key keeps its first *place* and takes the last
  *value* (`dictSet`, `dictOf`);
* `self.rewards` is a dict over the learning agents (`is_agent`), created by `reset` — before the
  first reset the attribute does not exist (`none`, `AttributeError` = `GErr.other`); `get_reward`
  of an entity without an entry is a `KeyError`;
* `step` is abstract in the Python class.  A step is modelled as *any* function on the
  simulation state together with the accruals `self.rewards[a] += x` it makes (this is how every
  packaged subclass uses the accumulator); the theorems quantify over all of them.
-/
namespace Abmarl

/-- any `DoneBaseComponent` -/
structure DoneIface (σ : Type) where
  getDone    : σ → Aid → Except GErr Bool
  getAllDone : σ → Except GErr Bool

/-- a built-in done component inside a simulation whose state shows a world -/
def DoneComp.iface {σ : Type} (worldOf : σ → World) (c : DoneComp) : DoneIface σ :=
  { getDone := fun s a => Done.getDone c (worldOf s) a,
    getAllDone := fun s => Done.getAllDone c (worldOf s) }

/-- `any(f(d) for d in ds)` -/
def anyLazy {δ : Type} (f : δ → Except GErr Bool) : List δ → Except GErr Bool
  | [] => .ok false
  | d :: ds =>
    match f d with
    | .error e => .error e
    | .ok true => .ok true
    | .ok false => anyLazy f ds

section dict
variable {κ υ : Type} [DecidableEq κ]

/-- `d[k] = v` on a dict kept as its item list -/
def dictSet : List (κ × υ) → κ → υ → List (κ × υ)
  | [], k, v => [(k, v)]
  | (k', v') :: rest, k, v => if k' = k then (k', v) :: rest else (k', v') :: dictSet rest k v

/-- the dict obtained by assigning the items one after the other -/
def dictOf (items : List (κ × υ)) : List (κ × υ) := items.foldl (fun d p => dictSet d p.1 p.2) []

/-- the dict comprehension of `get_obs` over the observers' item lists -/
def mergeObs (outs : List (List (κ × υ))) : List (κ × υ) := dictOf outs.flatten

end dict

/-- `self._x = set(); for c in x: self._x.add(…)` happens only `if x:` -/
def componentSet {β : Type} (l : List β) : Option (List β) := if l.isEmpty then none else some l

structure Smart (σ κ υ : Type) where
  n         : Nat
  learning  : Aid → Bool                                  -- `is_agent`
  dones     : Option (List (DoneIface σ))
  observers : Option (List (σ → Aid → List (κ × υ)))
  states    : Option (List (σ → σ))

structure SmartSt (σ : Type) where
  sim     : σ
  rewards : Option (List (Aid × Int)) := none

variable {σ κ υ : Type} [DecidableEq κ]

namespace Smart

/-- `{agent.id: 0 for agent in self.agents.values() if is_agent(agent)}` -/
def zeroRewards (S : Smart σ κ υ) : List (Aid × Int) :=
  ((List.range S.n).filter S.learning).map (fun a => (a, 0))

/-- `reset`: every state component in iteration order, then a fresh reward dict -/
def reset (S : Smart σ κ υ) (s : SmartSt σ) : Except GErr (SmartSt σ) :=
  match S.states with
  | none => .error .assertion
  | some fs => .ok { sim := fs.foldl (fun x f => f x) s.sim, rewards := some S.zeroRewards }

/-- `get_obs` -/
def getObs (S : Smart σ κ υ) (s : SmartSt σ) (a : Aid) : Except GErr (List (κ × υ)) :=
  match S.observers with
  | none => .error .assertion
  | some os =>
    if a < S.n then .ok (mergeObs (os.map (fun o => o s.sim a)))
    else .error .keyError                                  -- `self.agents[agent_id]`

/-- `get_reward`: read and reset -/
def getReward (_S : Smart σ κ υ) (s : SmartSt σ) (a : Aid) : Except GErr (Int × SmartSt σ) :=
  match s.rewards with
  | none => .error .other
  | some r =>
    match r.lookup a with
    | none => .error .keyError
    | some x => .ok (x, { s with rewards := some (dictSet r a 0) })

/-- `get_done` -/
def getDone (S : Smart σ κ υ) (s : SmartSt σ) (a : Aid) : Except GErr Bool :=
  match S.dones with
  | none => .error .assertion
  | some ds =>
    if a < S.n then anyLazy (fun d => d.getDone s.sim a) ds
    else .error .keyError

/-- `get_all_done` -/
def getAllDone (S : Smart σ κ υ) (s : SmartSt σ) : Except GErr Bool :=
  match S.dones with
  | none => .error .assertion
  | some ds => anyLazy (fun d => d.getAllDone s.sim) ds

/-- `self.rewards[a] += x` for each accrual, in order -/
def applyAcc (r : List (Aid × Int)) (acc : List (Aid × Int)) : List (Aid × Int) :=
  acc.foldl (fun r p => dictSet r p.1 ((r.lookup p.1).getD 0 + p.2)) r

/-- a subclass's `step`: it looks up the accumulators it is going to touch, moves the simulation
state by `f` and accrues -/
def step (_S : Smart σ κ υ) (s : SmartSt σ) (f : σ → σ) (acc : List (Aid × Int)) :
    Except GErr (SmartSt σ) :=
  match s.rewards with
  | none => .error .other
  | some r =>
    if acc.all (fun p => (r.lookup p.1).isSome) then
      .ok { sim := f s.sim, rewards := some (applyAcc r acc) }
    else .error .keyError

end Smart

/-! ## Histories and traces -/

inductive SOp (σ : Type) where
  | reset   : SOp σ
  | step    : (σ → σ) → List (Aid × Int) → SOp σ
  | reward  : Aid → SOp σ
  | obs     : Aid → SOp σ
  | done    : Aid → SOp σ
  | allDone : SOp σ

inductive SRes (κ υ : Type) where
  | unit : SRes κ υ
  | int  : Int → SRes κ υ
  | obs  : List (κ × υ) → SRes κ υ
  | bool : Bool → SRes κ υ
  | err  : GErr → SRes κ υ

/-- one call and what could be seen of it from outside -/
structure SEntry (σ κ υ : Type) where
  op      : SOp σ
  res     : SRes κ υ
  /-- ghost: the reward dict after the call -/
  pending : Option (List (Aid × Int))
  /-- ghost: the simulation state after the call -/
  sim     : σ
  /-- ghost: positions (in iteration order) of the state components (`reset`) or observers
  (`get_obs`) that were called during this call, in call order -/
  calls   : List Nat
  /-- ghost: what each of those observer calls returned -/
  outs    : List (List (κ × υ))

def resOfBool {κ υ : Type} : Except GErr Bool → SRes κ υ
  | .ok b => .bool b
  | .error e => .err e

def Smart.runOp (S : Smart σ κ υ) (s : SmartSt σ) : SOp σ → SEntry σ κ υ × SmartSt σ
  | .reset =>
    match S.reset s with
    | .ok s' => (⟨.reset, .unit, s'.rewards, s'.sim, List.range ((S.states.getD []).length), []⟩, s')
    | .error e => (⟨.reset, .err e, s.rewards, s.sim, [], []⟩, s)
  | .step f acc =>
    match S.step s f acc with
    | .ok s' => (⟨.step f acc, .unit, s'.rewards, s'.sim, [], []⟩, s')
    | .error e => (⟨.step f acc, .err e, s.rewards, s.sim, [], []⟩, s)
  | .reward a =>
    match S.getReward s a with
    | .ok (r, s') => (⟨.reward a, .int r, s'.rewards, s'.sim, [], []⟩, s')
    | .error e => (⟨.reward a, .err e, s.rewards, s.sim, [], []⟩, s)
  | .obs a =>
    match S.getObs s a with
    | .ok o =>
      let os := S.observers.getD []
      (⟨.obs a, .obs o, s.rewards, s.sim, List.range os.length, os.map (fun ob => ob s.sim a)⟩, s)
    | .error e => (⟨.obs a, .err e, s.rewards, s.sim, [], []⟩, s)
  | .done a => (⟨.done a, resOfBool (S.getDone s a), s.rewards, s.sim, [], []⟩, s)
  | .allDone => (⟨.allDone, resOfBool (S.getAllDone s), s.rewards, s.sim, [], []⟩, s)

def Smart.runOps (S : Smart σ κ υ) : SmartSt σ → List (SOp σ) → List (SEntry σ κ υ) × SmartSt σ
  | s, [] => ([], s)
  | s, op :: ops =>
    let r := S.runOp s op
    let rest := Smart.runOps S r.2 ops
    (r.1 :: rest.1, rest.2)

end Abmarl
