import Abmarl.Model.Wire
import Abmarl.Spec.Builders
/-! Driver glue for the builder operation (`build`, property C18): wire ↔ model types.
Trusted base.

Request  `(build rows cols (cell…) ((ch enc)…) (extra…) (textcode…) (gridcell…) (explicit…) impl)`
* agent `(id enc pos)`, id `(g ch n)` | `(x k)`, pos `()` | `(r c)`;
* grid cell `n` (None) | `(agent…)`;
* `impl` = `()` or `(array file grid direct reset)`; a builder outcome is
  `(ok rows cols (agent…))` | `(err kind)`, the reset outcome `(ok ((id (r c))…))` | `(err kind)`.

Reply  `((array file grid direct reset) specOnModel specOnImpl (clauseOnModel…) (clauseOnImpl…))`.
A layout whose cell list is not `rows * cols` long is refused (not a numpy array).
-/
namespace Abmarl
namespace BuildersDriver
open Builders

def id? (v : Val) : Option AId := do
  match v with
  | .list [.atom "g", ch, n] => pure (.gen (← ch.nat?) (← n.nat?))
  | .list [.atom "x", k] => pure (.other (← k.nat?))
  | _ => none

def pos? (v : Val) : Option (Option Pos) := do
  match v with
  | .list [] => pure none
  | .list [r, c] => pure (some ((← r.nat?), (← c.nat?)))
  | _ => none

def agent? (v : Val) : Option Agent := do
  match v with
  | .list [i, e, p] => pure { id := ← id? i, enc := ← e.nat?, ipos := ← pos? p }
  | _ => none

def agents? (v : Val) : Option (List Agent) := do (← v.list?).mapM agent?

def reg? (v : Val) : Option Registry := do
  (← v.list?).mapM fun p => do
    match p with
    | .list [ch, e] => pure ((← ch.nat?), (← e.nat?))
    | _ => none

def grid? (v : Val) : Option GridCells := do
  (← v.list?).mapM fun c => do
    match c with
    | .atom "n" => pure none
    | other => pure (some (← agents? other))

def errOf (s : String) : Err :=
  match s with
  | "reservedKey" => .reservedKey
  | "badShape" => .badShape
  | "emptyFile" => .emptyFile
  | "ragged" => .ragged
  | "posMismatch" => .posMismatch
  | "cellTaken" => .cellTaken
  | "noCell" => .noCell
  | "noAgents" => .noAgents
  | _ => .crash

def errStr : Err → String
  | .reservedKey => "reservedKey" | .badShape => "badShape" | .emptyFile => "emptyFile"
  | .ragged => "ragged" | .posMismatch => "posMismatch" | .cellTaken => "cellTaken"
  | .noCell => "noCell" | .noAgents => "noAgents" | .crash => "crash"

def sim? (v : Val) : Option (Except Err Sim) := do
  match v with
  | .list [.atom "ok", r, c, as] =>
    pure (.ok { rows := ← r.nat?, cols := ← c.nat?, agents := ← agents? as })
  | .list [.atom "err", .atom k] => pure (.error (errOf k))
  | _ => none

def placed? (v : Val) : Option (Except Err (List (AId × Pos))) := do
  match v with
  | .list [.atom "ok", ps] =>
    let l ← (← ps.list?).mapM fun p => do
      match p with
      | .list [i, .list [r, c]] => pure ((← id? i), ((← r.nat?), (← c.nat?)))
      | _ => none
    pure (.ok l)
  | .list [.atom "err", .atom k] => pure (.error (errOf k))
  | _ => none

def outcomes? (v : Val) : Option Outcomes := do
  match v with
  | .list [a, f, g, d, r] =>
    pure { array := ← sim? a, file := ← sim? f, grid := ← sim? g, direct := ← sim? d, reset := ← placed? r }
  | _ => none

def encId : AId → Val
  | .gen ch n => .list [.atom "g", Val.ofNat ch, Val.ofNat n]
  | .other k => .list [.atom "x", Val.ofNat k]

def encPos (p : Pos) : Val := .list [Val.ofNat p.1, Val.ofNat p.2]

def encAgent (a : Agent) : Val :=
  .list [encId a.id, Val.ofNat a.enc, match a.ipos with | none => .list [] | some p => encPos p]

def encSim : Except Err Sim → Val
  | .ok s => .list [.atom "ok", Val.ofNat s.rows, Val.ofNat s.cols, .list (s.agents.map encAgent)]
  | .error e => .list [.atom "err", .atom (errStr e)]

def encPlaced : Except Err (List (AId × Pos)) → Val
  | .ok l => .list [.atom "ok", .list (l.map fun p => .list [encId p.1, encPos p.2])]
  | .error e => .list [.atom "err", .atom (errStr e)]

def encOutcomes (o : Outcomes) : Val :=
  .list [encSim o.array, encSim o.file, encSim o.grid, encSim o.direct, encPlaced o.reset]

/-- `(build rows cols cells registry extras text grid explicit impl)` -/
def handle (args : List Val) : Option Val := do
  match args with
  | [rows, cols, cells, reg, extras, text, grid, explicit, impl] =>
    let rows ← rows.nat?
    let cols ← cols.nat?
    let cells ← cells.nats?
    if cells.length ≠ rows * cols then none
    let reg ← reg?  reg
    let extras ← agents? extras
    let text ← text.nats?
    let grid ← grid? grid
    let explicit ← agents? explicit
    let o := runAll rows cols cells reg extras text grid explicit
    let clauses := fun (x : Outcomes) => specClauses rows cols cells reg extras text x
    let spec := fun (x : Outcomes) => specC18 rows cols cells reg extras text x
    let implV ← impl.list?
    let (si, ci) : Val × Val :=
      if implV.isEmpty then (.int (-1), .list [])
      else match outcomes? impl with
        | some io => (Val.ofBool (spec io), .list ((clauses io).map Val.ofBool))
        | none => (.int (-2), .list [])
    pure (.list [encOutcomes o, Val.ofBool (spec o), si, .list ((clauses o).map Val.ofBool), ci])
  | _ => none

end BuildersDriver
end Abmarl
