import Abmarl.Model.GridSim
import Abmarl.Model.Smart
import Abmarl.Model.Observers
/-!
# The packaged example simulations that are built from built-in components

Transcribed statement by statement from `abmarl/examples/sim/`:

| `Which`        | class                          | file                          |
|----------------|--------------------------------|-------------------------------|
| `teamBattle`   | `TeamBattleSim`                | `team_battle_example.py`      |
| `predatorPrey` | `PredatorPreyResourcesSim`     | `predator_prey_resources.py`  |
| `mazeNav`      | `MazeNavigationSim`            | `maze_navigation.py`          |
| `multiMaze`    | `MultiMazeNavigationSim`       | `multi_maze_navigation.py`    |
| `traffic`      | `TrafficCorridorSimulation`    | `traffic_corridor.py`         |

together with what they inherit from `SmartGridWorldSimulation` (`gridworld/smart.py`): `reset`,
`get_obs`, `get_reward`, `get_done`, `get_all_done`, `get_info`.  Every component they call is an
existing model: the state components (`applyComps`, Model/Resets.lean), `MoveActor`
(`World.moveAct`), `BinaryAttackActor` (`processAttack`), the observers (`Observers.getObs`), the
done components (`Done.getDone`, `Done.getAllDone`), and the pieces of the smart simulation
(`anyLazy`, `mergeObs`, `dictSet` of Model/Smart.lean).  Only the glue is new.

**`ReachTheTargetSim`** (`reach_the_target.py`) is modelled in `Model/Reach.lean` on top of this file.  It
has hand-written done components (`TargetDone`, `OnlyAgentLeftDone`) and its `step` takes a runner off the
grid and sets `agent.active = False` while its health stays positive, which breaks the clause "active iff
health positive" of `WInv`: none of the C03 theorems (all stated for `WInv`) applies to the worlds its steps
produce; they are judged by `WInvWeak` at run time (see `Props/Reach.lean` for what is proved).
`MultiCorridor` and `MultiAgentGridSim`: `Model/Corridor.lean`, `Model/MultiGrid.lean`.

## State

`St` = the world (`World`: grid cells, per-agent state, static configuration), the reward dict
(`rewards`; `none` = the attribute does not exist yet: it is created by `reset`), and the rest of the
oracle tape (every random draw of every component call made by `reset` / `step` / `get_obs` is
popped from this ONE tape, in call order).  The classes keep nothing else between calls (the
component objects are stateless apart from the options in `Cfg`).

## Simplifications (all of them)

* **Rewards are integers in units of 1/100.**  Every accrual of the five classes is one of
  `±1`, `±0.1`, `−0.01`, i.e. `±100`, `±10`, `−1` units; the ledger holds the exact sum (a rational
  with denominator 100, kept as its numerator because `SimIface.reward` is `Int`-valued).
  Floating-point rounding of the real sums is **not** modelled.  Correspondence: the harness reads
  the real float `x`, takes `k = round(100·x)` and requires `|100·x − k| < 10⁻⁶` (the rounding error
  of a sum of fewer than 10⁴ such terms is below 10⁻¹¹; a value that is not within 10⁻⁶ of a
  multiple of 1/100 is reported as such, never rounded away), and compares `k` with the model.
* **Calls before the first successful `reset`** (`rewards = none`): the agents have no position
  yet and nearly every call of the real classes raises one exception or another; the model answers
  `GErr.other` to `step`, `get_obs`, `get_reward`, `get_done`, `get_all_done` alike.  No theorem
  and no correspondence case is about such a call.
* **A call that raises leaves the model state unchanged** and the history ends there (`runOps`, as
  `runGOps` does); the real object may have been changed half-way (e.g. the attack of the step that
  then fails has been applied).  The harness ends a history at the first exception and neither dumps
  nor compares what that call left.  What is modelled is *that* and *with which kind of exception*
  the real code raises.  (Before the repairs afc90bd, c275832, fce2c1d the model also carried the
  `ValueError` of `if not attacked_agents:` on a numpy array of two or more victims, the `KeyError` of
  `TeamBattleSim` for a killed entity without ledger entry and the non-accumulator `get_reward` of
  `MultiMazeNavigationSim` — findings C02-E2, C02-E3, C01-E1, found through this model.)
* **The action dict** is the list of its items in insertion order (that order is the loop order
  of `step`), keys are agent indices and are distinct (it is a Python dict); each value is the
  agent's own action dict `{'move': …, 'attack': …}` as the record `Act` — a key the agent's
  actors do not read is never looked at by the real code either, a *missing* key of a supported
  agent (a `KeyError` of the actor) is outside the model: the managers hand on members of the
  declared `Dict` space (C02).
* **`self._states` / `_observers` / `_dones` are Python sets**: `Cfg.observers`, `Cfg.dones` are in
  the iteration order read from the live object; the order of the state components is an argument
  of `reset` (as in `GOp.reset`) — `Cfg.comps` is the order the `SimIface` instance uses.  `none` =
  the attribute is unset (`if states:`), the getters' `assert hasattr(..)` then fails.
  `Smart.reset` of Model/Smart.lean could not be reused as it stands: its state components are
  pure functions, the real ones draw from the tape and may raise; the ledger part is the same
  (`zeroRewards`).
* `is_agent(agent)` is the input `Cfg.learning`; `isinstance(agent, MultiMazeNavigationAgent)` is
  membership in `Cfg.navs`; `self.agents['navigator']`, `self.agents['target']`
  (`MazeNavigationSim`) and `self.position_state.target_agent` (`MultiMazeNavigationSim`) are the
  indices `Cfg.navigator`, `Cfg.target`.
* `**kwargs` of `step` / `reset` / the getters are not modelled (the managers pass none).
* `get_info` returns `{}` for every agent: `Unit`.
* `render` is not modelled.

This file imports only Model files: it is linked into the compiled driver.
-/
namespace Abmarl
namespace Ex
open World

inductive Which where
  | teamBattle | predatorPrey | mazeNav | multiMaze | traffic
deriving Repr, DecidableEq, Inhabited

/-- one agent's action: the dict `{'move': …, 'attack': …}` -/
structure Act where
  move   : Pos := (0, 0)
  attack : AttackAct := .count 0
deriving Repr, DecidableEq, Inhabited

/-- the reward dict, in units of 1/100, as the list of its items -/
abbrev Ledger := List (Aid × Int)

/-- everything about a built simulation object that is not in the `World` -/
structure Cfg where
  which     : Which
  learning  : List Bool                          -- `is_agent`, per agent
  comps     : List StateComp                     -- state components, iteration order
  observers : Option (List Observers.Kind)       -- observer components, iteration order
  dones     : Option (List DoneComp)             -- done components, iteration order
  attack    : AttackCfg := ⟨.binary, [], false⟩  -- `BinaryAttackActor(attack_mapping, stacked_attacks)`
  navigator : Aid := 0
  target    : Aid := 0
  navs      : List Aid := []

structure St where
  w       : World
  rewards : Option Ledger := none
  tape    : Tape := []

def Cfg.isLearning (cfg : Cfg) (a : Aid) : Bool := cfg.learning.getD a false

/-- `{agent.id: 0 for agent in self.agents.values() if is_agent(agent)}` -/
def zeroRewards (cfg : Cfg) (n : Nat) : Ledger :=
  ((List.range n).filter cfg.isLearning).map fun a => (a, 0)

/-- `self.rewards[a] += x` (`-=`): the entry is read first — `KeyError` without one -/
def accrue (r : Ledger) (a : Aid) (x : Int) : Except GErr Ledger :=
  match r.lookup a with
  | none => .error .keyError
  | some v => .ok (dictSet r a (v + x))

/-- a `for` loop whose body may raise -/
def foldE {σ β : Type} (f : σ → β → Except GErr σ) : σ → List β → Except GErr σ
  | s, [] => .ok s
  | s, x :: xs =>
    match f s x with
    | .error e => .error e
    | .ok s' => foldE f s' xs

/-! ## `reset` -/

/-- `for state in self._states: state.reset()` (`MultiMazeNavigationSim`:
`self.position_state.reset()`), then the fresh reward dict.  `order` = the components in the order
in which they are reset. -/
def reset (cfg : Cfg) (order : List StateComp) (s : St) : Except GErr St :=
  if cfg.which != .multiMaze && order.isEmpty then .error .assertion      -- `assert hasattr(self, '_states')`
  else
    match applyComps order s.w s.tape with
    | .error e => .error e
    | .ok (w', t') => .ok { w := w', rewards := some (zeroRewards cfg w'.n), tape := t' }

/-! ## The getters that `step` uses too -/

/-- `SmartGridWorldSimulation.get_done` -/
def smartDone (cfg : Cfg) (w : World) (a : Aid) : Except GErr Bool :=
  match cfg.dones with
  | none => .error .assertion
  | some ds =>
    if a < w.n then anyLazy (fun c => Done.getDone c w a) ds
    else .error .keyError                                  -- `self.agents[agent_id]`

/-- `SmartGridWorldSimulation.get_all_done` -/
def smartAllDone (cfg : Cfg) (w : World) : Except GErr Bool :=
  match cfg.dones with
  | none => .error .assertion
  | some ds => anyLazy (fun c => Done.getAllDone c w) ds

/-- `np.all(self.navigator.position == self.target.position)` -/
def mazeDone (cfg : Cfg) (w : World) : Bool := decide (w.posOf cfg.navigator = w.posOf cfg.target)

/-- `MultiMazeNavigationSim.get_done` -/
def multiDone (cfg : Cfg) (w : World) (a : Aid) : Except GErr Bool :=
  if a < w.n then .ok (decide (w.posOf a = w.posOf cfg.target))       -- `np.array_equal`
  else .error .keyError

def doneW (cfg : Cfg) (w : World) (a : Aid) : Except GErr Bool :=
  match cfg.which with
  | .mazeNav => .ok (mazeDone cfg w)                       -- `return self.get_all_done()`
  | .multiMaze => multiDone cfg w a
  | _ => smartDone cfg w a

def allDoneW (cfg : Cfg) (w : World) : Except GErr Bool :=
  match cfg.which with
  | .mazeNav => .ok (mazeDone cfg w)
  | .multiMaze =>
    -- `all([self.get_done(agent.id) for agent in … if isinstance(agent, MultiMazeNavigationAgent)])`
    match Done.collect (multiDone cfg w) cfg.navs with
    | .error e => .error e
    | .ok l => .ok (l.all id)
  | _ => smartAllDone cfg w

/-! ## `step` -/

/-- what a loop of `step` carries along -/
structure PS where
  w : World
  r : Ledger
  t : Tape

/-- `TeamBattleSim`: `if not attacked_agent.active: if is_agent(victim): rewards[victim] -= 1;
rewards[attacker] += 1` -/
def teamKill (cfg : Cfg) (w : World) (a : Aid) (r : Ledger) (v : Aid) : Except GErr Ledger :=
  if !(w.stOf v).active then
    match (if cfg.isLearning v then accrue r v (-100) else .ok r) with
    | .error e => .error e
    | .ok r1 => accrue r1 a 100
  else .ok r

/-- `PredatorPreyResourcesSim`: `rewards[attacker] += 1; if is_agent(victim): rewards[victim] -= 1` -/
def preyKill (cfg : Cfg) (w : World) (a : Aid) (r : Ledger) (v : Aid) : Except GErr Ledger :=
  if !(w.stOf v).active then
    match accrue r a 100 with
    | .error e => .error e
    | .ok r1 => if cfg.isLearning v then accrue r1 v (-100) else .ok r1
  else .ok r

/-- one pass of the attack loop of `TeamBattleSim.step` / `PredatorPreyResourcesSim.step` -/
def attack1 (cfg : Cfg) (p : PS) (x : Aid × Act) : Except GErr PS :=
  if p.w.n ≤ x.1 then .error .keyError                      -- `agent = self.agents[agent_id]`
  else if (p.w.stOf x.1).active then                       -- `if agent.active:`
    match processAttack cfg.attack p.w x.1 x.2.attack p.t with
    | .error e => .error e
    | .ok ((status, H), w', t') =>
      if status then                                       -- attack was attempted
        if H.isEmpty then                                  -- `if len(attacked_agents) == 0:` attack failed
          (accrue p.r x.1 (-10)).map fun r => ⟨w', r, t'⟩
        else
          (foldE (if cfg.which == .predatorPrey then preyKill cfg w' x.1 else teamKill cfg w' x.1) p.r H).map
            fun r => ⟨w', r, t'⟩
      else .ok ⟨w', p.r, t'⟩
  else .ok p

/-- `move_result = self.move_actor.process_action(agent, action)`;
`if not move_result: self.rewards[agent.id] -= 0.1` (`None`, the answer for an agent that is not a
`MovingAgent`, is falsy too) -/
def moveAcc (p : PS) (a : Aid) (d : Pos) : Except GErr PS :=
  match p.w.moveAct a d with
  | .error e => .error e
  | .ok (res, w') =>
    if res = some true then .ok ⟨w', p.r, p.t⟩
    else (accrue p.r a (-10)).map fun r => ⟨w', r, p.t⟩

/-- one pass of the move loop of `TeamBattleSim.step` / `PredatorPreyResourcesSim.step` -/
def moveGuarded1 (p : PS) (x : Aid × Act) : Except GErr PS :=
  if p.w.n ≤ x.1 then .error .keyError
  else if (p.w.stOf x.1).active then moveAcc p x.1 x.2.move
  else .ok p

/-- `for agent_id in action_dict: self.rewards[agent_id] -= 0.01` -/
def entropy1 (p : PS) (x : Aid × Act) : Except GErr PS :=
  (accrue p.r x.1 (-1)).map fun r => ⟨p.w, r, p.t⟩

/-- `TeamBattleSim.step`, `PredatorPreyResourcesSim.step`: attacks, then moves, then the penalty -/
def stepBattle (cfg : Cfg) (p : PS) (acts : List (Aid × Act)) : Except GErr PS :=
  match foldE (attack1 cfg) p acts with
  | .error e => .error e
  | .ok p1 =>
    match foldE moveGuarded1 p1 acts with
    | .error e => .error e
    | .ok p2 => foldE entropy1 p2 acts

/-- `MazeNavigationSim.step` -/
def stepMaze (cfg : Cfg) (p : PS) (acts : List (Aid × Act)) : Except GErr PS :=
  match acts.lookup cfg.navigator with
  | none => .error .keyError                               -- `action_dict['navigator']`
  | some act =>
    match moveAcc p cfg.navigator act.move with            -- no `if agent.active`
    | .error e => .error e
    | .ok p1 =>
      match (if mazeDone cfg p1.w then accrue p1.r cfg.navigator 100 else .ok p1.r) with
      | .error e => .error e
      | .ok r1 => (accrue r1 cfg.navigator (-1)).map fun r => ⟨p1.w, r, p1.t⟩

/-- one pass of the loop of `MultiMazeNavigationSim.step`: the move, `if self.get_done(agent_id):
self.reward[agent_id] += 1`, the entropy penalty -/
def multi1 (cfg : Cfg) (p : PS) (x : Aid × Act) : Except GErr PS :=
  if p.w.n ≤ x.1 then .error .keyError
  else
    match moveAcc p x.1 x.2.move with                      -- no `if agent.active`
    | .error e => .error e
    | .ok p1 =>
      match multiDone cfg p1.w x.1 with                    -- `if self.get_done(agent_id):`
      | .error e => .error e
      | .ok d =>
        match (if d then accrue p1.r x.1 100 else .ok p1.r) with
        | .error e => .error e
        | .ok r1 => (accrue r1 x.1 (-1)).map fun r => ⟨p1.w, r, p1.t⟩

/-- one pass of the loop of `TrafficCorridorSimulation.step` -/
def traffic1 (cfg : Cfg) (p : PS) (x : Aid × Act) : Except GErr PS :=
  if p.w.n ≤ x.1 then .error .keyError
  else
    match moveAcc p x.1 x.2.move with                      -- no `if agent.active`
    | .error e => .error e
    | .ok p1 =>
      match smartDone cfg p1.w x.1 with                    -- `if self.get_done(agent_id):`
      | .error e => .error e
      | .ok true => (accrue p1.r x.1 100).map fun r => ⟨p1.w, r, p1.t⟩
      | .ok false => .ok p1

def stepPS (cfg : Cfg) (p : PS) (acts : List (Aid × Act)) : Except GErr PS :=
  match cfg.which with
  | .teamBattle | .predatorPrey => stepBattle cfg p acts
  | .mazeNav => stepMaze cfg p acts
  | .multiMaze => foldE (multi1 cfg) p acts
  | .traffic => foldE (traffic1 cfg) p acts

/-- `step(action_dict)` -/
def step (cfg : Cfg) (s : St) (acts : List (Aid × Act)) : Except GErr St :=
  match s.rewards with
  | none => .error .other
  | some r =>
    match stepPS cfg ⟨s.w, r, s.tape⟩ acts with
    | .error e => .error e
    | .ok p => .ok { w := p.w, rewards := some p.r, tape := p.t }

/-- the component calls `step` makes on the world, in call order (`E_step_is_history`) -/
def stepOps (cfg : Cfg) (acts : List (Aid × Act)) : List GOp :=
  match cfg.which with
  | .teamBattle | .predatorPrey =>
    acts.map (fun x => GOp.attack cfg.attack x.1 x.2.attack) ++
    acts.map (fun x => GOp.move (.move x.1 x.2.move))
  | .mazeNav =>
    match acts.lookup cfg.navigator with
    | none => []
    | some act => [GOp.move (.move cfg.navigator act.move)]
  | .multiMaze | .traffic => acts.map (fun x => GOp.move (.move x.1 x.2.move))

/-! ## The getters -/

def getDone (cfg : Cfg) (s : St) (a : Aid) : Except GErr Bool :=
  match s.rewards with
  | none => .error .other
  | some _ => doneW cfg s.w a

def getAllDone (cfg : Cfg) (s : St) : Except GErr Bool :=
  match s.rewards with
  | none => .error .other
  | some _ => allDoneW cfg s.w

/-- the value `get_reward(a)` returns: `self.rewards[agent_id]` (`MultiMazeNavigationSim`:
`self.reward[agent_id]`) -/
def rewardVal (r : Ledger) (a : Aid) : Except GErr Int :=
  match r.lookup a with
  | none => .error .keyError
  | some x => .ok x

/-- `get_reward`: the value, then `self.rewards[agent_id] = 0` — the same in all five classes -/
def getReward (_cfg : Cfg) (s : St) (a : Aid) : Except GErr (Int × St) :=
  match s.rewards with
  | none => .error .other
  | some r =>
    match rewardVal r a with
    | .error e => .error e
    | .ok x => .ok (x, { s with rewards := some (dictSet r a 0) })

def keyOf : Observers.Kind → String
  | .absolute => "absolute_encoding"
  | .centered _ => "position_centered_encoding"
  | .stacked => "stacked_position_centered_encoding"
  | .position => "position"
  | .ammo => "ammo"

/-- the items of the dict an observer returns: `{self.key: obs}`, or `{}` for an unsupported agent -/
def itemsOf (k : Observers.Kind) : Observers.Obs → List (String × Observers.Obs)
  | .unsupported => []
  | o => [(keyOf k, o)]

/-- `observer.get_obs(agent)` for every observer in iteration order, on one tape -/
def obsOuts (w : World) (a : Aid) : List Observers.Kind → Tape →
    Except GErr (List (List (String × Observers.Obs)) × Tape)
  | [], t => .ok ([], t)
  | k :: ks, t =>
    match Observers.getObs w a k t with
    | .error e => .error e
    | .ok (o, t1) =>
      match obsOuts w a ks t1 with
      | .error e => .error e
      | .ok (rest, t2) => .ok (itemsOf k o :: rest, t2)

/-- `get_obs`: `{k: v for observer in self._observers for k, v in observer.get_obs(agent).items()}` -/
def getObs (cfg : Cfg) (s : St) (a : Aid) : Except GErr (List (String × Observers.Obs) × St) :=
  match s.rewards with
  | none => .error .other
  | some _ =>
    match cfg.observers with
    | none => .error .assertion
    | some ks =>
      if a < s.w.n then
        match obsOuts s.w a ks s.tape with
        | .error e => .error e
        | .ok (outs, t') => .ok (mergeObs outs, { s with tape := t' })
      else .error .keyError

/-! ## Histories and traces (what the driver runs and compares) -/

inductive EOp where
  | reset   (order : List StateComp) (tape : Tape)
  | step    (acts : List (Aid × Act)) (tape : Tape)
  | obs     (a : Aid) (tape : Tape)
  | rew     (a : Aid)
  | done    (a : Aid)
  | allDone

inductive ERes where
  | unit
  | int  (r : Int)
  | obs  (o : List (String × Observers.Obs))
  | bool (b : Bool)
  | err  (e : GErr)
deriving Repr, DecidableEq

/-- one call and what can be seen of the simulation afterwards (read without side effects) -/
structure EEntry where
  res     : ERes
  w       : World
  rewards : Option Ledger

def resOfBool : Except GErr Bool → ERes
  | .ok b => .bool b
  | .error e => .err e

/-- one call; the tape an operation carries replaces what was left (the harness scripts the oracle
anew for each call of a history) -/
def runOp (cfg : Cfg) (s : St) : EOp → EEntry × St
  | .reset order tape =>
    match reset cfg order { s with tape := tape } with
    | .ok s' => (⟨.unit, s'.w, s'.rewards⟩, s')
    | .error e => (⟨.err e, s.w, s.rewards⟩, s)
  | .step acts tape =>
    match step cfg { s with tape := tape } acts with
    | .ok s' => (⟨.unit, s'.w, s'.rewards⟩, s')
    | .error e => (⟨.err e, s.w, s.rewards⟩, s)
  | .obs a tape =>
    match getObs cfg { s with tape := tape } a with
    | .ok (o, s') => (⟨.obs o, s'.w, s'.rewards⟩, s')
    | .error e => (⟨.err e, s.w, s.rewards⟩, s)
  | .rew a =>
    match getReward cfg s a with
    | .ok (r, s') => (⟨.int r, s'.w, s'.rewards⟩, s')
    | .error e => (⟨.err e, s.w, s.rewards⟩, s)
  | .done a => (⟨resOfBool (getDone cfg s a), s.w, s.rewards⟩, s)
  | .allDone => (⟨resOfBool (getAllDone cfg s), s.w, s.rewards⟩, s)

def ERes.isErr : ERes → Bool
  | .err _ => true
  | _ => false

/-- a history; it ends with the first call that raises (the real object may have been changed
half-way: nothing after that is modelled) -/
def runOps (cfg : Cfg) : St → List EOp → List EEntry × St
  | s, [] => ([], s)
  | s, op :: ops =>
    let r := runOp cfg s op
    if r.1.res.isErr then ([r.1], r.2)
    else
      let rest := runOps cfg r.2 ops
      (r.1 :: rest.1, rest.2)

/-! ## The simulation as a `SimIface` (what the managers drive)

`SimIface` is total.  A call of the model that raises is answered by leaving the state unchanged
(see the header); a getter that raises is answered by the explicit values below — `done := false`,
reward `0`, the observation is the `Except` itself.  `Props/Examples.lean` shows that none of this
is ever used in a reachable state with actions of the declared spaces
(`examples_step_noRaise`, `examples_get_reward_total`, `examples_observations_in_space`,
`Ex.smartDone_ok`); a `reset` may genuinely fail (a placement state that finds no cell). -/

abbrev ObsOut := Except GErr (List (String × Observers.Obs))

/-- what `get_reward` would deliver next (ghost of the manager theorems) -/
def pendingOf (_cfg : Cfg) (s : St) (a : Aid) : Int :=
  match s.rewards with
  | none => 0
  | some r =>
    match rewardVal r a with
    | .ok x => x
    | .error _ => 0

def toSimIface (cfg : Cfg) (n : Nat) : SimIface St Act ObsOut Unit where
  n := n
  learning := cfg.isLearning
  reset := fun s => match reset cfg cfg.comps s with | .ok s' => s' | .error _ => s
  step := fun s acts => match step cfg s acts with | .ok s' => s' | .error _ => s
  obs := fun s a => match getObs cfg s a with | .ok (o, s') => (.ok o, s') | .error e => (.error e, s)
  reward := fun s a => match getReward cfg s a with | .ok (x, s') => (x, s') | .error _ => (0, s)
  done := fun s a => match getDone cfg s a with | .ok b => b | .error _ => false
  allDone := fun s => match getAllDone cfg s with | .ok b => b | .error _ => false
  info := fun _ _ => ()
  next := fun _ => []
  pending := pendingOf cfg

end Ex
end Abmarl
