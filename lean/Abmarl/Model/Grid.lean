import Abmarl.Model.Managers
/-!
# M3 — the grid world: cells, agents, primitive operations

Transcribed from `abmarl/sim/gridworld/grid.py` and the setters of
`abmarl/sim/gridworld/agent.py`.

* agents are indices into `cfg`/`st` (listing order of the simulation's `agents` dict);
* a cell is the list of agent indices in *insertion order* (the Python cell is a dict
  `id → agent`: re-inserting a present id keeps its place, deleting erases it);
* the cell table is stored explicitly **and** every agent carries its `pos`, because C03 is
  precisely the statement that the two never drift apart;
* health is an exact rational (the harness feeds dyadic values on which IEEE arithmetic is
  exact, DESIGN.md §3);
* `remove` of an agent that is not in the cell is the explicit error the Python raises
  (`KeyError`), never a silent no-op.
-/
namespace Abmarl

abbrev Pos := Int × Int

/-- static configuration of an agent (what the constructors validate, C19) -/
structure AgentCfg where
  enc        : Int := 1
  blocking   : Bool := false
  initPos    : Option Pos := none
  initHealth : Option Rat := none
  moving     : Bool := false
  moveRange  : Nat := 0
  attacking  : Bool := false
  attackRange : Nat := 0
  strength   : Rat := 0
  accuracy   : Rat := 1
  simAttacks : Nat := 1
  hasAmmo    : Bool := false
  initAmmo   : Int := 0
  hasOrient  : Bool := false
  initOrient : Option Nat := none
  observing  : Bool := false
  viewRange  : Nat := 0
deriving Repr, Inhabited, DecidableEq

/-- dynamic state of an agent -/
structure AgentSt where
  pos    : Pos := (0, 0)
  health : Rat := 1
  active : Bool := true
  ammo   : Int := 0
  orient : Nat := 1
deriving Repr, Inhabited, DecidableEq

structure World where
  rows    : Nat
  cols    : Nat
  overlap : List (Int × List Int)     -- the grid's (already symmetrised) overlapping table
  cells   : List (List Aid)           -- row-major, length rows*cols
  cfg     : List AgentCfg
  st      : List AgentSt
deriving Repr, Inhabited, DecidableEq

inductive GErr where
  | keyError      -- `del cell[id]` of an absent id, lookup of an absent encoding, …
  | badIndex      -- a cell outside the grid was addressed (callers always guard)
  | assertion     -- an `assert` of the component failed
  | noCell        -- placement: "Could not find a cell"
  | other
deriving Repr, DecidableEq, Inhabited

namespace World

def n (w : World) : Nat := w.cfg.length
def cfgOf (w : World) (a : Aid) : AgentCfg := w.cfg.getD a {}
def stOf (w : World) (a : Aid) : AgentSt := w.st.getD a {}
def encOf (w : World) (a : Aid) : Int := (w.cfgOf a).enc

def inGrid (w : World) (p : Pos) : Bool :=
  decide (0 ≤ p.1) && decide (p.1 < w.rows) && decide (0 ≤ p.2) && decide (p.2 < w.cols)

/-- row-major index of an in-grid position -/
def idx (w : World) (p : Pos) : Nat := p.1.toNat * w.cols + p.2.toNat

def cell (w : World) (p : Pos) : List Aid := w.cells.getD (w.idx p) []

def setSt (w : World) (a : Aid) (s : AgentSt) : World := { w with st := w.st.set a s }

/-- `Grid.reset`: every cell becomes an empty dict -/
def gridReset (w : World) : World := { w with cells := List.replicate (w.rows * w.cols) [] }

/-- may an agent of encoding `e` share a cell with these occupants? (`Grid.query` on a
non-empty cell; a missing key in the overlapping table is the caught `KeyError` → False) -/
def mayJoin (w : World) (e : Int) (occ : List Aid) : Bool :=
  match w.overlap.lookup e with
  | none => false
  | some s => occ.all (fun o => decide (w.encOf o ∈ s))

/-- `Grid.query(agent, ndx)` -/
def query (w : World) (a : Aid) (p : Pos) : Bool :=
  let occ := w.cell p
  if occ.isEmpty then true else w.mayJoin (w.encOf a) occ

/-- `Grid.place(agent, ndx)`: returns success and the new world -/
def place (w : World) (a : Aid) (p : Pos) : Bool × World :=
  if w.query a p then
    let occ := w.cell p
    let occ' := if a ∈ occ then occ else occ ++ [a]
    (true, { w with cells := w.cells.set (w.idx p) occ',
                    st := w.st.set a { w.stOf a with pos := p } })
  else (false, w)

/-- `Grid.remove(agent, ndx)` -/
def remove (w : World) (a : Aid) (p : Pos) : Except GErr World :=
  if a ∈ w.cell p then .ok { w with cells := w.cells.set (w.idx p) ((w.cell p).erase a) }
  else .error .keyError

/-- the `health` setter: clamp to [0,1], and it is the only writer of `active` among the
built-in components -/
def setHealth (w : World) (a : Aid) (v : Rat) : World :=
  let h := min (max v 0) 1
  w.setSt a { w.stOf a with health := h, active := decide (0 < h) }

/-- the `ammo` setter -/
def setAmmo (w : World) (a : Aid) (v : Int) : World :=
  w.setSt a { w.stOf a with ammo := if v < 0 then 0 else v }

end World
end Abmarl
