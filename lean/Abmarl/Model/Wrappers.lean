import Abmarl.Model.Managers
import Abmarl.Model.Spaces
import Abmarl.Model.StubSim
import Abmarl.Model.Movers
/-!
# M4 — space-converting wrappers (C06)

Transcribed from `abmarl/sim/wrappers/{wrapper,sar_wrapper,ravel_discrete_wrapper,flatten_wrapper}.py`
and `abmarl/sim/gridworld/wrapper.py`.

* `sarSim S dec enc` — `SARWrapper` as a functor on `SimIface`: `step` decodes *every* action of
  the dictionary (in its order, with the *inner* simulation's agent as reference) and only then calls
  the inner `step`; `get_obs` encodes the inner observation; `wrap_reward` is the identity; everything
  else is forwarded (`Wrapper`).  The wrapper has no state of its own, so the state type is the inner
  simulation's.  A failing decode raises before the inner simulation is touched: `sarStep` /
  `sarCall` are `Except`-valued; the `step` field of the `SimIface` (which is total by type) leaves
  the state unchanged in that case — exactly what the Python object's state does.
  (`next` is forwarded too; the Python `Wrapper` has no `next_agent`, so the dynamic-order manager
  refuses wrapped simulations — the field is inert for the other two managers.)
* `ravelSim`, `flattenSim`, `flattenActionSim` — the three instances (`unravel`/`ravel`,
  `unflatten`/`flatten`, `unflatten`/identity), with the spaces of the inner agents as reference.
* `WCall`, `SRet`, `simCall`, `sarCall`, `runWith` — call sequences on a simulation and their
  traces (returned value and, as a ghost, the argument the inner `step` received).
* `SimObj`, `unwrapped` — a stack of wrappers as a list of layers around a base simulation;
  `Wrapper.unwrapped` is `try: return self.sim.unwrapped except AttributeError: return self.sim`.
* `actorWrap` — `ActorWrapper.process_action` around an arbitrary model actor; `ravelActor`
  (`RavelActionWrapper`), `exclusiveActor` (`ExclusiveChannelActionWrapper`).
* `exclWrapSpace`, `exclDecode` (`wrap_point`), `exclEncode` (`unwrap_point`) — the exclusive-channel
  encoding, transcribed loop for loop: channel order = the Dict's key order, the zero-ravel of each
  channel except the first is skipped (`point - n + 1`), a point beyond the last channel leaves the
  loop with the last channel selected (the Python loop variable keeps its last value).
* `spaceStub` — the scripted stub with generated nested action / observation spaces
  (Lean side of `harness/stub_sim.py: SpaceStubSim`).
-/
namespace Abmarl

/-! ## the SAR wrapper as a functor -/

section sar
variable {σ α α' ω ω' ι : Type}

/-- `{agent_id: self.wrap_action(self.sim.agents[agent_id], action) for agent_id, action in
action_dict.items()}`: every action is decoded, in order, before `sim.step` is called; the first
failure raises -/
def decodeAll (dec : Aid → α' → Except Err α) : List (Aid × α') → Except Err (List (Aid × α))
  | [] => .ok []
  | p :: rest =>
    match dec p.1 p.2 with
    | .error e => .error e
    | .ok y =>
      match decodeAll dec rest with
      | .error e => .error e
      | .ok r => .ok ((p.1, y) :: r)

/-- `SARWrapper.step` -/
def sarStep (S : SimIface σ α ω ι) (dec : Aid → α' → Except Err α) (s : σ)
    (acts : List (Aid × α')) : Except Err σ :=
  match decodeAll dec acts with
  | .ok d => .ok (S.step s d)
  | .error e => .error e

/-- `SARWrapper(sim)` with `wrap_action = dec`, `wrap_observation = enc` -/
def sarSim (S : SimIface σ α ω ι) (dec : Aid → α' → Except Err α) (enc : Aid → ω → ω') :
    SimIface σ α' ω' ι where
  n := S.n
  learning := S.learning
  reset := S.reset
  step := fun s acts =>
    match sarStep S dec s acts with
    | .ok s' => s'
    | .error _ => s
  obs := fun s a => (enc a (S.obs s a).1, (S.obs s a).2)
  reward := S.reward
  done := S.done
  allDone := S.allDone
  info := S.info
  next := S.next
  pending := S.pending

/-- what a caller can do with a simulation -/
inductive WCall (β : Type) where
  | reset
  | step (acts : List (Aid × β))
  | obs (a : Aid)
  | reward (a : Aid)
  | done (a : Aid)
  | allDone
  | info (a : Aid)

/-- what a call returns (`raised` = an exception escaped) -/
inductive SRet (ω ι : Type) where
  | unit
  | obs (a : Aid) (o : ω)
  | reward (r : Int)
  | flag (b : Bool)
  | info (i : ι)
  | raised (e : Err)
deriving Repr

/-- the argument of `step`, if the call is a step -/
def WCall.stepArgs {β : Type} : WCall β → Option (List (Aid × β))
  | .step acts => some acts
  | _ => none

/-- one call on a simulation: returned value, new state, and (ghost) the argument `step` received -/
def simCall (S : SimIface σ α ω ι) (s : σ) : WCall α → SRet ω ι × σ × Option (List (Aid × α))
  | .reset => (.unit, S.reset s, none)
  | .step acts => (.unit, S.step s acts, some acts)
  | .obs a => (.obs a (S.obs s a).1, (S.obs s a).2, none)
  | .reward a => (.reward (S.reward s a).1, (S.reward s a).2, none)
  | .done a => (.flag (S.done s a), s, none)
  | .allDone => (.flag (S.allDone s), s, none)
  | .info a => (.info (S.info s a), s, none)

/-- one call on the SAR-wrapped simulation as the Python executes it; third component: the
argument the *inner* `step` received (`none`: the inner simulation was not stepped) -/
def sarCall (S : SimIface σ α ω ι) (dec : Aid → α' → Except Err α) (enc : Aid → ω → ω') (s : σ) :
    WCall α' → SRet ω' ι × σ × Option (List (Aid × α))
  | .reset => (.unit, S.reset s, none)
  | .step acts =>
    match decodeAll dec acts with
    | .ok d => (.unit, S.step s d, some d)
    | .error e => (.raised e, s, none)
  | .obs a => (.obs a (enc a (S.obs s a).1), (S.obs s a).2, none)
  | .reward a => (.reward (S.reward s a).1, (S.reward s a).2, none)
  | .done a => (.flag (S.done s a), s, none)
  | .allDone => (.flag (S.allDone s), s, none)
  | .info a => (.info (S.info s a), s, none)

/-- the call the inner simulation sees (`error`: the wrapper raised instead) -/
def decodeCall (dec : Aid → α' → Except Err α) : WCall α' → Except Err (WCall α)
  | .reset => .ok .reset
  | .step acts =>
    match decodeAll dec acts with
    | .ok d => .ok (.step d)
    | .error e => .error e
  | .obs a => .ok (.obs a)
  | .reward a => .ok (.reward a)
  | .done a => .ok (.done a)
  | .allDone => .ok .allDone
  | .info a => .ok (.info a)

/-- the wrapper's view of a value returned by the inner simulation -/
def encRet (enc : Aid → ω → ω') : SRet ω ι → SRet ω' ι
  | .unit => .unit
  | .obs a o => .obs a (enc a o)
  | .reward r => .reward r
  | .flag b => .flag b
  | .info i => .info i
  | .raised e => .raised e

/-- a call that may have been replaced by an exception before reaching the simulation -/
def simCallE (S : SimIface σ α ω ι) (s : σ) :
    Except Err (WCall α) → SRet ω ι × σ × Option (List (Aid × α))
  | .ok c => simCall S s c
  | .error e => (.raised e, s, none)

end sar

/-- run a call sequence with a one-call function: the trace (value, ghost) and the final state -/
def runWith {σ κ ρ γ : Type} (f : σ → κ → ρ × σ × γ) : σ → List κ → List (ρ × γ) × σ
  | s, [] => ([], s)
  | s, c :: cs =>
    let r := f s c
    let rest := runWith f r.2.1 cs
    ((r.1, r.2.2) :: rest.1, rest.2)

/-! ## twin runs: the observable outcome the specification judges -/

/-- outcome of one call on a twin pair (`W` wrapped copy, `T` unwrapped twin) -/
structure WEntry (α' α ω' ω ι : Type) where
  call  : WCall α'                        -- the call made on `W`
  retW  : SRet ω' ι                       -- what `W` returned
  inW   : Option (List (Aid × α))         -- ghost: the argument the inner `step` of `W` received
  isIn  : Bool                            -- `retW in wrapped observation space` (true for non-observations)
  retT  : SRet ω ι                        -- what the twin returned for the mirrored call
  argsT : Option (List (Aid × α))         -- what the twin was stepped with
  stW   : List Int                        -- dump of the inner state of `W` after the call
  stT   : List Int                        -- dump of the twin's state after the call

section twin
variable {σ α α' ω ω' ι : Type}

/-- membership flag of a returned value: only observations are judged -/
def retIn (memW : Aid → ω' → Bool) : SRet ω' ι → Bool
  | .obs a o => memW a o
  | _ => true

/-- one call on the model's twin pair: the wrapped simulation (state `st.1`) gets the call, the
unwrapped twin (state `st.2`) the decoded call -/
def twinCall (S : SimIface σ α ω ι) (dec : Aid → α' → Except Err α) (enc : Aid → ω → ω')
    (memW : Aid → ω' → Bool) (dump : σ → List Int) (st : σ × σ) (c : WCall α') :
    WEntry α' α ω' ω ι × (σ × σ) :=
  let w := sarCall S dec enc st.1 c
  let t := simCallE S st.2 (decodeCall dec c)
  ({ call := c, retW := w.1, inW := w.2.2, isIn := retIn memW w.1, retT := t.1, argsT := t.2.2,
     stW := dump w.2.1, stT := dump t.2.1 }, (w.2.1, t.2.1))

def twinRun (S : SimIface σ α ω ι) (dec : Aid → α' → Except Err α) (enc : Aid → ω → ω')
    (memW : Aid → ω' → Bool) (dump : σ → List Int) : σ × σ → List (WCall α') →
    List (WEntry α' α ω' ω ι)
  | _, [] => []
  | st, c :: cs =>
    let r := twinCall S dec enc memW dump st c
    r.1 :: twinRun S dec enc memW dump r.2 cs

/-- the wrapped side of an entry predicted from the twin's side alone (used when the inner
simulation is real code the model does not contain: the twin's returned value and state dump are
inputs): the right-hand side of the per-call commuting theorem -/
def predictW (dec : Aid → α' → Except Err α) (enc : Aid → ω → ω') (memW : Aid → ω' → Bool)
    (c : WCall α') (retT : SRet ω ι) (stT : List Int) : WEntry α' α ω' ω ι :=
  match decodeCall dec c with
  | .ok d =>
    { call := c, retW := encRet enc retT, inW := d.stepArgs, isIn := retIn memW (encRet enc retT),
      retT := retT, argsT := d.stepArgs, stW := stT, stT := stT }
  | .error e =>
    { call := c, retW := .raised e, inW := none, isIn := true, retT := retT, argsT := none,
      stW := stT, stT := stT }

end twin

/-! ## the three space-converting instances -/

/-- per entity: `(action_space, observation_space)` of the *inner* simulation's agent; `none` for
an entity that is not a learning agent (no spaces) -/
abbrev AgentSpaces := List (Option (Space × Space))

def actSpace? (sp : AgentSpaces) (a : Aid) : Option Space :=
  match sp[a]? with
  | some (some x) => some x.1
  | _ => none

def obsSpace? (sp : AgentSpaces) (a : Aid) : Option Space :=
  match sp[a]? with
  | some (some x) => some x.2
  | _ => none

def optE {β : Type} : Option β → Except Err β
  | some x => .ok x
  | none => .error .crash

/-- `RavelDiscreteWrapper.wrap_action`: `unravel(from_agent.action_space, action)` -/
def ravelDec (sp : AgentSpaces) (a : Aid) (k : Nat) : Except Err Pt :=
  match actSpace? sp a with
  | some s => optE (unravel s k)
  | none => .error .crash                      -- a `PrincipleAgent` has no `action_space`

/-- `RavelDiscreteWrapper.wrap_observation`: `ravel(from_agent.observation_space, observation)`;
`none` = the call raised -/
def ravelEnc (sp : AgentSpaces) (a : Aid) (o : Pt) : Option Int :=
  match obsSpace? sp a with
  | some s => ravel s o
  | none => none

/-- `FlattenWrapper.wrap_action` / `FlattenActionWrapper.wrap_action` -/
def flatDec (sp : AgentSpaces) (a : Aid) (x : List Num) : Except Err Pt :=
  match actSpace? sp a with
  | some s => optE (unflatten s x)
  | none => .error .crash

/-- `FlattenWrapper.wrap_observation` -/
def flatEnc (sp : AgentSpaces) (a : Aid) (o : Pt) : Option (List Num) :=
  match obsSpace? sp a with
  | some s => flatten s o
  | none => none

section inst
variable {σ ι : Type}

/-- `RavelDiscreteWrapper(sim)` -/
def ravelSim (S : SimIface σ Pt Pt ι) (sp : AgentSpaces) : SimIface σ Nat (Option Int) ι :=
  sarSim S (ravelDec sp) (ravelEnc sp)

/-- `FlattenWrapper(sim)` -/
def flattenSim (S : SimIface σ Pt Pt ι) (sp : AgentSpaces) :
    SimIface σ (List Num) (Option (List Num)) ι :=
  sarSim S (flatDec sp) (flatEnc sp)

/-- `FlattenActionWrapper(sim)`: observations pass through -/
def flattenActionSim (S : SimIface σ Pt Pt ι) (sp : AgentSpaces) : SimIface σ (List Num) Pt ι :=
  sarSim S (flatDec sp) (fun _ o => o)

end inst

/-- the constructor of `RavelDiscreteWrapper` for one learning agent: both spaces must pass
`check_space` (assertion), then `ravel_space` of each; result `(action n, observation n)` -/
def ravelInit1 (x : Space × Space) : Option (Nat × Nat) :=
  if checkSpace x.2 && checkSpace x.1 then
    match ravelSpace x.2, ravelSpace x.1 with
    | some (.discrete no _), some (.discrete na _) => some (na, no)
    | _, _ => none
  else none

/-- the constructor of `FlattenWrapper` for one learning agent: `(flatten_space(action_space),
flatten_space(observation_space))` -/
def flatInit1 (x : Space × Space) : Option (FlatBox × FlatBox) :=
  match flattenSpace x.1, flattenSpace x.2 with
  | some a, some o => some (a, o)
  | _, _ => none

/-! ## stacks of wrappers and `unwrapped` -/

inductive Layer where
  | ravel | flatten | flattenAction | superAgent | comm | ravelAction | exclusive | other
deriving Repr, DecidableEq, Inhabited

/-- a simulation (or component) object: a base object, or a wrapper holding another object in
`self.sim` (`self._actor` for a component wrapper) -/
inductive SimObj where
  | base (id : Nat)
  | wrap (l : Layer) (inner : SimObj)
deriving Repr, DecidableEq, Inhabited

/-- attribute lookup `obj.unwrapped`: `none` = `AttributeError` (a base object has no such
attribute); a wrapper answers `try: return self.sim.unwrapped except AttributeError: return self.sim` -/
def SimObj.unwrapped? : SimObj → Option SimObj
  | .base _ => none
  | .wrap _ inner =>
    match inner.unwrapped? with
    | some b => some b
    | none => some inner

/-- wrap `b` in the layers of `stack`, the head of the list outermost -/
def wrapAll (stack : List Layer) (b : SimObj) : SimObj :=
  match stack with
  | [] => b
  | l :: ls => .wrap l (wrapAll ls b)

/-- every object of the chain, outermost first, ending with the base -/
def SimObj.chain : SimObj → List SimObj
  | .base i => [.base i]
  | .wrap l inner => .wrap l inner :: inner.chain

/-- position of `u` in a chain (`-1`: not there) -/
def posOf (u : SimObj) : List SimObj → Int
  | [] => -1
  | x :: xs =>
    if x = u then 0
    else
      let r := posOf u xs
      if r < 0 then -1 else r + 1

def unwrappedIdxAux (ch : List SimObj) : SimObj → List Int
  | .base _ => []
  | .wrap l inner =>
    (match (SimObj.wrap l inner).unwrapped? with
     | some u => posOf u ch
     | none => -1) :: unwrappedIdxAux ch inner

/-- for every wrapper of the chain (outermost first): the position in the chain of the object its
`unwrapped` returns (`-1`: none of them) -/
def unwrappedIdx (o : SimObj) : List Int := unwrappedIdxAux o.chain o

/-! ## the exclusive-channel encoding (`ExclusiveChannelActionWrapper`) -/

/-- `{channel: ravel_space(subspace) for …}` as the list of sizes; `none` = `ravel_space` raised -/
def exclChannels : List Space → Option (List Nat)
  | [] => some []
  | s :: ss =>
    match ravelSpace s with
    | some (.discrete n _) =>
      (match exclChannels ss with
       | some r => some (n :: r)
       | none => none)
    | _ => none

/-- `dims = sum(n) - len(channels) + 1` (Python integers; no channel is empty) -/
def exclDimsL (ns : List Nat) : Nat := sum ns - ns.length + 1

/-- `wrap_space` -/
def exclWrapSpace : Space → Option Space
  | .dict _ ss =>
    match exclChannels ss with
    | some ns => if 0 < exclDimsL ns then some (.discrete (exclDimsL ns) 0) else none
    | none => none
  | _ => none                                        -- `space.spaces`: only a Dict passes `check_space`

/-- the number of wrapped actions (0 when the space cannot be wrapped) -/
def exclDims (s : Space) : Nat :=
  match exclWrapSpace s with
  | some (.discrete n _) => n
  | _ => 0

/-- the search for the activated channel:
`for activated_channel, subspace in …: if point < subspace.n: break; else: point = point - subspace.n + 1`;
returns the index of the activated channel and the remaining point.  Running off the end leaves the
last channel selected. -/
def exclFind : List Nat → Nat → Nat → Nat × Nat
  | [], i, p => (i, p)
  | [n], i, p => if p < n then (i, p) else (i, p - n + 1)
  | n :: n' :: ns, i, p => if p < n then (i, p) else exclFind (n' :: ns) (i + 1) (p - n + 1)

/-- the argument of `unravel` for each channel from index `j` on: the point for the activated
channel, `0` for the others -/
def exclArgs : List Space → Nat → Nat → Nat → List Nat
  | [], _, _, _ => []
  | _ :: ss, j, act, p => (if j = act then p else 0) :: exclArgs ss (j + 1) act p

/-- `wrap_point(space, point)` (wrapped number → action of the wrapped actor) -/
def exclDecode (s : Space) (k : Nat) : Option Pt :=
  match s with
  | .dict keys ss =>
    match exclChannels ss with
    | some ns =>
      let r := exclFind ns 0 k
      (unravelL ss (exclArgs ss 0 r.1 r.2)).map (.dict keys)
    | none => none
  | _ => none

/-- the accumulation loop of `unwrap_point`:
`if v != 0: acc += v; break   else: acc += n - 1`, then `0 if v == 0 else acc` -/
def exclSum : List Nat → List Int → Int → Int
  | n :: ns, v :: vs, acc => if v ≠ 0 then acc + v else exclSum ns vs (acc + (n : Int) - 1)
  | _, _, _ => 0

/-- `unwrap_point(space, point)` (action of the wrapped actor → wrapped number); `none` = raised
(missing key, a channel that cannot be ravelled, or the empty Dict: unbound loop variable) -/
def exclEncode (s : Space) (p : Pt) : Option Int :=
  match s, p with
  | .dict keys ss, .dict pkeys ps =>
    if keys = pkeys then
      match exclChannels ss with
      | some ns =>
        match ravelL ss ps with
        | some vd =>
          if ss.isEmpty then none
          else if vd.1.length = ns.length then some (exclSum ns vd.1 0) else none
        | none => none
      | none => none
    else none
  | _, _ => none

/-! ## actor wrappers around an arbitrary model actor -/

/-- `ActorWrapper.process_action`: `None` (= `.ok none`) for an unsupported agent, otherwise the
action is decoded with the recorded pre-wrap space and handed to the wrapped actor -/
def actorWrap {ρ : Type} (supported : World → Aid → Bool) (fromSpace : Aid → Option Space)
    (dec : Space → Nat → Option Pt) (proc : World → Aid → Pt → ρ) (w : World) (a : Aid) (k : Nat) :
    Except GErr (Option ρ) :=
  if supported w a then
    match fromSpace a with
    | none => .error .keyError                       -- `self.from_space[agent.id]`
    | some sp =>
      match dec sp k with
      | none => .error .other                        -- the decoding raised
      | some p => .ok (some (proc w a p))
  else .ok none

/-- `RavelActionWrapper(actor)` -/
def ravelActor {ρ : Type} (supported : World → Aid → Bool) (fromSpace : Aid → Option Space)
    (proc : World → Aid → Pt → ρ) : World → Aid → Nat → Except GErr (Option ρ) :=
  actorWrap supported fromSpace unravel proc

/-- `ExclusiveChannelActionWrapper(actor)` -/
def exclusiveActor {ρ : Type} (supported : World → Aid → Bool) (fromSpace : Aid → Option Space)
    (proc : World → Aid → Pt → ρ) : World → Aid → Nat → Except GErr (Option ρ) :=
  actorWrap supported fromSpace exclDecode proc

/-- a `Box(-r, r, (2,), int)` point as a grid offset -/
def ptPos? : Pt → Option Pos
  | .arr [.int r, .int c] => some (r, c)
  | _ => none

/-- a `Discrete` point as an integer -/
def ptInt? : Pt → Option Int
  | .scalar (.int x) => some x
  | _ => none

/-- the three move actors fed a *point* of their action space (what a wrapper hands them);
result as in `runMoveCall`: `(return value, post-world, value left in the inner action dict)` -/
def moverPt (kind : Nat) (w : World) (a : Aid) (p : Pt) : Except GErr (Option Bool × World × Int) :=
  match kind with
  | 0 =>
    match ptPos? p with
    | some d => (w.moveAct a d).map fun r => (r.1, r.2, 0)
    | none => .error .other
  | 1 =>
    match ptInt? p with
    | some x => (w.crossAct a x).map fun r => (r.1, r.2, x)
    | none => .error .other
  | _ =>
    match ptInt? p with
    | some x => w.driftAct a x
    | none => .error .other

/-- `_supported_agent` of the three move actors -/
def moverSupported (kind : Nat) (w : World) (a : Aid) : Bool :=
  match kind with
  | 0 => (w.cfgOf a).moving
  | 1 => (w.cfgOf a).moving
  | _ => (w.cfgOf a).moving && (w.cfgOf a).hasOrient

/-- the action space the move actor assigns to a supported agent -/
def moverSpace (kind : Nat) (w : World) (a : Aid) : Space :=
  match kind with
  | 0 =>
    let r : Int := (w.cfgOf a).moveRange
    .box [2] [-r, -r] [r, r] true
  | _ => .discrete 5 0

/-! ## the scripted stub with nested spaces -/

/-- what the stub's reward accrual sees of a number / of an action point -/
def Num.weight : Num → Nat
  | .int i => i.natAbs
  | .flt q => q.num.natAbs + q.den

mutual
def Pt.weight : Pt → Nat
  | .scalar v => v.weight
  | .arr vs => sum (vs.map Num.weight)
  | .dict _ ps => Pt.weightL ps
  | .tuple ps => Pt.weightL ps
def Pt.weightL : List Pt → Nat
  | [] => 0
  | p :: ps => p.weight + Pt.weightL ps
end

structure SpaceScript where
  base   : Script
  spaces : AgentSpaces
  obsPts : List (List Pt)       -- per agent: the observation points the stub cycles through

/-- `SpaceStubSim.get_obs`: point number `(7 t + 3 a + reads) mod len` of the agent's list
(the empty tuple when the list is empty) -/
def spaceObs (sc : SpaceScript) (s : StubSt) (a : Aid) : Pt :=
  let l := sc.obsPts.getD a []
  l.getD ((7 * s.t + 3 * a + s.reads.getD a 0) % l.length) (.tuple [])

/-- the stub whose actions and observations are points of generated spaces; everything else as
`stubSim` (the accrual sees the action through `Pt.weight`) -/
def spaceStub (sc : SpaceScript) (flatEp : Bool := false) : SimIface StubSt Pt Pt (List Int) where
  n := sc.base.n
  learning := fun a => sc.base.learning.getD a false
  reset := fun s =>
    { ep := if flatEp then 1 else s.ep + 1, t := 0, reads := List.replicate sc.base.n 0,
      pend := List.replicate sc.base.n 0 }
  step := fun s acts =>
    let t' := s.t + 1
    { s with t := t',
             pend := (List.range sc.base.n).map (fun a =>
               s.pend.getD a 0 + stubAccr a t' ((acts.lookup a).map fun p => (p.weight : Int))) }
  obs := fun s a => (spaceObs sc s a, { s with reads := bump s.reads a })
  reward := fun s a => (s.pend.getD a 0, { s with pend := s.pend.set a 0 })
  done := fun s a =>
    decide (sc.base.doneAt.getD a 0 ≤ s.t) && !decide (sc.base.undoneAt.getD a 1000000 ≤ s.t)
  allDone := fun s => decide (sc.base.finishAt ≤ s.t)
  info := fun s _ => [(s.t : Int)]
  next := fun s => (sc.base.noms[s.t]?).getD (List.range sc.base.n)
  pending := fun s a => s.pend.getD a 0

/-- dump of the stub's state (what the harness reads from the Python object) -/
def stubDump (s : StubSt) : List Int :=
  [(s.ep : Int), (s.t : Int)] ++ s.reads.map Int.ofNat ++ s.pend

end Abmarl
