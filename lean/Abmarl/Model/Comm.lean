import Abmarl.Model.Managers
import Abmarl.Model.StubSim
/-!
# M1 functor `Comm` — `CommunicationHandshakeWrapper` over an arbitrary simulation

Transcribed after `abmarl/sim/wrappers/communication_wrapper.py` (and `wrapper.py`).

* The wrapped simulation is any `AgentBasedSimulation` whose `get_obs` accepts the keyword
  `fusion_matrix`: `CommIface` is `SimIface` with the observation getter taking the fusion row.
* `message_buffer` / `received_message` (dict receiver → dict sender → bit, own id absent) are
  `n × n` Boolean matrices whose diagonal is unused; towards the outside (the `message_buffer`
  entry of an observation, the `fusion_matrix` handed to the wrapped simulation, the `send` /
  `receive` entries of an action) a row is a *dictionary* `Row = List (Aid × Bool)` keyed by the
  other agents in listing order (`rowDict`), so that "one bit per other agent" is a theorem and not
  an artefact of the representation.  Message values are stored by the code as given (`0/1`,
  `True/False`, numpy integers); they are canonicalised to `Bool`.
* `step` follows the code's order exactly: (1) receive processing for the *acting* agents only,
  against the *current* buffer (`buffer and receive` short-circuits: a missing `receive` key only
  raises when a message is pending); (2) every buffer row cleared; (3) the wrapped simulation steps
  with the original `action` entries, in the same order; (4) send processing of the acting agents.
  Exceptions are modelled with the state the exception leaves behind: `KeyError` for an unknown
  acting agent / missing `receive` key (before the wrapped step), `KeyError` for an unknown
  receiver (after it), `AttributeError` for any call before the first `reset`.
  Not modelled: a self-addressed send (outside the action space; the code then adds the own id as a
  key of the row) — such actions are outside `actsWF` (Spec/Comm.lean) and are never generated.
* call-level interface: `COp` (reset, step, getObs) and `CEntry`, the result of a call plus the
  ghost observations: the argument the wrapped `step` was called with, the fusion row the wrapped
  `get_obs` was called with, and both matrices after the call (all blank for a call that raised).
-/
namespace Abmarl

/-- a `{other_id: bit}` dictionary (keys in listing order) -/
abbrev Row := List (Aid × Bool)
abbrev Matrix := List (List Bool)

/-- Any `AgentBasedSimulation` whose `get_obs(agent_id, fusion_matrix=…)` is fusion aware. -/
structure CommIface (σ α ω ι : Type) where
  n        : Nat
  learning : Aid → Bool
  reset    : σ → σ
  step     : σ → List (Aid × α) → σ
  obsF     : σ → Aid → Row → ω × σ
  reward   : σ → Aid → Int × σ
  done     : σ → Aid → Bool
  allDone  : σ → Bool
  info     : σ → Aid → ι
  next     : σ → List Aid
  pending  : σ → Aid → Int

/-- the wrapped simulation as a plain `SimIface`, once the fusion rows are fixed -/
def CommIface.toSim {σ α ω ι : Type} (S : CommIface σ α ω ι) (rows : Aid → Row) : SimIface σ α ω ι where
  n := S.n
  learning := S.learning
  reset := S.reset
  step := S.step
  obs := fun s a => S.obsF s a (rows a)
  reward := S.reward
  done := S.done
  allDone := S.allDone
  info := S.info
  next := S.next
  pending := S.pending

/-- an action in the augmented action space: `{'action': …, 'send': {…}, 'receive': {…}}` -/
structure CAct (α : Type) where
  action  : α
  send    : Row
  receive : Row
deriving Repr, DecidableEq

/-- an observation in the augmented observation space: `{'obs': …, 'message_buffer': {…}}` -/
structure CObs (ω : Type) where
  obs    : ω
  buffer : Row
deriving Repr, DecidableEq

structure CState (σ : Type) where
  sim      : σ
  /-- `reset` has been called (before that the two attributes do not exist) -/
  started  : Bool := false
  buffer   : Matrix := []
  received : Matrix := []

variable {σ α ω ι : Type}

def mget (m : Matrix) (x y : Aid) : Bool := (m.getD x []).getD y false
def mset (m : Matrix) (x y : Aid) (b : Bool) : Matrix := m.set x ((m.getD x []).set y b)
def mzero (n : Nat) : Matrix := List.replicate n (List.replicate n false)

/-- `[other_id for other_id in self.agents if other_id != my_id]` -/
def others (n : Nat) (x : Aid) : List Aid := (List.range n).filter (fun y => y != x)

/-- row `x` of a matrix as the dictionary the code holds -/
def rowDict (n : Nat) (m : Matrix) (x : Aid) : Row := (others n x).map fun y => (y, mget m x y)

/-- the dict comprehension of the receive processing evaluates without `KeyError`:
the agent is known and every *pending* sender is a key of the `receive` dictionary -/
def recvOK (n : Nat) (buffer : Matrix) (x : Aid) (recv : Row) : Bool :=
  decide (x < n) && (others n x).all fun y => !mget buffer x y || (recv.lookup y).isSome

/-- `{s: True if message_buffer[x][s] and action['receive'][s] else False for s in …}` -/
def recvRow (n : Nat) (buffer : Matrix) (x : Aid) (recv : Row) : List Bool :=
  (List.range n).map fun y => (y != x) && mget buffer x y && (recv.lookup y).getD false

/-- receive processing, acting agents in dictionary order; `false` = a `KeyError` was raised
(the rows assigned before it stay assigned) -/
def procReceives (n : Nat) (buffer : Matrix) : List (Aid × CAct α) → Matrix → Matrix × Bool
  | [], rc => (rc, true)
  | (x, a) :: rest, rc =>
    if recvOK n buffer x a.receive then
      procReceives n buffer rest (rc.set x (recvRow n buffer x a.receive))
    else (rc, false)

/-- `for receiving_agent, message in action['send'].items(): message_buffer[r][s] = message` -/
def procSend1 (n : Nat) (s : Aid) : Row → Matrix → Matrix × Bool
  | [], b => (b, true)
  | (r, msg) :: rest, b => if r < n then procSend1 n s rest (mset b r s msg) else (b, false)

def procSends (n : Nat) : List (Aid × CAct α) → Matrix → Matrix × Bool
  | [], b => (b, true)
  | (s, a) :: rest, b =>
    let r := procSend1 n s a.send b
    if r.2 then procSends n rest r.1 else r

/-- `sim_only_action = {agent_id: action_dict[agent_id]['action'] for agent_id in action_dict}` -/
def simOnly (acts : List (Aid × CAct α)) : List (Aid × α) := acts.map fun p => (p.1, p.2.action)

def commInit (s : σ) : CState σ := { sim := s }

/-- `reset`: both matrices to the null state, then the wrapped simulation is reset -/
def commReset (S : CommIface σ α ω ι) (c : CState σ) : CState σ :=
  { sim := S.reset c.sim, started := true, buffer := mzero S.n, received := mzero S.n }

structure StepOut (σ α : Type) where
  st   : CState σ
  /-- the argument the wrapped `step` was called with, if it was called -/
  args : Option (List (Aid × α))
  err  : Option Err

def commStep (S : CommIface σ α ω ι) (c : CState σ) (acts : List (Aid × CAct α)) : StepOut σ α :=
  if !c.started then ⟨c, none, some .crash⟩
  else
    -- process receive actions (against the current buffer)
    let rc := procReceives S.n c.buffer acts c.received
    if !rc.2 then ⟨{ c with received := rc.1 }, none, some .crash⟩
    else
      -- reset the message buffer; wrapped simulation takes a step; process send actions
      let args := simOnly acts
      let s1 := S.step c.sim args
      let sb := procSends S.n acts (mzero S.n)
      ⟨{ c with sim := s1, received := rc.1, buffer := sb.1 }, some args,
        if sb.2 then none else some .crash⟩

/-- the wrapper is again a simulation (for a fusion-unaware caller such as a manager) -/
def commSim (S : CommIface σ α ω ι) : SimIface (CState σ) (CAct α) (CObs ω) ι where
  n := S.n
  learning := S.learning
  reset := commReset S
  step := fun c acts => (commStep S c acts).st
  obs := fun c a =>
    let r := S.obsF c.sim a (rowDict S.n c.received a)
    ({ obs := r.1, buffer := rowDict S.n c.buffer a }, { c with sim := r.2 })
  reward := fun c a => let r := S.reward c.sim a; (r.1, { c with sim := r.2 })
  done := fun c a => S.done c.sim a
  allDone := fun c => S.allDone c.sim
  info := fun c a => S.info c.sim a
  next := fun c => S.next c.sim
  pending := fun c a => S.pending c.sim a

/-! ## Call-level interface and traces -/

inductive COp (α : Type) where
  | reset  : COp α
  | step   : List (Aid × CAct α) → COp α
  | getObs : Aid → COp α

inductive CRes (ω : Type) where
  | resetOk : CRes ω
  | stepOk  : CRes ω
  | obsOk   : CObs ω → CRes ω
  | err     : Err → CRes ω

structure CEntry (α ω : Type) where
  op       : COp α
  res      : CRes ω
  /-- ghost: the argument the wrapped `step` was called with during this call, if it was called -/
  simArgs  : Option (List (Aid × α))
  /-- ghost: the `fusion_matrix` the wrapped `get_obs` was called with during this call -/
  fusion   : Option Row
  /-- ghost: `message_buffer` after the call, one dictionary per agent (empty before the first reset) -/
  buffer   : List Row
  /-- ghost: `received_message` after the call -/
  received : List Row

def ghostRows (n : Nat) (started : Bool) (m : Matrix) : List Row :=
  if started then (List.range n).map (rowDict n m) else []

def mkEntry (S : CommIface σ α ω ι) (op : COp α) (res : CRes ω) (args : Option (List (Aid × α)))
    (fusion : Option Row) (c : CState σ) : CEntry α ω :=
  { op := op, res := res, simArgs := args, fusion := fusion,
    buffer := ghostRows S.n c.started c.buffer, received := ghostRows S.n c.started c.received }

/-- a call that raised: only the fact is recorded (what an exception leaves behind in the wrapper and
whether the wrapped simulation had already been stepped is incidental and is not compared) -/
def errEntry (op : COp α) (e : Err) : CEntry α ω :=
  { op := op, res := .err e, simArgs := none, fusion := none, buffer := [], received := [] }

def commRunOp (S : CommIface σ α ω ι) (c : CState σ) : COp α → CEntry α ω × CState σ
  | .reset =>
    let c' := commReset S c
    (mkEntry S .reset .resetOk none none c', c')
  | .step acts =>
    let r := commStep S c acts
    match r.err with
    | none => (mkEntry S (.step acts) .stepOk r.args none r.st, r.st)
    | some e => (errEntry (.step acts) e, r.st)
  | .getObs a =>
    -- `self.received_message[agent_id]`: AttributeError before reset, KeyError for an unknown agent
    if !c.started || !decide (a < S.n) then (errEntry (.getObs a) .crash, c)
    else
      let r := (commSim S).obs c a
      (mkEntry S (.getObs a) (.obsOk r.1) none (some (rowDict S.n c.received a)) r.2, r.2)

def commRun (S : CommIface σ α ω ι) : CState σ → List (COp α) → List (CEntry α ω)
  | _, [] => []
  | c, op :: ops =>
    let r := commRunOp S c op
    r.1 :: commRun S r.2 ops

/-- the wrapper's state after a history -/
def commFinal (S : CommIface σ α ω ι) : CState σ → List (COp α) → CState σ
  | c, [] => c
  | c, op :: ops => commFinal S (commRunOp S c op).2 ops

/-! ## The fusion-aware scripted stub (Lean side of `harness/stub_sim.py: FusionStubSim`)

Observations are `[episode, t, agent, read-count] ++ [fusion bit of every other agent]`, so the
fusion row the wrapper hands down is visible in every observation. -/

def stubComm (sc : Script) : CommIface StubSt Int (List Int) (List Int) :=
  let B := stubSim sc
  { n := B.n, learning := B.learning, reset := B.reset, step := B.step,
    obsF := fun s a row =>
      let r := B.obs s a
      (r.1 ++ (others sc.n a).map (fun y => if (row.lookup y).getD false then 1 else 0), r.2),
    reward := B.reward, done := B.done, allDone := B.allDone, info := B.info, next := B.next,
    pending := B.pending }

end Abmarl
