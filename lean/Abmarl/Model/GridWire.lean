import Abmarl.Model.Wire
import Abmarl.Model.Grid
/-! Wire encoding of worlds (trusted base): see harness/gridw.py for the Python side. -/
namespace Abmarl
namespace GridWire

def rat? (v : Val) : Option Rat := do
  match v with
  | .list [n, d] => pure (mkRat (← n.int?) (← d.nat?))
  | _ => none

def encRat (q : Rat) : Val := .list [.int q.num, .int q.den]

def pos? (v : Val) : Option Pos := do
  match v with
  | .list [r, c] => pure ((← r.int?), (← c.int?))
  | _ => none

def encPos (p : Pos) : Val := .list [.int p.1, .int p.2]

def opt? {β : Type} (f : Val → Option β) (v : Val) : Option (Option β) :=
  match v with
  | .list [] => some none
  | .list [x] => (f x).map some
  | _ => none

def encOpt {β : Type} (f : β → Val) : Option β → Val
  | none => .list []
  | some x => .list [f x]

def cfg? (v : Val) : Option AgentCfg := do
  match v with
  | .list [enc, bl, ip, ih, mv, mr, atk, ar, str, acc, sa, ha, ia, ho, io, ob, vr] =>
    pure { enc := ← enc.int?, blocking := ← bl.bool?, initPos := ← opt? pos? ip,
           initHealth := ← opt? rat? ih, moving := ← mv.bool?, moveRange := ← mr.nat?,
           attacking := ← atk.bool?, attackRange := ← ar.nat?, strength := ← rat? str,
           accuracy := ← rat? acc, simAttacks := ← sa.nat?, hasAmmo := ← ha.bool?,
           initAmmo := ← ia.int?, hasOrient := ← ho.bool?, initOrient := ← opt? Val.nat? io,
           observing := ← ob.bool?, viewRange := ← vr.nat? }
  | _ => none

def st? (v : Val) : Option AgentSt := do
  match v with
  | .list [p, h, ac, am, o] =>
    pure { pos := ← pos? p, health := ← rat? h, active := ← ac.bool?, ammo := ← am.int?, orient := ← o.nat? }
  | _ => none

def encSt (s : AgentSt) : Val :=
  .list [encPos s.pos, encRat s.health, Val.ofBool s.active, .int s.ammo, Val.ofNat s.orient]

def overlap? (v : Val) : Option (List (Int × List Int)) := do
  (← v.list?).mapM fun p => do
    match p with
    | .list [e, s] => pure ((← e.int?), (← s.ints?))
    | _ => none

/-- static part: `(rows cols overlap cfgs)`; dynamic part: `(cells sts)` -/
def world? (stat dyn : Val) : Option World := do
  match stat, dyn with
  | .list [r, c, ov, cfgs], .list [cells, sts] =>
    pure { rows := ← r.nat?, cols := ← c.nat?, overlap := ← overlap? ov,
           cells := ← (← cells.list?).mapM Val.nats?, cfg := ← (← cfgs.list?).mapM cfg?,
           st := ← (← sts.list?).mapM st? }
  | _, _ => none

/-- only the dynamic part is sent back -/
def encDyn (w : World) : Val :=
  .list [.list (w.cells.map Val.ofNats), .list (w.st.map encSt)]

def encGErr : GErr → Val
  | .keyError => .atom "keyError" | .badIndex => .atom "badIndex" | .assertion => .atom "assertion"
  | .noCell => .atom "noCell" | .other => .atom "other"

end GridWire
end Abmarl
