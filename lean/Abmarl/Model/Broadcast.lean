import Abmarl.Model.Examples
/-!
# `BroadcastSim` (`abmarl/examples/sim/comms_blocking.py`) and its hand-written components

Transcribed statement by statement: `BroadcastingAgent` (the clamping `message` setter), `BroadcastingState`
(`reset`, `update_receipients`, `update_message_and_reset_receiving`), `BroadcastingActor.process_action` /
`determine_broadcast`, `BroadcastObserver.get_obs`, `AverageMessageDone`, and `BroadcastSim.reset / step / get_obs /
get_reward / get_done / get_all_done`.  Everything else is an existing model: `PositionState.reset`
(`applyComps [position …]`), `MoveActor.process_action` (`World.moveAct` through `Ex.moveAcc`),
`PositionCenteredEncodingObserver` (`Observers.getObsCentered`), `create_grid_and_mask`
(`Observers.localGrid`, `Observers.maskFor` = `Mask.maskOf`).

## State

`St` = the world, `msgs` (`agent.message` per agent; `none` = the attribute does not exist: a non-broadcaster, or no
reset yet), `recv` (`BroadcastingState.receiving_state`: an insertion-ordered dict broadcaster ↦ list of
`(sender, message)`; `none` before the first reset), `rewards` (`self.rewards`, units of 1/100, an entry for EVERY agent
of the dictionary), and the oracle tape of the current call.

## What the code does that one might not expect (all transcribed, none repaired)

* `step` charges `-0.1` to every acting agent that is not a `MovingAgent` (`MoveActor.process_action` returns `None`
  for it and `if not move_result:` is true): a broadcaster loses 0.11 per step.
* `get_obs` MUTATES: `BroadcastObserver.get_obs` averages the pending messages into the agent's own message and
  empties its receiving list; a second read returns zeros in the foreign slots and the (unchanged) average.
* `get_done(agent_id)` hands the ID to `AverageMessageDone.get_done`, which tests `isinstance(agent,
  BroadcastingAgent)`: an id is a string, so the answer is `False` for every argument, before or after a reset, known
  id or not.  Under a manager no agent is ever reported done on its own; the episode ends through `get_all_done` only.
* `determine_broadcast` evaluates `self.broadcast_mapping[agent.encoding]` only when another agent stands on a visible
  cell of the window: the `KeyError` for a broadcaster whose encoding is not a key of the mapping is raised lazily.
* `update_receipients` indexes `receiving_state` (keys: the broadcasters) with every agent the scan returned: a mapping
  that allows the encoding of an agent that is not a `BroadcastingAgent` makes `step` raise `KeyError` when such an
  agent is reached.
* several entries of one sender may pend (it broadcast in two steps without a read in between): all of them enter the
  average, the observation slot shows the LAST one.

## Numbers

Messages are float64 in the code; the model computes in exact `Rat` (`average` = exact sum / length).  The tie is per
call (Model/BroadcastDriver.lean): the model is run from the implementation's own pre-state, read exactly.
Rewards as in Model/Examples.lean (units of 1/100).  A call that raises leaves the model state unchanged and ends the
history.  `**kwargs`, `render`, `get_info` (returns `{}` and has no `agent_id` parameter: a manager that calls
`get_info(agent_id)` raises `TypeError`) are not modelled.
-/
namespace Abmarl
namespace BC
open World Ex

/-- one agent's action dict `{'move': …, 'broadcast': …}` (a key the agent's actors do not read is never looked at) -/
structure Act where
  move      : Pos := (0, 0)
  broadcast : Int := 0
deriving Repr, DecidableEq, Inhabited

structure Cfg where
  bcast       : List Bool                  -- `isinstance(agent, BroadcastingAgent)`, per agent
  range       : List Nat                   -- `broadcast_range`
  initMsg     : List (Option Rat)          -- `initial_message`
  mapping     : List (Int × List Int)      -- `broadcast_mapping` (distinct keys)
  tol         : Rat                        -- `done_tolerance`
  observeSelf : Bool := true

def Cfg.isB (cfg : Cfg) (a : Aid) : Bool := cfg.bcast.getD a false
def Cfg.rangeOf (cfg : Cfg) (a : Aid) : Nat := cfg.range.getD a 0
def Cfg.initOf (cfg : Cfg) (a : Aid) : Option Rat := cfg.initMsg.getD a none

/-- `receiving_state` -/
abbrev Recv := List (Aid × List (Aid × Rat))

structure St where
  w       : World
  msgs    : List (Option Rat) := []
  recv    : Option Recv := none
  rewards : Option Ledger := none
  tape    : Tape := []

def St.msgOf (s : St) (a : Aid) : Option Rat := s.msgs.getD a none

/-- the `message` setter: `min(max(value, -1), 1)` -/
def clamp (v : Rat) : Rat := min (max v (-1)) 1

def absR (x : Rat) : Rat := if x < 0 then -x else x

/-- `np.average` of a non-empty list, exactly -/
def average (l : List Rat) : Rat := l.foldl (· + ·) 0 / (l.length : Rat)

/-! ## `reset` -/

/-- the loop of `BroadcastingState.reset` over the agents in dictionary order: the given initial message, or
`np.random.uniform(-1, 1)` from the tape, through the clamping setter; `none` for an agent that is not a broadcaster -/
def drawMsgs (cfg : Cfg) : List Aid → Tape → List (Option Rat) × Tape
  | [], t => ([], t)
  | a :: rest, t =>
    if cfg.isB a then
      match cfg.initOf a with
      | some v =>
        let r := drawMsgs cfg rest t
        (some (clamp v) :: r.1, r.2)
      | none =>
        let u := Oracle.uniformLH (-1) 1 t
        let r := drawMsgs cfg rest u.2
        (some (clamp u.1) :: r.1, r.2)
    else
      let r := drawMsgs cfg rest t
      (none :: r.1, r.2)

/-- `{agent.id: [] for agent in self.agents.values() if isinstance(agent, BroadcastingAgent)}` -/
def emptyRecv (cfg : Cfg) (n : Nat) : Recv := ((List.range n).filter cfg.isB).map fun a => (a, [])

/-- `{agent.id: 0 for agent in self.agents.values()}` -/
def zeroAll (n : Nat) : Ledger := (List.range n).map fun a => (a, 0)

/-- `position_state.reset(); broadcasting_state.reset(); self.rewards = …` -/
def reset (cfg : Cfg) (c : StateComp) (s : St) : Except GErr St :=
  match applyComps [c] s.w s.tape with
  | .error e => .error e
  | .ok (w', t') =>
    let r := drawMsgs cfg (List.range w'.n) t'
    .ok { w := w', msgs := r.1, recv := some (emptyRecv cfg w'.n), rewards := some (zeroAll w'.n), tape := r.2 }

/-! ## `BroadcastingActor.process_action` -/

/-- the body of `for other in candidate_agents.values():` -/
def scanOther (cfg : Cfg) (w : World) (a : Aid) (acc : List Aid) (o : Aid) : Except GErr (List Aid) :=
  if o = a then .ok acc                                               -- `if other.id == agent.id: continue`
  else
    match cfg.mapping.lookup (w.encOf a) with
    | none => .error .keyError                                        -- `self.broadcast_mapping[agent.encoding]`
    | some l => if w.encOf o ∈ l then .ok (acc ++ [o]) else .ok acc

/-- the body of the double loop: `if mask[r, c]: … if candidate_agents is not None: for other in …` -/
def scanCell (cfg : Cfg) (w : World) (a : Aid) (vis : Bool) (cell : Option (List Aid)) (acc : List Aid) :
    Except GErr (List Aid) :=
  if vis then
    match cell with
    | none => .ok acc
    | some occ => foldE (scanOther cfg w a) acc occ
  else .ok acc

/-- `determine_broadcast(agent)`: local grid and mask of range `broadcast_range`, row-major scan -/
def determine (cfg : Cfg) (w : World) (a : Aid) : Except GErr (List Aid) :=
  if !w.inGrid (w.stOf a).pos then .error .badIndex       -- negative slice bounds: not a function of the modelled state
  else
    let R := cfg.rangeOf a
    let lg := Observers.localGrid w a R
    let m := Observers.maskFor w a R
    foldE (fun acc i =>
      foldE (fun acc j => scanCell cfg w a (Observers.at2 m i j false) (Observers.at2 lg i j none) acc)
        acc (List.range (2*R+1))) [] (List.range (2*R+1))

/-- `self.receiving_state[agent.id].append(x)` -/
def appendRecv (r : Recv) (b : Aid) (x : Aid × Rat) : Except GErr Recv :=
  match r.lookup b with
  | none => .error .keyError
  | some l => .ok (dictSet r b (l ++ [x]))

/-- one pass of `update_receipients`: `self.receiving_state[agent.id].append((from_agent.id, from_agent.message))` -/
def recip1 (msgs : List (Option Rat)) (sender : Aid) (r : Recv) (b : Aid) : Except GErr Recv :=
  match r.lookup b with
  | none => .error .keyError
  | some _ =>
    match msgs.getD sender none with
    | none => .error .other                                            -- `from_agent.message` does not exist
    | some m => appendRecv r b (sender, m)

/-- `update_receipients(from_agent, to_agents)` -/
def updateRecipients (msgs : List (Option Rat)) (r : Recv) (sender : Aid) (tos : List Aid) : Except GErr Recv :=
  foldE (recip1 msgs sender) r tos

/-- one pass of the first loop of `step` -/
def bcast1 (cfg : Cfg) (w : World) (msgs : List (Option Rat)) (r : Recv) (x : Aid × Act) : Except GErr Recv :=
  if w.n ≤ x.1 then .error .keyError                                   -- `agent = self.agents[agent_id]`
  else if cfg.isB x.1 then                                             -- `_supported_agent`
    if x.2.broadcast ≠ 0 then                                          -- `if action:`
      match determine cfg w x.1 with
      | .error e => .error e
      | .ok tos => updateRecipients msgs r x.1 tos                     -- `[]` is not `None`: called with no receivers
    else .ok r
  else .ok r

/-- one pass of the second loop: the move, `-0.1` if `not move_result` (`None` for an agent that is not moving) -/
def move1 (p : PS) (x : Aid × Act) : Except GErr PS :=
  if p.w.n ≤ x.1 then .error .keyError
  else moveAcc p x.1 x.2.move

/-- one pass of the third loop: `self.rewards[agent_id] -= 0.01` -/
def entropy1 (p : PS) (x : Aid × Act) : Except GErr PS :=
  (accrue p.r x.1 (-1)).map fun r => ⟨p.w, r, p.t⟩

def step (cfg : Cfg) (s : St) (acts : List (Aid × Act)) : Except GErr St :=
  match s.rewards, s.recv with
  | some r, some rv =>
    match foldE (bcast1 cfg s.w s.msgs) rv acts with
    | .error e => .error e
    | .ok rv' =>
      match foldE move1 ⟨s.w, r, s.tape⟩ acts with
      | .error e => .error e
      | .ok p2 =>
        match foldE entropy1 p2 acts with
        | .error e => .error e
        | .ok p3 => .ok { s with w := p3.w, recv := some rv', rewards := some p3.r, tape := p3.t }
  | _, _ => .error .other

/-! ## `get_obs` -/

/-- which stored number a slot of the `message` observation carries -/
inductive Slot where
  | zero                 -- `np.zeros`: nothing pending from that agent
  | own                  -- the agent's own (new) message
  | entry (k : Nat)      -- the message of entry `k` of the receiving list read by this call
deriving Repr, DecidableEq, Inhabited

/-- the last entry of sender `o` in a receiving list, with its index (later assignments to `obs[agent_id]` win) -/
def lastFrom (o : Aid) : List (Aid × Rat) → Nat → Option (Nat × Rat)
  | [], _ => none
  | (s, m) :: rest, k =>
    match lastFrom o rest (k + 1) with
    | some r => some r
    | none => if s = o then some (k, m) else none

def slotOf (a : Aid) (new : Rat) (rf : List (Aid × Rat)) (o : Aid) : List Slot × Rat :=
  if o = a then ([.own], new)
  else
    match lastFrom o rf 0 with
    | some (k, m) => ([.entry k], m)
    | none => ([.zero], 0)

/-- what `get_obs` returns: the items of the grid observer, and the `message` dict (`none`: no such key) as the list
of its slots in listing order of the broadcasters: key, what it carries, the exact number.  "What it carries" is a
LIST: the model says one thing; for an observation of the real code the harness lists every stored number whose
float32 rounding the observed entry equals (several when stored numbers coincide), and the judge asks for membership. -/
structure ObsRes where
  grid : List (String × Observers.Obs)
  msg  : Option (List (Aid × List Slot × Rat))
deriving Repr, DecidableEq

/-- `{**self.grid_observer.get_obs(agent), **self.broadcast_observer.get_obs(agent)}` -/
def getObs (cfg : Cfg) (s : St) (a : Aid) : Except GErr (ObsRes × St) :=
  match s.rewards with
  | none => .error .other
  | some _ =>
    if s.w.n ≤ a then .error .keyError                                 -- `agent = self.agents[agent_id]`
    else
      match Observers.getObsCentered s.w a cfg.observeSelf s.tape with
      | .error e => .error e
      | .ok (g, t') =>
        let items := itemsOf (.centered cfg.observeSelf) g
        if cfg.isB a then
          match s.recv with
          | none => .error .other
          | some rv =>
            match rv.lookup a with
            | none => .error .keyError                                 -- `self.receiving_state[agent.id]`
            | some rf =>
              match s.msgOf a with
              | none => .error .other
              | some own =>
                -- `messages = [m for _, m in receiving_from]; messages.append(agent.message); np.average`
                let new := clamp (average (rf.map (·.2) ++ [own]))
                if rf.all (fun p => cfg.isB p.1) then                  -- `message_space[agent_id]`
                  let slots := ((List.range s.w.n).filter cfg.isB).map fun o => (o, slotOf a new rf o)
                  .ok (⟨items, some slots⟩,
                       { s with msgs := s.msgs.set a (some new), recv := some (dictSet rv a []), tape := t' })
                else .error .keyError
        else .ok (⟨items, none⟩, { s with tape := t' })

/-! ## rewards and dones -/

def getReward (s : St) (a : Aid) : Except GErr (Int × St) :=
  match s.rewards with
  | none => .error .other
  | some r =>
    match rewardVal r a with
    | .error e => .error e
    | .ok x => .ok (x, { s with rewards := some (dictSet r a 0) })

/-- `BroadcastSim.get_done(agent_id)`: `self.done.get_done(agent_id)` — the argument is an id, not an agent, so
`isinstance(agent, BroadcastingAgent)` is false: `False`, whatever the id and the state -/
def getDone (_cfg : Cfg) (_s : St) (_a : Aid) : Bool := false

/-- `AverageMessageDone.get_done(agent)` for every broadcaster: `|message − average| ≤ tolerance` -/
def allDoneOn (cfg : Cfg) (ms : List Rat) : Bool :=
  ms.all fun m => decide (absR (m - average ms) ≤ cfg.tol)

/-- the same test with the tolerance moved by `slack` (the judge's grey zone around the boundary, Spec/Broadcast.lean) -/
def allDoneWith (cfg : Cfg) (slack : Rat) (ms : List Rat) : Bool :=
  ms.all fun m => decide (absR (m - average ms) ≤ cfg.tol + slack)

/-- `get_all_done` -/
def getAllDone (cfg : Cfg) (s : St) : Except GErr Bool :=
  let bs := (List.range s.w.n).filter cfg.isB
  if bs.isEmpty then .ok true                                          -- the loop body is never entered
  else
    match bs.mapM (fun b => s.msgOf b) with
    | none => .error .other                                            -- `agent.message` does not exist yet
    | some ms => .ok (allDoneOn cfg ms)

/-! ## Histories -/

inductive BOp where
  | reset   (c : StateComp) (tape : Tape)
  | step    (acts : List (Aid × Act)) (tape : Tape)
  | obs     (a : Aid) (tape : Tape)
  | rew     (a : Aid)
  | done    (a : Aid)
  | allDone

inductive BRes where
  | unit
  | int  (r : Int)
  | obs  (o : ObsRes)
  | bool (b : Bool)
  | err  (e : GErr)
deriving Repr, DecidableEq

/-- one call and what can be seen of the simulation afterwards (read without side effects) -/
structure BEntry where
  res     : BRes
  w       : World
  msgs    : List (Option Rat)
  recv    : Option Recv
  rewards : Option Ledger

def BRes.isErr : BRes → Bool
  | .err _ => true
  | _ => false

def see (res : BRes) (s : St) : BEntry := ⟨res, s.w, s.msgs, s.recv, s.rewards⟩

/-- the state a dumped entry shows (no tape: every operation carries its own) -/
def BEntry.toSt (e : BEntry) : St := { w := e.w, msgs := e.msgs, recv := e.recv, rewards := e.rewards }

def runOp (cfg : Cfg) (s : St) : BOp → BEntry × St
  | .reset c tape =>
    match reset cfg c { s with tape := tape } with
    | .ok s' => (see .unit s', s')
    | .error e => (see (.err e) s, s)
  | .step acts tape =>
    match step cfg { s with tape := tape } acts with
    | .ok s' => (see .unit s', s')
    | .error e => (see (.err e) s, s)
  | .obs a tape =>
    match getObs cfg { s with tape := tape } a with
    | .ok (o, s') => (see (.obs o) s', s')
    | .error e => (see (.err e) s, s)
  | .rew a =>
    match getReward s a with
    | .ok (r, s') => (see (.int r) s', s')
    | .error e => (see (.err e) s, s)
  | .done a => (see (.bool (getDone cfg s a)) s, s)
  | .allDone =>
    match getAllDone cfg s with
    | .ok b => (see (.bool b) s, s)
    | .error e => (see (.err e) s, s)

/-- a history; it ends with the first call that raises -/
def runOps (cfg : Cfg) : St → List BOp → List BEntry × St
  | s, [] => ([], s)
  | s, op :: ops =>
    let r := runOp cfg s op
    if r.1.res.isErr then ([r.1], r.2)
    else
      let rest := runOps cfg r.2 ops
      (r.1 :: rest.1, rest.2)

/-- the constructed object: no message, no receiving state, no reward dict -/
def init (w0 : World) : St := { w := w0, msgs := List.replicate w0.n none }

end BC
end Abmarl
