import Abmarl.Model.Examples
/-!
# `ReachTheTargetSim` (`abmarl/examples/sim/reach_the_target.py`)

Transcribed statement by statement on top of the pieces of Model/Examples.lean (`Ex.St`, the ledger in
units of 1/100, `Ex.accrue`, `Ex.foldE`, `Ex.moveAcc`) and of the component models:
`SelectiveAttackActor` (`processAttack`, kind `selective`), `MoveActor` (`World.moveAct`),
`PositionCenteredEncodingObserver`, `HealthState` / `PositionState` (`applyComps`).  The three done
components are the class's own: `ActiveDone` (`not agent.active`), `TargetDone` (`agent != target and
array_equal(agent.position, target.position)`), `OnlyAgentLeftDone` (`#{active Agents} <= 1`).

`reset`, `get_obs`, `get_reward` are literally those of the smart simulations (`Ex.reset`, `Ex.getObs`,
`Ex.getReward`) for the configuration `Cfg.toEx`: `reset` = `health_state.reset(); position_state.reset()`
(the order is fixed by the code: `cfg.comps = [health, position …]`) and a zero entry per learning agent.

`step`:
1. the attack loop of `TeamBattleSim` (the victim of a kill is charged only `if is_agent(attacked_agent)`: repair of
   finding R2 — the class used to raise `KeyError` for a killed entity without ledger entry, as `TeamBattleSim` did
   before c275832);
2. the move loop: `if isinstance(agent, MovingAgent): if agent.active: move (−0.1 on failure);`
   `if agent.active and self.target_done.get_done(agent): rewards += 1; self.grid.remove(agent, agent.position);
   agent.active = False` — the runner is taken off the grid BY HAND and deactivated with its health
   unchanged (positive): from then on the world violates the clause "active iff health positive" of
   `WInv` (only `WInvWeak` holds).  The guard `agent.active` is the repair of finding R1: without it a runner that
   stood on the target's cell (possible right after `reset`) and was killed by the target in loop 1 of the SAME step —
   or a runner deactivated earlier whose item was in the dict again — reached `grid.remove` although it was in no
   cell (`KeyError`, for in-space actions under the managers);
3. `−0.01` for every `RunningAgent` with an item.

`isinstance(agent, MovingAgent)` is `AgentCfg.moving`; `RunningAgent` / `TargetAgent` are the index lists
`Cfg.runners` / `Cfg.targets`; `self.target` is `Cfg.target`.  `get_done` of an agent that is neither
(`None` in the code) is `false`.  Everything else as in the header of Model/Examples.lean (a call that
raises leaves the model state unchanged and ends the history; `**kwargs`, `render` not modelled).
-/
namespace Abmarl
namespace RT
open World Ex

structure Cfg where
  learning    : List Bool
  comps       : List StateComp                      -- `[health, position …]`: the order `reset` uses
  attack      : AttackCfg := ⟨.selective, [], false⟩
  target      : Aid := 0
  runners     : List Aid := []
  targets     : List Aid := []
  observeSelf : Bool := true

/-- the part of the class that is a smart-simulation: reset, observation, reward dict -/
def Cfg.toEx (cfg : Cfg) : Ex.Cfg :=
  { which := .teamBattle, learning := cfg.learning, comps := cfg.comps,
    observers := some [.centered cfg.observeSelf], dones := none, attack := cfg.attack }

def Cfg.isLearning (cfg : Cfg) (a : Aid) : Bool := cfg.learning.getD a false

/-- `if not attacked_agent.active: if is_agent(attacked_agent): self.rewards[attacked_agent.id] -= 1;
self.rewards[agent_id] += 1` (the guard since the repair of finding R2) -/
def kill (cfg : Cfg) (w : World) (a : Aid) (r : Ledger) (v : Aid) : Except GErr Ledger :=
  if !(w.stOf v).active then
    match (if cfg.isLearning v then accrue r v (-100) else .ok r) with
    | .error e => .error e
    | .ok r1 => accrue r1 a 100
  else .ok r

/-- one pass of the attack loop -/
def attack1 (cfg : Cfg) (p : PS) (x : Aid × Act) : Except GErr PS :=
  if p.w.n ≤ x.1 then .error .keyError                      -- `agent = self.agents[agent_id]`
  else if (p.w.stOf x.1).active then
    match processAttack cfg.attack p.w x.1 x.2.attack p.t with
    | .error e => .error e
    | .ok ((status, H), w', t') =>
      if status then
        if H.isEmpty then (accrue p.r x.1 (-10)).map fun r => ⟨w', r, t'⟩
        else (foldE (kill cfg w' x.1) p.r H).map fun r => ⟨w', r, t'⟩
      else .ok ⟨w', p.r, t'⟩
  else .ok p

/-- `TargetDone.get_done(agent)` -/
def targetDone (cfg : Cfg) (w : World) (a : Aid) : Bool :=
  decide (a ≠ cfg.target) && decide (w.posOf a = w.posOf cfg.target)

/-- one pass of the move loop -/
def move1 (cfg : Cfg) (p : PS) (x : Aid × Act) : Except GErr PS :=
  if p.w.n ≤ x.1 then .error .keyError
  else if (p.w.cfgOf x.1).moving then                        -- `isinstance(agent, MovingAgent)`
    match (if (p.w.stOf x.1).active then moveAcc p x.1 x.2.move else .ok p) with
    | .error e => .error e
    | .ok p1 =>
      if (p1.w.stOf x.1).active && targetDone cfg p1.w x.1 then   -- `if agent.active and self.target_done.get_done(agent):`
        match accrue p1.r x.1 100 with
        | .error e => .error e
        | .ok r1 =>
          match p1.w.remove x.1 (p1.w.posOf x.1) with        -- `self.grid.remove(agent, agent.position)`
          | .error e => .error e
          | .ok w2 => .ok ⟨w2.setSt x.1 { w2.stOf x.1 with active := false }, r1, p1.t⟩   -- `agent.active = False`
      else .ok p1
  else .ok p

/-- one pass of the entropy loop -/
def entropy1 (cfg : Cfg) (p : PS) (x : Aid × Act) : Except GErr PS :=
  if p.w.n ≤ x.1 then .error .keyError
  else if x.1 ∈ cfg.runners then (accrue p.r x.1 (-1)).map fun r => ⟨p.w, r, p.t⟩
  else .ok p

def stepPS (cfg : Cfg) (p : PS) (acts : List (Aid × Act)) : Except GErr PS :=
  match foldE (attack1 cfg) p acts with
  | .error e => .error e
  | .ok p1 =>
    match foldE (move1 cfg) p1 acts with
    | .error e => .error e
    | .ok p2 => foldE (entropy1 cfg) p2 acts

def step (cfg : Cfg) (s : St) (acts : List (Aid × Act)) : Except GErr St :=
  match s.rewards with
  | none => .error .other
  | some r =>
    match stepPS cfg ⟨s.w, r, s.tape⟩ acts with
    | .error e => .error e
    | .ok p => .ok { w := p.w, rewards := some p.r, tape := p.t }

/-- `OnlyAgentLeftDone._agents_remaining() <= 1` -/
def onlyLeft (cfg : Cfg) (w : World) : Bool :=
  decide (((List.range w.n).filter fun a => (w.stOf a).active && cfg.isLearning a).length ≤ 1)

def doneW (cfg : Cfg) (w : World) (a : Aid) : Except GErr Bool :=
  if w.n ≤ a then .error .keyError
  else if a ∈ cfg.runners then .ok (!(w.stOf a).active || targetDone cfg w a)
  else if a ∈ cfg.targets then .ok (onlyLeft cfg w)
  else .ok false                                             -- the code returns `None`

def getDone (cfg : Cfg) (s : St) (a : Aid) : Except GErr Bool :=
  match s.rewards with
  | none => .error .other
  | some _ => doneW cfg s.w a

def getAllDone (cfg : Cfg) (s : St) : Except GErr Bool :=
  match s.rewards with
  | none => .error .other
  | some _ => .ok (onlyLeft cfg s.w)

def runOp (cfg : Cfg) (s : St) : EOp → EEntry × St
  | .reset order tape =>
    match Ex.reset cfg.toEx order { s with tape := tape } with
    | .ok s' => (⟨.unit, s'.w, s'.rewards⟩, s')
    | .error e => (⟨.err e, s.w, s.rewards⟩, s)
  | .step acts tape =>
    match step cfg { s with tape := tape } acts with
    | .ok s' => (⟨.unit, s'.w, s'.rewards⟩, s')
    | .error e => (⟨.err e, s.w, s.rewards⟩, s)
  | .obs a tape =>
    match Ex.getObs cfg.toEx { s with tape := tape } a with
    | .ok (o, s') => (⟨.obs o, s'.w, s'.rewards⟩, s')
    | .error e => (⟨.err e, s.w, s.rewards⟩, s)
  | .rew a =>
    match Ex.getReward cfg.toEx s a with
    | .ok (r, s') => (⟨.int r, s'.w, s'.rewards⟩, s')
    | .error e => (⟨.err e, s.w, s.rewards⟩, s)
  | .done a => (⟨Ex.resOfBool (getDone cfg s a), s.w, s.rewards⟩, s)
  | .allDone => (⟨Ex.resOfBool (getAllDone cfg s), s.w, s.rewards⟩, s)

def runOps (cfg : Cfg) : St → List EOp → List EEntry × St
  | s, [] => ([], s)
  | s, op :: ops =>
    let r := runOp cfg s op
    if r.1.res.isErr then ([r.1], r.2)
    else
      let rest := runOps cfg r.2 ops
      (r.1 :: rest.1, rest.2)

def toSimIface (cfg : Cfg) (n : Nat) : SimIface St Act ObsOut Unit where
  n := n
  learning := cfg.isLearning
  reset := fun s => match Ex.reset cfg.toEx cfg.comps s with | .ok s' => s' | .error _ => s
  step := fun s acts => match step cfg s acts with | .ok s' => s' | .error _ => s
  obs := fun s a => match Ex.getObs cfg.toEx s a with | .ok (o, s') => (.ok o, s') | .error e => (.error e, s)
  reward := fun s a => match Ex.getReward cfg.toEx s a with | .ok (x, s') => (x, s') | .error _ => (0, s)
  done := fun s a => match getDone cfg s a with | .ok b => b | .error _ => false
  allDone := fun s => match getAllDone cfg s with | .ok b => b | .error _ => false
  info := fun _ _ => ()
  next := fun _ => []
  pending := pendingOf cfg.toEx

end RT
end Abmarl
