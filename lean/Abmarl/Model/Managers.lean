/-!
# M1 — the three simulation managers over an arbitrary simulation

Transcribed branch for branch from
`abmarl/managers/{all_step,turn_based,dynamic_order}_manager.py`.

* agents are indices `0..n-1` in the listing order of `sim.agents`;
* the four output dictionaries are kept *separately*, as the code builds them, so that
  "same key set" is a theorem and not an artefact of the representation;
* getters that may mutate the simulation (`get_obs`, `get_reward`) thread the state in the
  order the Python evaluates them;
* the unbounded `for next_agent in cycle(...)` loop of the turn-based manager is one
  structural pass over the listing rotated to the turn pointer; running out of it is the
  explicit error `exhausted` (the real code would spin forever) — `turnSearch_total`
  (Props/C07) shows it unreachable;
* `random.shuffle` of the all-step manager consumes the oracle tape.
-/
namespace Abmarl

abbrev Aid := Nat
abbrev Tape := List Nat

inductive Err where
  | rejected      -- the manager's "already done" assertion
  | exhausted     -- model only: the turn search ran through a whole rotation (real code: hang)
  | crash         -- any other exception of the real code
  | hang          -- watchdog fired on the real code
deriving Repr, DecidableEq, Inhabited

/-- Any `AgentBasedSimulation` (and `DynamicOrderSimulation`) as a state machine. -/
structure SimIface (σ α ω ι : Type) where
  n        : Nat
  learning : Aid → Bool
  reset    : σ → σ
  step     : σ → List (Aid × α) → σ
  obs      : σ → Aid → ω × σ
  reward   : σ → Aid → Int × σ
  done     : σ → Aid → Bool
  allDone  : σ → Bool
  info     : σ → Aid → ι
  next     : σ → List Aid
  /-- ghost: reward accrued for the agent and not yet read (accumulator simulations) -/
  pending  : σ → Aid → Int

inductive MKind where
  | allStep | turnBased | dynamic
deriving Repr, DecidableEq, Inhabited

structure MState (σ : Type) where
  sim      : σ
  doneSet  : List Aid
  ptr      : Nat          -- turn-based: index into the learner listing of the next `next(cycle)`
  shuffle  : Bool         -- all-step: randomize_action_input
  tape     : Tape

structure Out (ω ι : Type) where
  obs     : List (Aid × ω)
  rewards : List (Aid × Int)
  dones   : List (Aid × Bool)
  infos   : List (Aid × ι)
  allDone : Bool

variable {σ α ω ι : Type}

def SimIface.agents (S : SimIface σ α ω ι) : List Aid := List.range S.n
def SimIface.learners (S : SimIface σ α ω ι) : List Aid := S.agents.filter S.learning
def SimIface.nonLearners (S : SimIface σ α ω ι) : List Aid :=
  S.agents.filter (fun a => !S.learning a)

/-- `{a: sim.get_obs(a) for a in as}` -/
def readObs (S : SimIface σ α ω ι) (s : σ) : List Aid → List (Aid × ω) × σ
  | [] => ([], s)
  | a :: as =>
    let r := S.obs s a
    let rest := readObs S r.2 as
    ((a, r.1) :: rest.1, rest.2)

/-- `{a: sim.get_reward(a) for a in as}` -/
def readRewards (S : SimIface σ α ω ι) (s : σ) : List Aid → List (Aid × Int) × σ
  | [] => ([], s)
  | a :: as =>
    let r := S.reward s a
    let rest := readRewards S r.2 as
    ((a, r.1) :: rest.1, rest.2)

/-- Selection shuffle driven by the tape (the harness installs the same algorithm as
`random.shuffle`): repeatedly move element `v mod len` of what is left to the output. -/
def shuffleFuel : Nat → List β → Tape → List β × Tape
  | 0, l, t => (l, t)
  | _ + 1, [], t => ([], t)
  | k + 1, x :: xs, t =>
    let v := t.headD 0
    let i := v % (xs.length + 1)
    let l := x :: xs
    let pick := l.getD i x
    let rest := shuffleFuel k (l.eraseIdx i) t.tail
    (pick :: rest.1, rest.2)

def shuffle (l : List β) (t : Tape) : List β × Tape := shuffleFuel l.length l t

/-- the partial output accumulated while reporting agents one at a time
(turn-based and dynamic managers) -/
structure Acc (ω ι : Type) where
  obs     : List (Aid × ω) := []
  rewards : List (Aid × Int) := []
  dones   : List (Aid × Bool) := []
  infos   : List (Aid × ι) := []

/-- `obs[a] = get_obs(a); rewards[a] = get_reward(a); dones[a] = get_done(a); infos[a] = get_info(a)` -/
def report1 (S : SimIface σ α ω ι) (s : σ) (acc : Acc ω ι) (a : Aid) : Acc ω ι × σ :=
  let o := S.obs s a
  let r := S.reward o.2 a
  let s' := r.2
  ({ obs := acc.obs ++ [(a, o.1)], rewards := acc.rewards ++ [(a, r.1)],
     dones := acc.dones ++ [(a, S.done s' a)], infos := acc.infos ++ [(a, S.info s' a)] }, s')

/-- the flush at simulation finish: every agent not in `done_agents`, in listing order -/
def flush (S : SimIface σ α ω ι) (ds : List Aid) : σ → Acc ω ι → List Aid → Acc ω ι × σ
  | s, acc, [] => (acc, s)
  | s, acc, a :: as =>
    if a ∈ ds then flush S ds s acc as
    else
      let r := report1 S s acc a
      flush S ds r.2 r.1 as

structure SearchRes (σ ω ι : Type) where
  acc     : Acc ω ι
  sim     : σ
  ds      : List Aid
  allDone : Bool
  used    : Nat

/-- the turn-based manager's search for the next agent(s), over one rotation of the listing -/
def turnSearch (S : SimIface σ α ω ι) :
    List Aid → σ → List Aid → Acc ω ι → Nat → Option (SearchRes σ ω ι)
  | [], _, _, _, _ => none
  | a :: rest, s, ds, acc, k =>
    if a ∈ ds then turnSearch S rest s ds acc (k + 1)
    else if S.done s a then
      let r := report1 S s acc a
      let ds' := a :: ds
      if S.agents.all (fun b => decide (b ∈ ds')) then some ⟨r.1, r.2, ds', true, k + 1⟩
      else turnSearch S rest r.2 ds' r.1 (k + 1)
    else
      let r := report1 S s acc a
      some ⟨r.1, r.2, ds, false, k + 1⟩

/-- the dynamic-order manager's loop over the nominated agents (no `break` on a live agent) -/
def dynLoop (S : SimIface σ α ω ι) :
    List Aid → σ → List Aid → Acc ω ι → SearchRes σ ω ι
  | [], s, ds, acc => ⟨acc, s, ds, false, 0⟩
  | a :: rest, s, ds, acc =>
    if a ∈ ds then dynLoop S rest s ds acc
    else if S.done s a then
      let r := report1 S s acc a
      let ds' := a :: ds
      if S.agents.all (fun b => decide (b ∈ ds')) then ⟨r.1, r.2, ds', true, 0⟩
      else dynLoop S rest r.2 ds' r.1
    else
      let r := report1 S s acc a
      dynLoop S rest r.2 ds r.1

def rotate (l : List β) (k : Nat) : List β := l.drop k ++ l.take k

def mkOut (acc : Acc ω ι) (allDone : Bool) : Out ω ι :=
  { obs := acc.obs, rewards := acc.rewards, dones := acc.dones, infos := acc.infos,
    allDone := allDone }

def mgrInit (s : σ) (shuffle : Bool) (tape : Tape) : MState σ :=
  { sim := s, doneSet := [], ptr := 0, shuffle := shuffle, tape := tape }

/-- `reset`: returns the observation dictionary -/
def mgrReset (S : SimIface σ α ω ι) : MKind → MState σ → Except Err (List (Aid × ω) × MState σ)
  | .allStep, m =>
    let ds := S.nonLearners
    let s := S.reset m.sim
    let r := readObs S s (S.agents.filter (fun a => decide (a ∉ ds)))
    .ok (r.1, { m with sim := r.2, doneSet := ds, ptr := 0 })   -- (no turn pointer: model field inert)
  | .turnBased, m =>
    let ds := S.nonLearners
    let s := S.reset m.sim
    match S.learners with
    | [] => .error .crash                      -- `next()` on an empty cycle: StopIteration
    | a :: _ =>
      let o := S.obs s a
      .ok ([(a, o.1)], { m with sim := o.2, doneSet := ds, ptr := 1 % S.learners.length })
  | .dynamic, m =>
    let s := S.reset m.sim
    let r := readObs S s (S.next s)
    .ok (r.1, { m with sim := r.2, doneSet := [], ptr := 0 })

def mgrStep (S : SimIface σ α ω ι) (k : MKind) (m : MState σ) (acts : List (Aid × α)) :
    Except Err (Out ω ι × List (Aid × α) × MState σ) :=
  if acts.any (fun p => decide (p.1 ∈ m.doneSet)) then .error .rejected
  else match k with
  | .allStep =>
    let sh := if m.shuffle then shuffle acts m.tape else (acts, m.tape)
    let s1 := S.step m.sim sh.1
    let live := S.agents.filter (fun a => decide (a ∉ m.doneSet))
    let o := readObs S s1 live
    let r := readRewards S o.2 live
    let s3 := r.2
    let dones := live.map (fun a => (a, S.done s3 a))
    let infos := live.map (fun a => (a, S.info s3 a))
    let ds' := m.doneSet ++ (dones.filter (·.2)).map (·.1)
    let allDone := S.allDone s3 || S.agents.all (fun b => decide (b ∈ ds'))
    .ok ({ obs := o.1, rewards := r.1, dones := dones, infos := infos, allDone := allDone },
         sh.1, { m with sim := s3, doneSet := ds', tape := sh.2 })
  | .turnBased =>
    let s1 := S.step m.sim acts
    if S.allDone s1 then
      let r := flush S m.doneSet s1 {} S.agents
      .ok (mkOut r.1 true, acts, { m with sim := r.2 })
    else
      match turnSearch S (rotate S.learners m.ptr) s1 m.doneSet {} 0 with
      | none => .error .exhausted
      | some res =>
        .ok (mkOut res.acc res.allDone, acts,
             { m with sim := res.sim, doneSet := res.ds,
                      ptr := (m.ptr + res.used) % S.learners.length })
  | .dynamic =>
    let s1 := S.step m.sim acts
    if S.allDone s1 then
      let r := flush S m.doneSet s1 {} S.agents
      .ok (mkOut r.1 true, acts, { m with sim := r.2 })
    else
      let res := dynLoop S (S.next s1) s1 m.doneSet {}
      .ok (mkOut res.acc res.allDone, acts, { m with sim := res.sim, doneSet := res.ds })

/-! ## Histories and traces (with the ghost observations of the simulation) -/

inductive Op (α : Type) where
  | reset : Op α
  | step  : List (Aid × α) → Op α

/-- what the simulation looks like from outside after a manager call; on the implementation
side these are read from the scripted stub by non-mutating accessors -/
structure Ghost where
  simAllDone : Bool
  simDone    : List Bool      -- per agent
  pending    : List Int       -- per agent
  nominated  : List Aid
deriving Repr, DecidableEq

inductive Res (α ω ι : Type) where
  | resetOk : List (Aid × ω) → Res α ω ι
  | stepOk  : Out ω ι → Res α ω ι
  | err     : Err → Res α ω ι

structure Entry (α ω ι : Type) where
  op     : Op α
  res    : Res α ω ι
  /-- ghost: the argument `sim.step` was called with during this call, if it was called -/
  simArgs : Option (List (Aid × α))
  /-- ghost: `pending` just after `sim.step` and before any getter (accrual made visible);
      equals the previous `pending` when the simulation was not stepped -/
  accrued : List Int
  ghost  : Ghost

def ghostOf (S : SimIface σ α ω ι) (s : σ) : Ghost :=
  { simAllDone := S.allDone s, simDone := S.agents.map (S.done s),
    pending := S.agents.map (S.pending s), nominated := S.next s }

def runOp (S : SimIface σ α ω ι) (k : MKind) (m : MState σ) : Op α → Entry α ω ι × MState σ
  | .reset =>
    match mgrReset S k m with
    | .ok (o, m') =>
      (⟨.reset, .resetOk o, none, S.agents.map (S.pending (S.reset m.sim)), ghostOf S m'.sim⟩, m')
    | .error e => (⟨.reset, .err e, none, S.agents.map (S.pending m.sim), ghostOf S m.sim⟩, m)
  | .step acts =>
    match mgrStep S k m acts with
    | .ok (o, args, m') =>
      (⟨.step acts, .stepOk o, some args, S.agents.map (S.pending (S.step m.sim args)),
        ghostOf S m'.sim⟩, m')
    | .error e => (⟨.step acts, .err e, none, S.agents.map (S.pending m.sim), ghostOf S m.sim⟩, m)

def runOps (S : SimIface σ α ω ι) (k : MKind) : MState σ → List (Op α) → List (Entry α ω ι)
  | _, [] => []
  | m, op :: ops =>
    let r := runOp S k m op
    r.1 :: runOps S k r.2 ops

end Abmarl
