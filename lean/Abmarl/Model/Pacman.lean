import Abmarl.Model.Examples
import Abmarl.Model.Movers
/-!
# `PacmanSim` and `PacmanSimSimple` (`abmarl/examples/sim/pacman.py`)

Transcribed statement by statement and in evaluation order on top of Model/Examples.lean (`Ex.St`, the ledger in units
of 1/100, `Ex.reset`, `Ex.getObs`, `Ex.getReward`), Model/Movers.lean (`World.driftAct` = `DriftMoveActor.process_action`)
and Model/Grid.lean (`World.remove`, `World.place`, `World.setHealth`).

## Configuration (`Cfg`)

* `simple` — the class is `PacmanSimSimple`; the hard-coded far teleport column is `18` for it and `20` for `PacmanSim`
  (`Cfg.far`);
* `learning` (`is_agent`), `comps` (state components in the order `reset` uses), `observers` — as in Model/Examples.lean;
* `pacman` — the index of `self.agents['pacman']` (the constructor raises without it: construction is not modelled);
* `food`, `baddies` — the indices with `isinstance(agent, FoodAgent)` / `isinstance(agent, BaddieAgent)`;
* `scheme` — `self.reward_scheme` in units of 1/100, one `Option` per event (`none`: the key is absent from the dict the
  caller passed — the setter does not ask for every key; a lookup then raises `KeyError`);
* `named` — `PacmanSimSimple` only: for `i = 0..4` the index of the agent whose id is `baddie_i` (`none`: no such id,
  `self.agents['baddie_i']` raises `KeyError`).

## State

`St` = the state of a smart simulation (`Ex.St`: world, reward dict, oracle tape) and `step_count` (`PacmanSimSimple`).

## What a raising call leaves

`step` returns the state it leaves **also when it raises**, together with the exception (`St × Option GErr`), as
Model/Corridor.lean does: every `raise` below is placed exactly where the Python statement raises, after the effects
of the statements before it.  A history goes on after a raising `step` or getter (the harness dumps and compares the
world, the ledger and `step_count` after every call, raised or not).  The state components of `reset` are
the library's (`applyComps`): a raising `reset` leaves the model state unchanged and ends the history, as for the other
examples; so does every call before the first successful `reset` (`rewards = none`: kind `other`).

Three places where Python raises and a naive transcription would not:
* `self.grid.place(agent, (9, far))` on a grid with fewer than `far + 1` columns: `self._internal[ndx]` raises `IndexError`
  (`badIndex`) AFTER `self.grid.remove(agent, (9, 0))` — the agent is in no cell, its `position` is unchanged;
* `self.grid.place(...)` that is **refused** (the far cell holds an agent the mover may not overlap with) returns `False`, which
  nobody checks: no exception, the agent is in no cell and keeps its `position` and `active` (`teleTo`);
* `self.rewards[a] += self.reward_scheme[event]` reads `self.rewards[a]` first, then the scheme: `KeyError` either way and
  nothing is stored (`reward`).

`**kwargs`, `render`, `get_info` (`{}`) as in Model/Examples.lean.  This file imports only Model files.
-/
namespace Abmarl
namespace PM
open World Ex

/-- `self.reward_scheme`, units of 1/100; `none` = the key is absent -/
structure Scheme where
  badMove : Option Int := some (-10)
  entropy : Option Int := some (-1)
  eatFood : Option Int := some 10
  kill    : Option Int := some 100
  die     : Option Int := some (-100)
deriving Repr, DecidableEq, Inhabited

structure Cfg where
  simple    : Bool := false
  learning  : List Bool
  comps     : List StateComp
  observers : Option (List Observers.Kind)
  pacman    : Aid
  food      : List Aid := []
  baddies   : List Aid := []
  scheme    : Scheme := {}
  named     : List (Option Aid) := []

/-- the hard-coded far column of the corridor teleport -/
def Cfg.far (cfg : Cfg) : Int := if cfg.simple then 18 else 20

/-- the part of the class that is a smart simulation: reset, observation, reward dict -/
def Cfg.toEx (cfg : Cfg) : Ex.Cfg :=
  { which := .teamBattle, learning := cfg.learning, comps := cfg.comps, observers := cfg.observers, dones := none }

def Cfg.isLearning (cfg : Cfg) (a : Aid) : Bool := cfg.learning.getD a false

structure St where
  ex    : Ex.St
  count : Nat := 0                 -- `self.step_count`

/-- how a block of statements ends: it falls through, it `return`s from `step`, or it raises -/
inductive Ctl where
  | go | ret | err (e : GErr)
deriving Repr, DecidableEq, Inhabited

/-- the state so far and how the block ended -/
abbrev R := PS × Ctl

def andThen (x : R) (f : PS → R) : R :=
  match x.2 with
  | .go => f x.1
  | _ => x

/-- a `for` loop whose body may `return` or raise -/
def loopR {β : Type} (f : PS → β → R) : PS → List β → R
  | p, [] => (p, .go)
  | p, x :: xs =>
    match f p x with
    | (p', .go) => loopR f p' xs
    | r => r

/-- `self.rewards[a] += self.reward_scheme[event]` -/
def reward (p : PS) (a : Aid) (v : Option Int) : R :=
  match p.r.lookup a with
  | none => (p, .err .keyError)                           -- `self.rewards[a]` is read first
  | some x =>
    match v with
    | none => (p, .err .keyError)                         -- `self.reward_scheme[event]`
    | some d => ({ p with r := dictSet p.r a (x + d) }, .go)

/-- `self.grid.remove(agent, ndx)`: `self._internal[ndx]` raises `IndexError` outside the grid -/
def removeG (w : World) (a : Aid) (p : Pos) : Except GErr World :=
  if w.inGrid p then w.remove a p else .error .badIndex

/-- `self.grid.remove(agent, src); self.grid.place(agent, dst)` — the result of `place` is not looked at -/
def teleTo (w : World) (a : Aid) (src dst : Pos) : World × Option GErr :=
  match removeG w a src with
  | .error e => (w, some e)
  | .ok w1 =>
    if w1.inGrid dst then ((w1.place a dst).2, none)      -- refused: `w1` itself (in no cell, position unchanged)
    else (w1, some .badIndex)                             -- `self._internal[ndx]` in `query`: IndexError

/-- `if np.array_equal(agent.position, [9, 0]): … elif np.array_equal(agent.position, [9, far]): …` -/
def tele (cfg : Cfg) (w : World) (a : Aid) : World × Option GErr :=
  if (w.stOf a).pos = (9, 0) then teleTo w a (9, 0) (9, cfg.far)
  else if (w.stOf a).pos = (9, cfg.far) then teleTo w a (9, cfg.far) (9, 0)
  else (w, none)

/-- `move_result = self.move_actor.process_action(agent, action)`; (`PacmanSim` only:) `if not move_result:
rewards += bad_move else: rewards += entropy`; the teleport -/
def moveTele (cfg : Cfg) (p : PS) (a : Aid) (act : Int) (rew : Bool) : R :=
  match p.w.driftAct a act with
  | .error e => (p, .err e)                               -- nothing was changed before the actor raised
  | .ok (res, w1, _) =>
    andThen (if rew then reward { p with w := w1 } a (if res = some true then cfg.scheme.entropy else cfg.scheme.badMove)
             else ({ p with w := w1 }, .go)) fun p2 =>
      let r := tele cfg p2.w a
      ({ p2 with w := r.1 }, match r.2 with | none => .go | some e => .err e)

/-- one pass of the first overlap loop of `PacmanSim.step` -/
def eat1 (cfg : Cfg) (p : PS) (b : Aid) : R :=
  if b = cfg.pacman then (p, .go)                          -- `if agent.id == self.pacman.id: continue`
  else if b ∈ cfg.food then                                -- pacman eats food
    andThen (reward p cfg.pacman cfg.scheme.eatFood) fun p1 =>
      match removeG p1.w b (p1.w.stOf cfg.pacman).pos with
      | .error e => (p1, .err e)
      | .ok w2 => ({ p1 with w := w2.setHealth b 0 }, .go)
  else if b ∈ cfg.baddies then                             -- baddie eats pacman
    andThen (reward p cfg.pacman cfg.scheme.die) fun p1 =>
      andThen (reward p1 b cfg.scheme.kill) fun p2 =>
        ({ p2 with w := p2.w.setHealth cfg.pacman 0 }, .go)
  else (p, .go)

/-- one pass of the second overlap loop of `PacmanSim.step` -/
def bite1 (cfg : Cfg) (p : PS) (b : Aid) : R :=
  if b = cfg.pacman then (p, .go)
  else if b ∈ cfg.baddies then
    andThen (reward p cfg.pacman cfg.scheme.die) fun p1 =>
      andThen (reward p1 b cfg.scheme.kill) fun p2 =>
        ({ p2 with w := p2.w.setHealth cfg.pacman 0 }, .go)
  else (p, .go)

/-- `candidate_agents = self.grid[r, c]; for agent in candidate_agents.copy().values(): …` on the cell of pacman's
`position` (the loop runs over the snapshot taken before it) -/
def overlapLoop (cfg : Cfg) (f : PS → Aid → R) (p : PS) : R :=
  let pos := (p.w.stOf cfg.pacman).pos
  if p.w.inGrid pos then loopR f p (p.w.cell pos) else (p, .err .badIndex)

/-- one pass of the baddie loop of `PacmanSim.step` -/
def baddie1 (cfg : Cfg) (p : PS) (x : Aid × Int) : R :=
  if x.1 = cfg.pacman then (p, .go)                        -- `if agent_id == 'pacman': continue`
  else if p.w.n ≤ x.1 then (p, .err .keyError)             -- `agent = self.agents[agent_id]`
  else moveTele cfg p x.1 x.2 true

/-- `if not self.pacman.active: self.grid.remove(self.pacman, tuple(self.pacman.position))` -/
def finish (cfg : Cfg) (p : PS) : R :=
  if !(p.w.stOf cfg.pacman).active then
    match removeG p.w cfg.pacman (p.w.stOf cfg.pacman).pos with
    | .error e => (p, .err e)
    | .ok w' => ({ p with w := w' }, .go)
  else (p, .go)

/-- `PacmanSim.step` -/
def stepFull (cfg : Cfg) (p : PS) (acts : List (Aid × Int)) : R :=
  match acts.lookup cfg.pacman with
  | none => (p, .err .keyError)                            -- `action_dict['pacman']`
  | some act =>
    andThen (moveTele cfg p cfg.pacman act true) fun p1 =>
      andThen (overlapLoop cfg (eat1 cfg) p1) fun p2 =>
        andThen (loopR (baddie1 cfg) p2 acts) fun p3 =>
          andThen (overlapLoop cfg (bite1 cfg) p3) fun p4 =>
            finish cfg p4

/-! ## `PacmanSimSimple.step` -/

/-- the baddie branch of both overlap loops of `PacmanSimSimple.step`: `rewards['pacman'] += die; pacman.health = 0;
self.grid.remove(self.pacman, tuple(self.pacman.position)); return` -/
def dieNow (cfg : Cfg) (p : PS) : R :=
  andThen (reward p cfg.pacman cfg.scheme.die) fun p1 =>
    let w1 := p1.w.setHealth cfg.pacman 0
    match removeG w1 cfg.pacman (w1.stOf cfg.pacman).pos with
    | .error e => ({ p1 with w := w1 }, .err e)
    | .ok w2 => ({ p1 with w := w2 }, .ret)

def eat1S (cfg : Cfg) (p : PS) (b : Aid) : R :=
  if b = cfg.pacman then (p, .go)
  else if b ∈ cfg.food then
    andThen (reward p cfg.pacman cfg.scheme.eatFood) fun p1 =>
      match removeG p1.w b (p1.w.stOf cfg.pacman).pos with
      | .error e => (p1, .err e)
      | .ok w2 => ({ p1 with w := w2.setHealth b 0 }, .go)
  else if b ∈ cfg.baddies then dieNow cfg p
  else (p, .go)

def bite1S (cfg : Cfg) (p : PS) (b : Aid) : R :=
  if b = cfg.pacman then (p, .go)
  else if b ∈ cfg.baddies then dieNow cfg p
  else (p, .go)

/-- the moves of `baddie_0`, `baddie_1` (`step_count % 10`) -/
def script01 (k : Nat) : Int × Int :=
  if k % 10 = 0 then (3, 1) else if k % 10 = 3 then (2, 2) else if k % 10 = 5 then (1, 3)
  else if k % 10 = 8 then (4, 4) else (0, 0)

/-- the moves of `baddie_3`, `baddie_4` (`step_count % 14`) -/
def script34 (k : Nat) : Int × Int :=
  if k % 14 = 0 then (3, 1) else if k % 14 = 3 then (2, 2) else if k % 14 = 7 then (1, 3)
  else if k % 14 = 9 then (4, 4) else if k % 14 = 11 then (1, 3) else if k % 14 = 12 then (4, 4) else (0, 0)

/-- the move of `baddie_2`: `if self.step_count % 13 == 0: if self.agents['baddie_2'].orientation == 3: 1 else: 3` -/
def script2 (cfg : Cfg) (w : World) (k : Nat) : Except GErr Int :=
  if k % 13 = 0 then
    match cfg.named.getD 2 none with
    | none => .error .keyError                             -- `self.agents['baddie_2']`
    | some b =>
      if (w.cfgOf b).hasOrient then .ok (if (w.stOf b).orient = 3 then 1 else 3)
      else .error .other                                   -- no attribute `orientation`
  else .ok 0

/-- the scripted action dict, in insertion order: `(i, move of baddie_i)` -/
def script (cfg : Cfg) (w : World) (k : Nat) : Except GErr (List (Nat × Int)) :=
  match script2 cfg w k with
  | .error e => .error e
  | .ok a2 => .ok [(0, (script01 k).1), (1, (script01 k).2), (2, a2), (3, (script34 k).1), (4, (script34 k).2)]

/-- one pass of the baddie loop of `PacmanSimSimple.step` (no reward) -/
def baddie1S (cfg : Cfg) (p : PS) (x : Nat × Int) : R :=
  match cfg.named.getD x.1 none with
  | none => (p, .err .keyError)                            -- `agent = self.agents[agent_id]`
  | some b => moveTele cfg p b x.2 false

/-- `PacmanSimSimple.step` up to (not including) `self.step_count += 1` -/
def stepSimple (cfg : Cfg) (p : PS) (k : Nat) (acts : List (Aid × Int)) : R :=
  match acts.lookup cfg.pacman with
  | none => (p, .err .keyError)
  | some act =>
    andThen (moveTele cfg p cfg.pacman act true) fun p1 =>
      andThen (overlapLoop cfg (eat1S cfg) p1) fun p2 =>
        match script cfg p2.w k with
        | .error e => (p2, .err e)
        | .ok sc =>
          andThen (loopR (baddie1S cfg) p2 sc) fun p3 =>
            overlapLoop cfg (bite1S cfg) p3

def stepR (cfg : Cfg) (p : PS) (k : Nat) (acts : List (Aid × Int)) : R :=
  if cfg.simple then stepSimple cfg p k acts else stepFull cfg p acts

def Ctl.toErr : Ctl → Option GErr
  | .err e => some e
  | _ => none

/-- `step(action_dict)`: the state it leaves (also when it raises) and the exception, if any -/
def step (cfg : Cfg) (s : St) (acts : List (Aid × Int)) : St × Option GErr :=
  match s.ex.rewards with
  | none => (s, some .other)
  | some r =>
    let x := stepR cfg ⟨s.ex.w, r, s.ex.tape⟩ s.count acts
    ({ ex := { w := x.1.w, rewards := some x.1.r, tape := x.1.t },
       count := if cfg.simple && x.2 == .go then s.count + 1 else s.count },     -- `self.step_count += 1`
     x.2.toErr)

/-! ## `reset` and the getters -/

/-- `SmartGridWorldSimulation.reset`; `PacmanSimSimple`: `super().reset(); self.step_count = 0` -/
def reset (cfg : Cfg) (order : List StateComp) (s : St) : Except GErr St :=
  match Ex.reset cfg.toEx order s.ex with
  | .error e => .error e
  | .ok e => .ok { ex := e, count := 0 }

/-- `get_all_done`: `if not self.pacman.active: True; else: for agent in self.agents.values(): if isinstance(agent,
FoodAgent): return False; return True` — as it IS: an eaten `FoodAgent` is still in `self.agents` -/
def allDoneW (cfg : Cfg) (w : World) : Bool := !(w.stOf cfg.pacman).active || cfg.food.isEmpty

def getAllDone (cfg : Cfg) (s : St) : Except GErr Bool :=
  match s.ex.rewards with
  | none => .error .other
  | some _ => .ok (allDoneW cfg s.ex.w)

/-- `get_done(agent_id)`: `return self.get_all_done()` — the id is not looked at -/
def getDone (cfg : Cfg) (s : St) (_a : Aid) : Except GErr Bool := getAllDone cfg s

def getObs (cfg : Cfg) (s : St) (a : Aid) : Except GErr (List (String × Observers.Obs) × St) :=
  match Ex.getObs cfg.toEx s.ex a with
  | .error e => .error e
  | .ok (o, e) => .ok (o, { s with ex := e })

def getReward (cfg : Cfg) (s : St) (a : Aid) : Except GErr (Int × St) :=
  match Ex.getReward cfg.toEx s.ex a with
  | .error e => .error e
  | .ok (x, e) => .ok (x, { s with ex := e })

/-! ## Histories -/

inductive Op where
  | reset   (order : List StateComp) (tape : Tape)
  | step    (acts : List (Aid × Int)) (tape : Tape)
  | obs     (a : Aid) (tape : Tape)
  | rew     (a : Aid)
  | done    (a : Aid)
  | allDone

/-- one call and what can be seen of the simulation afterwards -/
structure Entry where
  res     : ERes
  w       : World
  rewards : Option Ledger
  count   : Nat

def St.withTape (s : St) (t : Tape) : St := { s with ex := { s.ex with tape := t } }

def entryOf (res : ERes) (s : St) : Entry := ⟨res, s.ex.w, s.ex.rewards, s.count⟩

def runOp (cfg : Cfg) (s : St) : Op → Entry × St
  | .reset order tape =>
    match reset cfg order (s.withTape tape) with
    | .ok s' => (entryOf .unit s', s')
    | .error e => (entryOf (.err e) s, s)
  | .step acts tape =>
    let r := step cfg (s.withTape tape) acts
    (entryOf (match r.2 with | none => .unit | some e => .err e) r.1, r.1)
  | .obs a tape =>
    match getObs cfg (s.withTape tape) a with
    | .ok (o, s') => (entryOf (.obs o) s', s')
    | .error e => (entryOf (.err e) s, s)
  | .rew a =>
    match getReward cfg s a with
    | .ok (r, s') => (entryOf (.int r) s', s')
    | .error e => (entryOf (.err e) s, s)
  | .done a => (entryOf (Ex.resOfBool (getDone cfg s a)) s, s)
  | .allDone => (entryOf (Ex.resOfBool (getAllDone cfg s)) s, s)

def Op.isReset : Op → Bool
  | .reset _ _ => true
  | _ => false

/-- a history.  It goes on after a `step` or a getter that raised (their state is exact); it ends with a `reset` that
raised and with any call made before the first successful `reset`. -/
def runOps (cfg : Cfg) : St → List Op → List Entry × St
  | s, [] => ([], s)
  | s, op :: ops =>
    let r := runOp cfg s op
    if r.1.res.isErr && (op.isReset || r.2.ex.rewards.isNone) then ([r.1], r.2)
    else
      let rest := runOps cfg r.2 ops
      (r.1 :: rest.1, rest.2)

/-! ## The simulation as a `SimIface` (what the managers drive) -/

def toSimIface (cfg : Cfg) (n : Nat) : SimIface St Int ObsOut Unit where
  n := n
  learning := cfg.isLearning
  reset := fun s => match reset cfg cfg.comps s with | .ok s' => s' | .error _ => s
  step := fun s acts => (step cfg s acts).1                -- the state a raising `step` leaves is the model's too
  obs := fun s a => match getObs cfg s a with | .ok (o, s') => (.ok o, s') | .error e => (.error e, s)
  reward := fun s a => match getReward cfg s a with | .ok (x, s') => (x, s') | .error _ => (0, s)
  done := fun s a => match getDone cfg s a with | .ok b => b | .error _ => false
  allDone := fun s => match getAllDone cfg s with | .ok b => b | .error _ => false
  info := fun _ _ => ()
  next := fun _ => []
  pending := fun s a => pendingOf cfg.toEx s.ex a

end PM
end Abmarl
