import Abmarl.Model.Managers
/-!
# Gym and OpenSpiel adapters over a manager (abmarl/external/*.py)

`GymWrapper`: reset/step of the single learning agent.  `OpenSpielWrapper`: the state machine
with `_should_reset` and `current_player`, `_append_obs` (which reads `sim.sim.get_obs`
directly, an effectful read on the simulation inside the manager), the filtering of actions of
done agents, the fake step, and (after repairs F5 and C15-K1) the choice of the first not-done
reported agent as current player, also in the fake step.  Every adapter call records, as ghost, the manager calls it made.
-/
namespace Abmarl
variable {σ α ω ι : Type}

/-! ## Gym -/

structure GymOut (ω ι : Type) where
  obs    : ω
  reward : Option Int      -- `none` at reset
  done   : Option Bool
  info   : Option ι

/-- `GymWrapper.reset` / `GymWrapper.step` for the single learning agent `ag`;
a missing entry is the `KeyError` the Python raises -/
def gymCall (S : SimIface σ α ω ι) (k : MKind) (ag : Aid) (m : MState σ) (act : Option α) :
    Except Err (GymOut ω ι) × Entry α ω ι × MState σ :=
  match act with
  | none =>
    let r := runOp (α := α) S k m .reset
    (match r.1.res with
     | .resetOk obs => (match obs.lookup ag with
        | some o => .ok ⟨o, none, none, none⟩
        | none => .error .crash)
     | .err e => .error e
     | .stepOk _ => .error .crash, r.1, r.2)
  | some a =>
    let r := runOp S k m (.step [(ag, a)])
    (match r.1.res with
     | .stepOk out =>
       (match out.obs.lookup ag, out.rewards.lookup ag, out.dones.lookup ag, out.infos.lookup ag with
        | some o, some rw, some d, some i => .ok ⟨o, some rw, some d, some i⟩
        | _, _, _, _ => .error .crash)
     | .err e => .error e
     | .resetOk _ => .error .crash, r.1, r.2)

/-- a sequence of gym calls (`none` = reset, `some a` = step) -/
def gymRun (S : SimIface σ α ω ι) (k : MKind) (ag : Aid) :
    MState σ → List (Option α) → List (Except Err (GymOut ω ι) × Entry α ω ι)
  | _, [] => []
  | m, c :: cs =>
    let r := gymCall S k ag m c
    (r.1, r.2.1) :: gymRun S k ag r.2.2 cs

/-! ## GymABS (a gym environment used as an AgentBasedSimulation) -/

/-- an arbitrary gymnasium environment as a state machine -/
structure GymEnv (ε α ω ι : Type) where
  reset : ε → (ω × ι) × ε
  step  : ε → α → (ω × Int × Bool × Bool × ι) × ε

/-- every field `GymABS` stores (`_obs`, `_reward`, `_done`, `_info`) plus the environment -/
structure GymABSSt (ε ω ι : Type) where
  env    : ε
  obs    : Option ω := none
  reward : Option Int := none
  done   : Option Bool := none
  info   : Option ι := none

/-- `GymABS.reset` (after repair F4 it also clears the stored reward and done flag) -/
def gymabsReset {ε : Type} (E : GymEnv ε α ω ι) (s : GymABSSt ε ω ι) : GymABSSt ε ω ι :=
  let r := E.reset s.env
  { env := r.2, obs := some r.1.1, info := some r.1.2, reward := none, done := none }

/-- `GymABS.step` -/
def gymabsStep {ε : Type} (E : GymEnv ε α ω ι) (s : GymABSSt ε ω ι) (a : α) : GymABSSt ε ω ι :=
  let r := E.step s.env a
  { env := r.2, obs := some r.1.1, reward := some r.1.2.1, done := some (r.1.2.2.1 || r.1.2.2.2.1),
    info := some r.1.2.2.2.2 }

/-! ## OpenSpiel -/

inductive StepType where
  | first | mid | last
deriving Repr, DecidableEq, Inhabited

structure TimeStep (ω : Type) where
  infoState : List (Aid × ω)
  legal     : List Aid                  -- keys of `legal_actions` (values: the whole action space)
  current   : Aid
  rewards   : Option (List (Aid × Int))
  stepType  : StepType

structure OSState (σ : Type) where
  m           : MState σ
  shouldReset : Bool := true
  current     : Aid := 0

/-- `_append_obs`: every learning agent missing from `obs` gets `sim.sim.get_obs(agent)` -/
def appendObs (S : SimIface σ α ω ι) : List Aid → List (Aid × ω) → σ → List (Aid × ω) × σ
  | [], obs, s => (obs, s)
  | a :: as, obs, s =>
    if a ∈ obs.map (·.1) then appendObs S as obs s
    else
      let r := S.obs s a
      appendObs S as (obs ++ [(a, r.1)]) r.2

/-- `_append_reward` -/
def appendReward (learners : List Aid) (rew : List (Aid × Int)) : List (Aid × Int) :=
  rew ++ (learners.filter (fun a => !(a ∈ rew.map (·.1)))).map (fun a => (a, 0))

/-- first reported agent that is not done, else the first key (repair F5) -/
def pickCurrent (obs : List (Aid × ω)) (dones : List (Aid × Bool)) : Option Aid :=
  match (obs.filter fun p => !((dones.lookup p.1).getD false)).head? with
  | some p => some p.1
  | none => obs.head?.map (·.1)

/-- `_take_fake_step`'s current player (repair C15-K1): the first key of the appended observations that
is not in the manager's `done_agents`, else the first key -/
def pickFake (obs : List (Aid × ω)) (doneSet : List Aid) : Option Aid :=
  match (obs.filter fun p => !(decide (p.1 ∈ doneSet))).head? with
  | some p => some p.1
  | none => obs.head?.map (·.1)

structure OSCall (α ω ι : Type) where
  res      : Except Err (TimeStep ω)
  /-- ghost: the manager calls made during this adapter call -/
  mgrCalls : List (Entry α ω ι)

def osReset (S : SimIface σ α ω ι) (k : MKind) (st : OSState σ) : OSCall α ω ι × OSState σ :=
  let r := runOp (α := α) S k st.m .reset
  match r.1.res with
  | .resetOk obs =>
    (match obs.head? with
     | none => (⟨.error .crash, [r.1]⟩, { st with m := r.2, shouldReset := false })
     | some p =>
       let ao := appendObs S S.learners obs r.2.sim
       (⟨.ok { infoState := ao.1, legal := S.learners, current := p.1, rewards := none, stepType := .first },
         [r.1]⟩,
        { m := { r.2 with sim := ao.2 }, shouldReset := false, current := p.1 }))
  | .err e => (⟨.error e, [r.1]⟩, { st with shouldReset := false })
  | .stepOk _ => (⟨.error .crash, [r.1]⟩, st)

/-- the action list as a dictionary: the current player's action in turn-based play, one action per
learning agent otherwise -/
def osDict (S : SimIface σ α ω ι) (k : MKind) (current : Aid) (acts : List α) :
    Except Err (List (Aid × α)) :=
  if k = .turnBased then
    (match acts with
     | [] => .error .crash                    -- IndexError
     | a :: _ => .ok [(current, a)])
  else if acts.length ≠ S.learners.length then .error .rejected    -- the length assertion
  else .ok (S.learners.zip acts)

def osStep (S : SimIface σ α ω ι) (k : MKind) (st : OSState σ) (acts : List α) :
    OSCall α ω ι × OSState σ :=
  if st.shouldReset then osReset S k st
  else
    match osDict S k st.current acts with
    | .error e => (⟨.error e, []⟩, st)
    | .ok dict =>
      let dict' := dict.filter fun p => !(p.1 ∈ st.m.doneSet)
      if dict'.isEmpty then
        -- `_take_fake_step`
        let ao := appendObs S S.learners [] st.m.sim
        match pickFake ao.1 st.m.doneSet with
        | none => (⟨.error .crash, []⟩, st)
        | some cur =>
          (⟨.ok { infoState := ao.1, legal := S.learners, current := cur,
                  rewards := some (appendReward S.learners []), stepType := .mid }, []⟩,
           { st with m := { st.m with sim := ao.2 }, current := cur })
      else
        let r := runOp S k st.m (.step dict')
        match r.1.res with
        | .stepOk out =>
          (match pickCurrent out.obs out.dones with
           | none => (⟨.error .crash, [r.1]⟩, { st with m := r.2 })
           | some cur =>
             let stype := if out.allDone then StepType.last else StepType.mid
             let ao := appendObs S S.learners out.obs r.2.sim
             (⟨.ok { infoState := ao.1, legal := S.learners, current := cur,
                     rewards := some (appendReward S.learners out.rewards), stepType := stype }, [r.1]⟩,
              { m := { r.2 with sim := ao.2 }, shouldReset := out.allDone, current := cur }))
        | .err e => (⟨.error e, [r.1]⟩, st)
        | .resetOk _ => (⟨.error .crash, [r.1]⟩, st)

/-- a play-through: each item is an action list handed to `step` (`none` = explicit `reset()`) -/
def osRun (S : SimIface σ α ω ι) (k : MKind) : OSState σ → List (Option (List α)) → List (OSCall α ω ι)
  | _, [] => []
  | st, c :: cs =>
    let r := match c with
      | none => osReset S k st
      | some acts => osStep S k st acts
    r.1 :: osRun S k r.2 cs

/-! ## OpenSpiel with the public `current_player` setter in the call alphabet

`OpenSpielWrapper.current_player = a` is a public setter that asserts only that `a` is a learning agent.
With it an action can arrive, in turn-based play, for an agent that is already done; that is the only
way the done-agent filter and `_take_fake_step` are reached there (`osRun_sound`).  `osRunX` delegates
resets and steps to the very `osReset` / `osStep` above. -/

inductive OSIn (α : Type) where
  | reset
  | step (acts : List α)
  | setCurrent (a : Aid)

/-- an `osRun` call as an `osRunX` call -/
def OSIn.ofPlain : Option (List α) → OSIn α
  | none => .reset
  | some acts => .step acts

/-- the setter: `assert value in self._learning_agents` (an `AssertionError` leaves everything as it
was), then only `_current_player` changes -/
def osSetCurrent (S : SimIface σ α ω ι) (st : OSState σ) (a : Aid) : Except Err Unit × OSState σ :=
  if a ∈ S.learners then (.ok (), { st with current := a }) else (.error .rejected, st)

/-- what a call of the richer alphabet returns: a time step (with the ghost manager calls) or the
setter's outcome -/
inductive OSOut (α ω ι : Type) where
  | ts  (c : OSCall α ω ι)
  | set (res : Except Err Unit)

def osRunX (S : SimIface σ α ω ι) (k : MKind) : OSState σ → List (OSIn α) → List (OSOut α ω ι)
  | _, [] => []
  | st, .reset :: cs =>
    let r := osReset S k st
    .ts r.1 :: osRunX S k r.2 cs
  | st, .step acts :: cs =>
    let r := osStep S k st acts
    .ts r.1 :: osRunX S k r.2 cs
  | st, .setCurrent a :: cs =>
    let r := osSetCurrent S st a
    .set r.1 :: osRunX S k r.2 cs


end Abmarl
