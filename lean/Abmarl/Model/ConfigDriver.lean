import Abmarl.Model.Wire
import Abmarl.Model.Config
import Abmarl.Spec.Config
/-!
Driver glue for C19 (`cfg_attr`, `cfg_overlap`, `cfg_box`): wire ↔ model types.  Trusted base.

Python values on the wire:
`(none) (b 0|1) (i n) (f num den) (fs nan|pinf|ninf) (s cp…) (l v…) (t v…) (set v…)
 (d (k v)…) (nd dtype (dim…) (x…)) (ni n) (nf num den) (nfs nan|pinf|ninf) (ag 0|1 cp…)`
where a string is its list of code points and an array element `x` is `(num den)` or one of the
atoms `nan pinf ninf`.
-/
namespace Abmarl
namespace CfgDriver
open Cfg

def special? : Val → Option Flt
  | .atom "nan" => some .nan
  | .atom "pinf" => some .pinf
  | .atom "ninf" => some .ninf
  | _ => none

def rat? : Val → Val → Option Rat
  | .int n, .int d => if d ≤ 0 then none else some (mkRat n d.toNat)
  | _, _ => none

def flt? : Val → Option Flt
  | .list [n, d] => do pure (.fin (← rat? n d))
  | v => special? v

def str? (cps : List Val) : Option String := do
  let ns ← cps.mapM Val.nat?
  pure (String.ofList (ns.map Char.ofNat))

def dt? : Val → Option DT
  | .atom "i64" => some .i64
  | .atom "f64" => some .f64
  | .atom "i32" => some .i32
  | .atom "f32" => some .f32
  | .atom "bool" => some .bool
  | _ => none

partial def pyval? : Val → Option PyVal
  | .list [.atom "none"] => some .none
  | .list [.atom "b", b] => do pure (.bool (← b.bool?))
  | .list [.atom "i", .int n] => some (.int n)
  | .list [.atom "f", n, d] => do pure (.float (.fin (← rat? n d)))
  | .list [.atom "fs", s] => do pure (.float (← special? s))
  | .list (.atom "s" :: cps) => do pure (.str (← str? cps))
  | .list (.atom "l" :: vs) => do pure (.list (← vs.mapM pyval?))
  | .list (.atom "t" :: vs) => do pure (.tuple (← vs.mapM pyval?))
  | .list (.atom "set" :: vs) => do pure (.set (← vs.mapM pyval?))
  | .list (.atom "d" :: kvs) => do
    let items ← kvs.mapM fun kv =>
      match kv with
      | .list [k, v] => do pure ((← pyval? k), (← pyval? v))
      | _ => none
    pure (.dict items)
  | .list [.atom "nd", dt, sh, xs] => do
    pure (.ndarray (← dt? dt) (← sh.nats?) (← (← xs.list?).mapM flt?))
  | .list [.atom "ni", .int n] => some (.npInt n)
  | .list [.atom "nf", n, d] => do pure (.npFloat (.fin (← rat? n d)))
  | .list [.atom "nfs", s] => do pure (.npFloat (← special? s))
  | .list (.atom "ag" :: gw :: cps) => do pure (.agent (← gw.bool?) (← str? cps))
  | _ => none

def box? : Val → Option BoxSp
  | .list [isInt, sh, .list [ln, ld], .list [hn, hd]] => do
    pure { isInt := ← isInt.bool?, shape := ← sh.nats?, low := ← rat? ln ld, high := ← rat? hn hd }
  | _ => none

def space? : Val → Option Space
  | .list [.atom "disc", n] => do pure (.discrete (← n.nat?))
  | .list [.atom "box", b] => do pure (.box (← box? b))
  | _ => none

def attr? : String → Option Attr
  | "id" => some .id | "seed" => some .seed | "active" => some .active | "flag" => some .flag
  | "optFlag" => some .optFlag | "encoding" => some .encoding
  | "initialPosition" => some .initialPosition | "renderShape" => some .renderShape
  | "renderColor" => some .renderColor | "renderSize" => some .renderSize
  | "health" => some .health | "initialHealth" => some .initialHealth | "range" => some .range
  | "unit" => some .unit | "simAttacks" => some .simAttacks | "initialAmmo" => some .initialAmmo
  | "ammo" => some .ammo | "orientation" => some .orientation
  | "initialOrientation" => some .initialOrientation | "nullPoint" => some .nullPoint
  | "agentsSim" => some .agentsSim | "agentsComp" => some .agentsComp
  | "attackMapping" => some .attackMapping | "targetEncMapping" => some .targetEncMapping
  | "targetIdMapping" => some .targetIdMapping | "encSet" => some .encSet
  | "barrierFree" => some .barrierFree | "gridDim" => some .gridDim
  | "overlapping" => some .overlapping
  | _ => none

def outcomeStr : Outcome → String
  | .accepted => "acc" | .rejAssign => "rejA" | .rejFinal => "rejF" | .unmodelled => "unmodelled"

def outcome? : String → Option Outcome
  | "acc" => some .accepted | "rejA" => some .rejAssign | "rejF" => some .rejFinal
  | _ => none

def boxOutStr : BoxOut → String
  | .yes => "yes" | .no => "no" | .raises => "raises" | .unmodelled => "unmodelled"

def boxOut? : String → Option BoxOut
  | "yes" => some .yes | "no" => some .no | "raises" => some .raises
  | _ => none

def b2v (b : Bool) : Val := Val.ofBool b

/-- `(cfg_attr attr (enc…) ((cp…)…) space value implOutcome|none)` -/
def handleAttr (args : List Val) : Option Val := do
  match args with
  | [.atom a, encs, ids, sp, v, impl] =>
    let a ← attr? a
    let c : Ctx := { encs := ← encs.ints?, ids := ← (← ids.list?).mapM (fun i => do str? (← i.list?)),
                     space := ← space? sp }
    let v ← pyval? v
    let m := outcome a c v
    -- self-test of `model_meets_specAccept` (whose hypothesis excludes the unmodelled inputs)
    let ms := specAccept a c v m || m == .unmodelled
    let is : Val ← match impl with
      | .atom "none" => pure (.int (-1))
      | .atom s => do pure (b2v (specAccept a c v (← outcome? s)))
      | _ => none
    pure (.list [.atom (outcomeStr m), b2v ms, is])
  | _ => none

def insertSorted (x : Int) : List Int → List Int
  | [] => [x]
  | y :: ys => if x < y then x :: y :: ys else if x = y then y :: ys else y :: insertSorted x ys

def sortDedup (l : List Int) : List Int := l.foldr insertSorted []

def insertEntry (e : Int × List Int) : List (Int × List Int) → List (Int × List Int)
  | [] => [e]
  | f :: fs => if e.1 < f.1 then e :: f :: fs else f :: insertEntry e fs

/-- canonical form of a stored table: keys ascending, sets ascending without repetition -/
def canonTable (t : Table) : Table := (t.map fun kv => (kv.1, sortDedup kv.2)).foldr insertEntry []

def encTable (t : Table) : Val := .list (t.map fun kv => .list [.int kv.1, Val.ofInts kv.2])

def rawEntry? : Val → Option (Int × OvVal)
  | .list [.int k, .list [.atom "i", .int i]] => some (k, .int i)
  | .list [.int k, .list (.atom "s" :: xs)] => do pure (k, .set (← xs.mapM Val.int?))
  | _ => none

def tableEntry? : Val → Option (Int × List Int)
  | .list [.int k, xs] => do pure (k, ← xs.ints?)
  | _ => none

def zipMatrix (univ : List Int) (bits : List Bool) : List (Int × Int × Bool) :=
  ((univ.flatMap fun a => univ.map fun b => (a, b)).zip bits).map fun p => (p.1.1, p.1.2, p.2)

/-- `(cfg_overlap rawTable (enc…) implClosed|none (bit…))` -/
def handleOverlap (args : List Val) : Option Val := do
  match args with
  | [raw, univ, implClosed, implBits] =>
    let raw ← (← raw.list?).mapM rawEntry?
    let univ ← univ.ints?
    let closed := closeRaw raw
    let mat := availMatrix closed univ
    let ms := specOverlapSym raw closed mat
    let is : Val ← match implClosed with
      | .atom "none" => pure (.int (-1))
      | .list es => do
        let it ← es.mapM tableEntry?
        let bits ← implBits.bools?
        if bits.length != univ.length * univ.length then none
        else pure (b2v (specOverlapSym raw it (zipMatrix univ bits)))
      | _ => none
    pure (.list [encTable (canonTable closed), .list (mat.map fun e => b2v e.2.2), b2v ms, is])
  | _ => none

/-- `(cfg_box box value implOut|none)` -/
def handleBox (args : List Val) : Option Val := do
  match args with
  | [b, v, impl] =>
    let b ← box? b
    let v ← pyval? v
    let m := boxContains b v
    -- self-test of `model_meets_specBox`
    let ms := specBox b v m
    let is : Val ← match impl with
      | .atom "none" => pure (.int (-1))
      | .atom s => do pure (b2v (specBox b v (← boxOut? s)))
      | _ => none
    pure (.list [.atom (boxOutStr m), b2v ms, is])
  | _ => none

end CfgDriver
end Abmarl
