import Abmarl.Model.Wire
import Abmarl.Model.Spaces
import Abmarl.Model.SpacesDriver
/-!
Driver glue for C02's runtime monitor: op `gmember`.  Trusted base.

Request `(gmember space point implContains)` or `(gmember space point implContains outcome)` in
the wire format of `SpacesDriver` (space: `(d n start)` `(mb n)` `(md (r…))`
`(box (shape…) (lo…) (hi…) wide)` `(fbox (shape…) ((num den)…) ((num den)…))` `(ubox (shape…))`
`(dict (key…) (space…))` `(tup (space…))`; point: `(s number)` `(a (shape…) (number…))`
`(m (key…) (point…))` `(t (point…))`, plus `(x why)` for a leaf value that has no canonical form —
wrong Python type, object array, NaN, a dtype that cannot be cast to the space's: a member of
nothing).  `implContains` is what the real library answered to `point in space` (1/0);
`outcome` (`ok` / `err`), when present, says how the real simulation processed the point as an
action.

Reply `(modelMem specOnModel specOnImpl why)`: `modelMem` = `mem space point` (1/0) — a point whose
structure or array shape does not fit the space is not a member (`why` = `shape`), a point of the
right structure with a value outside is not a member (`why` = `value`), else `why` = `in`;
`specOnModel` = -1 (the pair comes from the implementation; there is no second outcome to judge);
`specOnImpl` = C02 on this pair = "the point is a member of the declared space (and, for an action,
it was processed without error)", judged by `mem` on the dumped real space and real point.
-/
namespace Abmarl
namespace MemberDriver
open SpacesDriver

/-- a well-formed point, whatever space it is meant for -/
partial def wellFormedPt (v : Val) : Bool :=
  match v with
  | .list [.atom "s", x] => (num? x).isSome
  | .list [.atom "a", sh, xs] => (sh.nats?).isSome && (nums? xs).isSome
  | .list [.atom "m", ks, .list ps] => (ks.nats?).isSome && ps.all wellFormedPt
  | .list [.atom "t", .list ps] => ps.all wellFormedPt
  | .list [.atom "x", _] => true
  | _ => false

def handle (args : List Val) : Option Val := do
  let (s, p, impl, outcome) ←
    (match args with
     | [s, p, impl] => some (s, p, impl, none)
     | [s, p, impl, .atom "ok"] => some (s, p, impl, some true)
     | [s, p, impl, .atom "err"] => some (s, p, impl, some false)
     | _ => none)
  let s ← space? s
  let _ ← impl.bool?
  if !wellFormedPt p then none
  let (m, why) :=
    match pt? s p with
    | some q => if mem s q then (true, "in") else (false, "value")
    | none => (false, "shape")
  let spec := m && outcome.getD true
  pure (.list [b2i m, .int (-1), b2i spec, .atom why])

end MemberDriver
end Abmarl
