import Abmarl.Model.ReachDriver
import Abmarl.Spec.Pacman
/-!
Driver glue for `PacmanSim` / `PacmanSimSimple` (`gexample` / `mgrx` with configuration `(pacman …)`; dispatched in
Main.lean).  Trusted base.

`cfg` = `(pacman simple learning comps observers pacman food baddies (badMove entropy eatFood kill die) named)`:
`simple` 0/1 (`PacmanSimSimple`), `observers` as in `gexample`, `pacman` / `food` / `baddies` agent indices, the reward
scheme in units of 1/100 (each entry `()` = key absent | `(v)`), `named` = five entries `()` | `(index of baddie_i)`.
`stat`, `dyn0` as for the other grid examples.  ops: `(reset (comp…) tape)` | `(step ((agent move)…) tape)` |
`(obs a tape)` | `(rew a)` | `(done a)` | `(alldone)`.  Trace entry = `(res dyn ledger count)`; unlike the other examples
the dump is sent after a call that RAISED too (`dyn = ()`: no dump could be taken — a raising `reset`: the judge is
handed the state before the call).  Reply `(modelTrace specOnModel specOnImpl pre)`.
-/
namespace Abmarl
namespace PacmanDriver
open GridWire Ex ExamplesDriver

def optInt? (v : Val) : Option (Option Int) := opt? Val.int? v
def optNat? (v : Val) : Option (Option Nat) := opt? Val.nat? v

def cfg? (v : Val) : Option PM.Cfg := do
  match v with
  | .list [.atom "pacman", sm, lr, comps, obs, pm, food, bad, .list [s1, s2, s3, s4, s5], named] =>
    pure { simple := ← sm.bool?, learning := ← lr.bools?, comps := ← (← comps.list?).mapM GridSimDriver.comp?,
           observers := ← optList? obsKind? obs, pacman := ← pm.nat?, food := ← food.nats?, baddies := ← bad.nats?,
           scheme := { badMove := ← optInt? s1, entropy := ← optInt? s2, eatFood := ← optInt? s3, kill := ← optInt? s4,
                       die := ← optInt? s5 },
           named := ← (← named.list?).mapM optNat? }
  | _ => none

def acts? (v : Val) : Option (List (Aid × Int)) := do
  (← v.list?).mapM fun p => do
    match p with
    | .list [a, k] => pure ((← a.nat?), (← k.int?))
    | _ => none

def encActs (l : List (Aid × Int)) : Val := .list (l.map fun p => .list [Val.ofNat p.1, .int p.2])

def op? (v : Val) : Option PM.Op := do
  match v with
  | .list [.atom "reset", cs, t] => pure (.reset (← (← cs.list?).mapM GridSimDriver.comp?) (← t.nats?))
  | .list [.atom "step", a, t] => pure (.step (← acts? a) (← t.nats?))
  | .list [.atom "obs", a, t] => pure (.obs (← a.nat?) (← t.nats?))
  | .list [.atom "rew", a] => pure (.rew (← a.nat?))
  | .list [.atom "done", a] => pure (.done (← a.nat?))
  | .list [.atom "alldone"] => pure .allDone
  | _ => none

/-- a `reset` that raised is sent without dump (the state components may have changed the real object half-way) -/
def encEntry (x : PM.Op × PM.Entry) : Val :=
  if x.1.isReset && x.2.res.isErr then .list [encRes x.2.res, .list [], .list [], .int 0]
  else .list [encRes x.2.res, encDyn x.2.w, encLedger x.2.rewards, Val.ofNat x.2.count]

/-- the implementation's trace; an entry without dump stands for "what was there before the call" -/
def entries? (stat : Val) : PM.J → List Val → Option (List PM.Entry)
  | _, [] => some []
  | j, v :: vs => do
    let e : PM.Entry ← match v with
      | .list [r, .list [], _, _] => pure { res := ← res? r, w := j.w, rewards := j.rewards, count := j.count }
      | .list [r, dyn, l, c] => pure { res := ← res? r, w := ← world? stat dyn, rewards := ← ledger? l, count := ← c.nat? }
      | _ => none
    pure (e :: (← entries? stat ⟨e.w, e.rewards, e.count⟩ vs))

def handle (args : List Val) : Option Val := do
  match args with
  | [cfg, stat, dyn, ops, impl] =>
    let cfg ← cfg? cfg
    let w0 ← world? stat dyn
    let ops ← (← ops.list?).mapM op?
    let m := (PM.runOps cfg { ex := { w := w0 } } ops).1
    let judge := fun (tr : List PM.Entry) => b2v (PM.specPM cfg w0 (PM.zipOps ops tr))
    let is : Val :=
      match (impl.list?).bind (fun l => entries? stat ⟨w0, none, 0⟩ l) with
      | some tr => if tr.isEmpty then .int (-1) else judge tr
      | none => .int (-1)
    pure (.list [.list ((PM.zipOps ops m).map encEntry), judge m, is, b2v (PM.pmPre cfg w0 ops)])
  | _ => none

/-! ## `mgrx` -/

abbrev ME := Entry Int ObsOut Unit

def mop? (v : Val) : Option (Op Int) := do
  match v with
  | .list [.atom "r"] => pure .reset
  | .list [.atom "s", a] => pure (.step (← acts? a))
  | _ => none

def mres? (v : Val) : Option (Res Int ObsOut Unit) := do
  match v with
  | .list [.atom "r", o] => pure (.resetOk (← MgrDriver.pairList? obsOut? o))
  | .list [.atom "s", o, r, d, i, ad] =>
    pure (.stepOk { obs := ← MgrDriver.pairList? obsOut? o, rewards := ← MgrDriver.pairList? Val.int? r,
                    dones := ← MgrDriver.pairList? Val.bool? d, infos := ← MgrDriver.pairList? unit? i,
                    allDone := ← ad.bool? })
  | .list [.atom "e", .atom c] => pure (.err (MgrDriver.errOf c))
  | _ => none

def mentry? (op : Op Int) (v : Val) : Option ME := do
  match v with
  | .list [r, sa, acc, gh] =>
    let sa' ← match sa with
      | .list [.atom "n"] => pure none
      | .list [.atom "y", a] => pure (some (← acts? a))
      | _ => none
    pure { op := op, res := ← mres? r, simArgs := sa', accrued := ← acc.ints?, ghost := ← MgrDriver.ghost? gh }
  | _ => none

def mzip? : List (Op Int) → List Val → Option (List ME)
  | [], [] => some []
  | op :: ops, v :: vs => do pure ((← mentry? op v) :: (← mzip? ops vs))
  | _, _ => none

def encMRes : Res Int ObsOut Unit → Val
  | .resetOk o => .list [.atom "r", MgrDriver.encPairs encObsOut o]
  | .stepOk o => .list [.atom "s", MgrDriver.encPairs encObsOut o.obs, MgrDriver.encPairs Val.int o.rewards,
                        MgrDriver.encPairs Val.ofBool o.dones, MgrDriver.encPairs (fun _ => .list []) o.infos,
                        Val.ofBool o.allDone]
  | .err e => .list [.atom "e", .atom (MgrDriver.errStr e)]

def encMEntry (e : ME) : Val :=
  .list [encMRes e.res,
         (match e.simArgs with | none => .list [.atom "n"] | some a => .list [.atom "y", encActs a]),
         Val.ofInts e.accrued,
         .list [Val.ofBool e.ghost.simAllDone, .list (e.ghost.simDone.map Val.ofBool),
                Val.ofInts e.ghost.pending, Val.ofNats e.ghost.nominated]]

def handleMgr (args : List Val) : Option Val := do
  match args with
  | [cfg, stat, dyn, k, sh, mtape, stape, ops, impl] =>
    let cfg ← cfg? cfg
    let w0 ← world? stat dyn
    let k ← MgrDriver.kind? k
    let sh ← sh.bool?
    let mtape ← mtape.nats?
    let stape ← stape.nats?
    let ops ← (← ops.list?).mapM mop?
    let S := PM.toSimIface cfg w0.n
    let tr := Abmarl.runOps S k (mgrInit ({ ex := { w := w0, tape := stape } } : PM.St) sh mtape) ops
    let spec1 := fun (t : List ME) => specC01 k S.n S.learning sh t
    let spec7 := fun (t : List ME) => specC07 k S.n S.learning t
    let implV ← impl.list?
    let (i1, i7) : Val × Val :=
      if implV.isEmpty then (.int (-1), .int (-1))
      else match mzip? ops implV with
        | some it => (b2v (spec1 it), b2v (spec7 it))
        | none => (.int (-2), .int (-2))
    pure (.list [.list (tr.map encMEntry), b2v (spec1 tr), b2v (spec7 tr), i1, i7])
  | _ => none

/-- `gexample` / `mgrx`: a configuration `(pacman …)` is handled here, everything else by Model/ReachDriver.lean -/
def isPacman : List Val → Bool
  | (.list (.atom "pacman" :: _)) :: _ => true
  | _ => false

def gexample (args : List Val) : Option Val := if isPacman args then handle args else ReachDriver.gexample args
def mgrx (args : List Val) : Option Val := if isPacman args then handleMgr args else ReachDriver.mgrx args

end PacmanDriver
end Abmarl
