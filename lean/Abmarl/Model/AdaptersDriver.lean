import Abmarl.Model.TrainerDriver
import Abmarl.Spec.Adapters
/-!
Driver glue for the adapters:
`(gym kind script agent calls implTrace)`     calls: `(r)` | `(s act)`;
     trace item `(res (op entry))`, res = `(ok (obs…) (rw)? (done)? (info…)?)` | `(err kind)`
`(ospiel kind script calls implTrace)`        calls: `(r)` | `(s (acts…))`;
     trace item `(res ((op entry)…))`, res = `(ok infoState legal current rewards stepType)` | `(err kind)`
reply `(modelTrace specOnModel specOnImpl)`.
`(ospielx kind script calls implTrace)`       calls: `(r)` | `(s (acts…))` | `(p idx)` (`current_player = idx`);
     trace item as for `ospiel`, or `(set ok)` | `(set rejected)` | `(set crash)` for a setter call;
     reply `(modelTrace specOnModel specOnImpl)` with `specC15X`.
-/
namespace Abmarl
namespace AdaptersDriver
open MgrDriver TrainerDriver

abbrev E := Entry Int (List Int) (List Int)

def encOptV {β : Type} (f : β → Val) : Option β → Val
  | none => .list [] | some x => .list [f x]

def optV? {β : Type} (f : Val → Option β) (v : Val) : Option (Option β) :=
  match v with
  | .list [] => some none
  | .list [x] => (f x).map some
  | _ => none

def encOE (e : E) : Val := .list [encOp e.op, encEntry e]

def oe? (v : Val) : Option E := do
  match v with
  | .list [op, e] => entry? (← op? op) e
  | _ => none

/-! gym -/
def encGymRes : Except Err (GymOut (List Int) (List Int)) → Val
  | .ok o => .list [.atom "ok", Val.ofInts o.obs, encOptV Val.int o.reward, encOptV Val.ofBool o.done,
                    encOptV Val.ofInts o.info]
  | .error e => .list [.atom "err", .atom (errStr e)]

def gymRes? (v : Val) : Option (Except Err (GymOut (List Int) (List Int))) := do
  match v with
  | .list [.atom "ok", o, r, d, i] =>
    pure (.ok ⟨← o.ints?, ← optV? Val.int? r, ← optV? Val.bool? d, ← optV? Val.ints? i⟩)
  | .list [.atom "err", .atom c] => pure (.error (errOf c))
  | _ => none

def gymCall? (v : Val) : Option (Option Int) :=
  match v with
  | .list [.atom "r"] => some none
  | .list [.atom "s", a] => a.int?.map some
  | _ => none

def handleGym (args : List Val) : Option Val := do
  match args with
  | [k, sc, ag, calls, impl] =>
    let k ← kind? k
    let sc ← script? sc
    let ag ← ag.nat?
    let calls ← (← calls.list?).mapM gymCall?
    let S := stubSim sc
    let tr := gymRun S k ag (mgrInit ({} : StubSt) false []) calls
    let spec := fun (t : List (Except Err (GymOut (List Int) (List Int)) × E)) =>
      gymLoop ag {} calls t
    let implV ← impl.list?
    let is : Val :=
      if implV.isEmpty && !calls.isEmpty then .int (-1)
      else match implV.mapM (fun it => match it with
          | .list [r, e] => do pure ((← gymRes? r), (← oe? e))
          | _ => none) with
        | some it => b2i (spec it)
        | none => .int (-2)
    pure (.list [.list (tr.map fun p => .list [encGymRes p.1, encOE p.2]), b2i (spec tr), is])
  | _ => none

/-! OpenSpiel -/
def stStr : StepType → String
  | .first => "first" | .mid => "mid" | .last => "last"
def st? (s : String) : Option StepType :=
  match s with | "first" => some .first | "mid" => some .mid | "last" => some .last | _ => none

def encOSRes : Except Err (TimeStep (List Int)) → Val
  | .ok ts => .list [.atom "ok", encPairs Val.ofInts ts.infoState, Val.ofNats ts.legal, Val.ofNat ts.current,
                     encOptV (encPairs Val.int) ts.rewards, .atom (stStr ts.stepType)]
  | .error e => .list [.atom "err", .atom (errStr e)]

def osRes? (v : Val) : Option (Except Err (TimeStep (List Int))) := do
  match v with
  | .list [.atom "ok", i, l, c, r, .atom s] =>
    pure (.ok ⟨← pairList? Val.ints? i, ← l.nats?, ← c.nat?, ← optV? (pairList? Val.int?) r, ← st? s⟩)
  | .list [.atom "err", .atom c] => pure (.error (errOf c))
  | _ => none

def osCall? (v : Val) : Option (Option (List Int)) :=
  match v with
  | .list [.atom "r"] => some none
  | .list [.atom "s", a] => a.ints?.map some
  | _ => none

def encOSCall (c : OSCall Int (List Int) (List Int)) : Val :=
  .list [encOSRes c.res, .list (c.mgrCalls.map encOE)]

def osc? (v : Val) : Option (OSCall Int (List Int) (List Int)) := do
  match v with
  | .list [r, es] => pure ⟨← osRes? r, ← (← es.list?).mapM oe?⟩
  | _ => none

def handleOS (args : List Val) : Option Val := do
  match args with
  | [k, sc, calls, impl] =>
    let k ← kind? k
    let sc ← script? sc
    let calls ← (← calls.list?).mapM osCall?
    let S := stubSim sc
    let tr := osRun S k { m := mgrInit ({} : StubSt) false [] } calls
    let spec := fun (t : List (OSCall Int (List Int) (List Int))) => specC15 k sc.n S.learning calls t
    let implV ← impl.list?
    let is : Val :=
      if implV.isEmpty && !calls.isEmpty then .int (-1)
      else match implV.mapM osc? with
        | some it => b2i (spec it)
        | none => .int (-2)
    pure (.list [.list (tr.map encOSCall), b2i (spec tr), is])
  | _ => none

/-! OpenSpiel with the `current_player` setter -/
def osIn? (v : Val) : Option (OSIn Int) :=
  match v with
  | .list [.atom "r"] => some .reset
  | .list [.atom "s", a] => a.ints?.map .step
  | .list [.atom "p", a] => a.nat?.map .setCurrent
  | _ => none

def encOSOut : OSOut Int (List Int) (List Int) → Val
  | .ts c => encOSCall c
  | .set (.ok _) => .list [.atom "set", .atom "ok"]
  | .set (.error e) => .list [.atom "set", .atom (errStr e)]

def oso? (v : Val) : Option (OSOut Int (List Int) (List Int)) :=
  match v with
  | .list [.atom "set", .atom "ok"] => some (.set (.ok ()))
  | .list [.atom "set", .atom c] => some (.set (.error (errOf c)))
  | v => (osc? v).map .ts

def handleOSX (args : List Val) : Option Val := do
  match args with
  | [k, sc, calls, impl] =>
    let k ← kind? k
    let sc ← script? sc
    let calls ← (← calls.list?).mapM osIn?
    let S := stubSim sc
    let tr := osRunX S k { m := mgrInit ({} : StubSt) false [] } calls
    let spec := fun (t : List (OSOut Int (List Int) (List Int))) => specC15X k sc.n S.learning calls t
    let implV ← impl.list?
    let is : Val :=
      if implV.isEmpty && !calls.isEmpty then .int (-1)
      else match implV.mapM oso? with
        | some it => b2i (spec it)
        | none => .int (-2)
    pure (.list [.list (tr.map encOSOut), b2i (spec tr), is])
  | _ => none

end AdaptersDriver
end Abmarl
