/-!
# M3 `Mask` — the blocking / shadow mask of `abmarl/sim/gridworld/utils.py:create_grid_and_mask`

Transcribed branch for branch from the mask part of the function (the `for other in
agents.values()` loop).  Conventions:

* offsets are relative to the viewer: `rd = r_diff`, `cd = c_diff` (rows, columns), a cell of the
  window is `(r, c)` with `-R ≤ r, c ≤ R`; numpy index = offset + `R`;
* every one of the eight direction cases is its own definition `Case1 … Case8` that says
  **which `(r, c)` the case's double loop visits** (the two `range(..)`s, including the
  descending ones), the `continue` on the blocker's own cell, and the ray test;
* the float comparison `lower(c) < r < upper(c)` with `lower(t) = (2·rd−1)·t / (2·cd±1)` etc. is
  rewritten as an **exact integer cross-multiplication**: `x < p·t/q` is `x·q < p·t` when `q > 0`
  and `x·q > p·t` when `q < 0` (the sign of every denominator is fixed by the case's guard and is
  noted next to each comparison).  That the one correctly rounded float division of the real
  code decides the same is a paper argument (DESIGN.md §5 C10), not part of this model;
* the table is a list of rows (row-major, `(2R+1)` rows of `(2R+1)` entries), entry `true` =
  **visible** (numpy's `1`), `false` = hidden (numpy's `0`), exactly like the numpy mask.

This file imports nothing: it is linked into the compiled driver.
-/
namespace Abmarl
namespace Mask

/-- `(r_diff, c_diff, blocking, active)` of one entry of the `agents` dictionary -/
abbrev Blocker := Int × Int × Bool × Bool

/-! ## The eight direction cases (`N` is the mask range as an integer)

Each is the conjunction: column loop range ∧ row loop range ∧ not skipped by `continue` ∧
`lower < ·` ∧ `· < upper`. -/

/-- `c_diff > 0 and r_diff == 0` (other is to the right).
`upper(t) = (2rd+1)·t/(2cd−1)`, `lower(t) = (2rd−1)·t/(2cd−1)`; `2cd−1 > 0`.
`for c in range(cd, R+1): for r in range(-R, R+1)`; test `lower(c) < r < upper(c)`. -/
def Case1 (N rd cd r c : Int) : Prop :=
  (cd ≤ c ∧ c ≤ N) ∧ (-N ≤ r ∧ r ≤ N) ∧ ¬(c = cd ∧ r = rd) ∧
  (2*rd-1)*c < r*(2*cd-1) ∧ r*(2*cd-1) < (2*rd+1)*c

/-- `c_diff > 0 and r_diff > 0` (below-right).
`upper(t) = (2rd+1)·t/(2cd−1)`, `lower(t) = (2rd−1)·t/(2cd+1)`; both denominators `> 0`.
`for c in range(cd, R+1): for r in range(rd, R+1)`; test `lower(c) < r < upper(c)`. -/
def Case2 (N rd cd r c : Int) : Prop :=
  (cd ≤ c ∧ c ≤ N) ∧ (rd ≤ r ∧ r ≤ N) ∧ ¬(c = cd ∧ r = rd) ∧
  (2*rd-1)*c < r*(2*cd+1) ∧ r*(2*cd-1) < (2*rd+1)*c

/-- `c_diff == 0 and r_diff > 0` (below).
`left(t) = (2cd−1)·t/(2rd−1)`, `right(t) = (2cd+1)·t/(2rd−1)`; `2rd−1 > 0`.
`for c in range(-R, R+1): for r in range(rd, R+1)`; test `left(r) < c < right(r)`. -/
def Case3 (N rd cd r c : Int) : Prop :=
  (-N ≤ c ∧ c ≤ N) ∧ (rd ≤ r ∧ r ≤ N) ∧ ¬(c = cd ∧ r = rd) ∧
  (2*cd-1)*r < c*(2*rd-1) ∧ c*(2*rd-1) < (2*cd+1)*r

/-- `c_diff < 0 and r_diff > 0` (below-left).
`upper(t) = (2rd+1)·t/(2cd+1)`, `lower(t) = (2rd−1)·t/(2cd−1)`; both denominators `< 0`
(comparisons flip).  `for c in range(cd, -R-1, -1): for r in range(rd, R+1)`. -/
def Case4 (N rd cd r c : Int) : Prop :=
  (-N ≤ c ∧ c ≤ cd) ∧ (rd ≤ r ∧ r ≤ N) ∧ ¬(c = cd ∧ r = rd) ∧
  r*(2*cd-1) < (2*rd-1)*c ∧ (2*rd+1)*c < r*(2*cd+1)

/-- `c_diff < 0 and r_diff == 0` (left).
`upper(t) = (2rd+1)·t/(2cd+1)`, `lower(t) = (2rd−1)·t/(2cd+1)`; `2cd+1 < 0` (comparisons flip).
`for c in range(cd, -R-1, -1): for r in range(-R, R+1)`. -/
def Case5 (N rd cd r c : Int) : Prop :=
  (-N ≤ c ∧ c ≤ cd) ∧ (-N ≤ r ∧ r ≤ N) ∧ ¬(c = cd ∧ r = rd) ∧
  r*(2*cd+1) < (2*rd-1)*c ∧ (2*rd+1)*c < r*(2*cd+1)

/-- `c_diff < 0 and r_diff < 0` (above-left).
`upper(t) = (2rd+1)·t/(2cd−1)`, `lower(t) = (2rd−1)·t/(2cd+1)`; both denominators `< 0`
(comparisons flip).  `for c in range(cd, -R-1, -1): for r in range(rd, -R-1, -1)`. -/
def Case6 (N rd cd r c : Int) : Prop :=
  (-N ≤ c ∧ c ≤ cd) ∧ (-N ≤ r ∧ r ≤ rd) ∧ ¬(c = cd ∧ r = rd) ∧
  r*(2*cd+1) < (2*rd-1)*c ∧ (2*rd+1)*c < r*(2*cd-1)

/-- `c_diff == 0 and r_diff < 0` (above).
`left(t) = (2cd−1)·t/(2rd+1)`, `right(t) = (2cd+1)·t/(2rd+1)`; `2rd+1 < 0` (comparisons flip).
`for c in range(-R, R+1): for r in range(rd, -R-1, -1)`; test `left(r) < c < right(r)`. -/
def Case7 (N rd cd r c : Int) : Prop :=
  (-N ≤ c ∧ c ≤ N) ∧ (-N ≤ r ∧ r ≤ rd) ∧ ¬(c = cd ∧ r = rd) ∧
  c*(2*rd+1) < (2*cd-1)*r ∧ (2*cd+1)*r < c*(2*rd+1)

/-- `c_diff > 0 and r_diff < 0` (above-right).
`upper(t) = (2rd+1)·t/(2cd+1)`, `lower(t) = (2rd−1)·t/(2cd−1)`; both denominators `> 0`.
`for c in range(cd, R+1): for r in range(rd, -R-1, -1)`. -/
def Case8 (N rd cd r c : Int) : Prop :=
  (cd ≤ c ∧ c ≤ N) ∧ (-N ≤ r ∧ r ≤ rd) ∧ ¬(c = cd ∧ r = rd) ∧
  (2*rd-1)*c < r*(2*cd-1) ∧ r*(2*cd+1) < (2*rd+1)*c

instance (N rd cd r c : Int) : Decidable (Case1 N rd cd r c) := by unfold Case1; infer_instance
instance (N rd cd r c : Int) : Decidable (Case2 N rd cd r c) := by unfold Case2; infer_instance
instance (N rd cd r c : Int) : Decidable (Case3 N rd cd r c) := by unfold Case3; infer_instance
instance (N rd cd r c : Int) : Decidable (Case4 N rd cd r c) := by unfold Case4; infer_instance
instance (N rd cd r c : Int) : Decidable (Case5 N rd cd r c) := by unfold Case5; infer_instance
instance (N rd cd r c : Int) : Decidable (Case6 N rd cd r c) := by unfold Case6; infer_instance
instance (N rd cd r c : Int) : Decidable (Case7 N rd cd r c) := by unfold Case7; infer_instance
instance (N rd cd r c : Int) : Decidable (Case8 N rd cd r c) := by unfold Case8; infer_instance

/-- Does the agent at offset `(rd, cd)` set `mask[r+N, c+N] = 0`?  The range check
`-R <= r_diff <= R and -R <= c_diff <= R` followed by the `if / elif` chain in the order of the
source; an offset `(0, 0)` matches no branch. -/
def hidden1I (N rd cd r c : Int) : Bool :=
  if -N ≤ rd ∧ rd ≤ N ∧ -N ≤ cd ∧ cd ≤ N then
    if cd > 0 ∧ rd = 0 then decide (Case1 N rd cd r c)
    else if cd > 0 ∧ rd > 0 then decide (Case2 N rd cd r c)
    else if cd = 0 ∧ rd > 0 then decide (Case3 N rd cd r c)
    else if cd < 0 ∧ rd > 0 then decide (Case4 N rd cd r c)
    else if cd < 0 ∧ rd = 0 then decide (Case5 N rd cd r c)
    else if cd < 0 ∧ rd < 0 then decide (Case6 N rd cd r c)
    else if cd = 0 ∧ rd < 0 then decide (Case7 N rd cd r c)
    else if cd > 0 ∧ rd < 0 then decide (Case8 N rd cd r c)
    else false
  else false

/-- the same with the range as the natural number the API takes -/
def hidden1 (R : Nat) (rd cd r c : Int) : Bool := hidden1I (R : Int) rd cd r c

/-! ## The whole mask -/

/-- `mask = np.ones((2R+1, 2R+1))` -/
def blankMask (R : Nat) : List (List Bool) :=
  List.replicate (2*R+1) (List.replicate (2*R+1) true)

/-- the double loop of one agent: every cell the case visits and tests positive becomes 0;
numpy index `(i, j)` is the offset `(i − R, j − R)` -/
def shade (R : Nat) (rd cd : Int) (m : List (List Bool)) : List (List Bool) :=
  m.mapIdx fun i row => row.mapIdx fun j v =>
    if hidden1 R rd cd ((i : Int) - (R : Int)) ((j : Int) - (R : Int)) then false else v

/-- body of `for other in agents.values()`: `if other.active and other.blocking: …` -/
def maskStep (R : Nat) (m : List (List Bool)) (b : Blocker) : List (List Bool) :=
  if b.2.2.2 && b.2.2.1 then shade R b.1 b.2.1 m else m

/-- the mask returned by `create_grid_and_mask(agent, grid, R, agents)`; `bs` lists every entry
of `agents` in dictionary order as `(r_diff, c_diff, blocking, active)` (the viewer itself is
one of them, at offset `(0, 0)`).  `true` = visible (1), `false` = hidden (0). -/
def maskOf (R : Nat) (bs : List Blocker) : List (List Bool) :=
  bs.foldl (maskStep R) (blankMask R)

end Mask
end Abmarl
