import Abmarl.Model.Oracle
import Abmarl.Model.Grid
/-!
# `MultiCorridor` (`abmarl/examples/sim/multi_corridor.py`) — a packaged example that is NOT a grid world

Transcribed statement by statement.  The class keeps: `agent.position` (a numpy integer per agent), the
object array `self.corridor` (`end` cells, each `None` or an agent), the dict `self.reward` (one entry
per agent) and `self._last_action` (written, never read: not modelled).

* agents are the indices `0..n-1` (`agent0 … agent{n-1}`, the listing order of `self.agents`); all of
  them are learning `Agent`s;
* `Dyn` exists from the first successful `reset` on (`St.dyn = none`: the agents have no `position`,
  the object has neither `corridor` nor `reward`: the calls raise `AttributeError`, kind `other`);
* `reset` draws `np.random.choice(end-1, n, False)` from the oracle tape (`Oracle.choiceNoRepl` over
  `range (end-1)`); it raises `ValueError` (kind `other`) **before anything is changed** when
  `end - 1 = 0` or `n > end - 1`;
* `step` is modelled for EVERY action dict (list of items in insertion order; values are arbitrary
  integers: a value outside `{0, 1, 2}` matches no branch and does nothing).  In particular the
  actions of an agent that is **already done** (it stands on cell `end-1`, which never stores anybody):
  `STAY` costs 1; `LEFT` walks it back into the corridor (it is *not done* any more) or bumps into the
  agent on `end-2`; `RIGHT` reads `self.corridor[end]` — `IndexError` (`badIndex`).  An unknown agent id
  raises `KeyError` at `self.agents[agent_id]`.  Each of these exceptions is raised before the item
  changes anything, so the state the real object is left in is **exactly** the state after the items
  processed so far: `step` returns that state together with the error, and a history goes on after it.
* rewards are Python integers: `Int`, exact.
* positions outside `0 .. end-1` are unreachable (`Cor.Inv`, Lemmas/Corridor.lean); there — and only
  there — `List.getD` answers `none` where numpy would raise or wrap a negative index.
* `get_info` returns `{}`: `Unit`.  `render` and `**kwargs` are not modelled.

This file imports only Model files: it is linked into the compiled driver.
-/
namespace Abmarl
namespace Cor

structure Cfg where
  endp : Nat            -- `end`
  n    : Nat            -- `num_agents`
deriving Repr, DecidableEq, Inhabited

structure Dyn where
  pos : List Nat                 -- `agent.position`, per agent
  cor : List (Option Aid)        -- `self.corridor`
  rew : List Int                 -- `self.reward`, per agent
deriving Repr, DecidableEq, Inhabited

structure St where
  dyn  : Option Dyn := none
  tape : Tape := []

/-- `self.reward[a] += x` -/
def addAt (r : List Int) (a : Aid) (x : Int) : List Int := r.set a (r.getD a 0 + x)

/-- `for i, agent in enumerate(agents): self.corridor[location_sample[i]] = agent` -/
def place : List (Option Aid) → List Nat → Aid → List (Option Aid)
  | cor, [], _ => cor
  | cor, p :: ps, i => place (cor.set p (some i)) ps (i + 1)

/-- `reset()` -/
def reset (cfg : Cfg) (s : St) : Except GErr St :=
  if cfg.endp ≤ 1 then .error .other                       -- `choice(0, …)`: ValueError
  else if cfg.endp - 1 < cfg.n then .error .other          -- larger sample than population: ValueError
  else
    let r := Oracle.choiceNoRepl (List.range (cfg.endp - 1)) cfg.n s.tape
    .ok { dyn := some { pos := r.1, cor := place (List.replicate cfg.endp none) r.1 0,
                        rew := List.replicate cfg.n 0 },
          tape := r.2 }

/-- one item of the action dict -/
def step1 (cfg : Cfg) (d : Dyn) (x : Aid × Int) : Except GErr Dyn :=
  if cfg.n ≤ x.1 then .error .keyError                       -- `agent = self.agents[agent_id]`
  else
    let a := x.1
    let p := d.pos.getD a 0
    if x.2 = 0 then                                          -- LEFT
      if p = 0 then .ok { d with rew := addAt d.rew a (-5) }
      else
        match d.cor.getD (p - 1) none with
        | none =>                                            -- good move
          .ok { pos := d.pos.set a (p - 1), cor := (d.cor.set p none).set (p - 1) (some a),
                rew := addAt d.rew a (-1) }
        | some b => .ok { d with rew := addAt (addAt d.rew a (-5)) b (-2) }
    else if x.2 = 2 then                                     -- RIGHT
      if d.cor.length ≤ p + 1 then .error .badIndex          -- `self.corridor[agent.position + 1]`
      else
        match d.cor.getD (p + 1) none with
        | none =>
          if p + 1 = cfg.endp - 1 then                       -- reached the end: not stored in the corridor
            .ok { pos := d.pos.set a (p + 1), cor := d.cor.set p none,
                  rew := addAt d.rew a ((cfg.endp : Int) * (cfg.endp : Int)) }
          else
            .ok { pos := d.pos.set a (p + 1), cor := (d.cor.set p none).set (p + 1) (some a),
                  rew := addAt d.rew a (-1) }
        | some b => .ok { d with rew := addAt (addAt d.rew a (-5)) b (-2) }
    else if x.2 = 1 then .ok { d with rew := addAt d.rew a (-1) }    -- STAY
    else .ok d

/-- the loop of `step`: the state after the items processed so far, and the exception if one was raised -/
def stepLoop (cfg : Cfg) : Dyn → List (Aid × Int) → Dyn × Option GErr
  | d, [] => (d, none)
  | d, x :: xs =>
    match step1 cfg d x with
    | .error e => (d, some e)
    | .ok d' => stepLoop cfg d' xs

/-- `step` before the first reset: `self.agents[agent_id]` (`KeyError`), then the first of the three
branches touches `agent.position` / `self.reward` (`AttributeError`); other values do nothing -/
def stepPre (cfg : Cfg) : List (Aid × Int) → Option GErr
  | [] => none
  | x :: xs =>
    if cfg.n ≤ x.1 then some .keyError
    else if x.2 = 0 ∨ x.2 = 1 ∨ x.2 = 2 then some .other
    else stepPre cfg xs

/-- `step(action_dict)`: the state it leaves (also when it raises) and the exception, if any -/
def step (cfg : Cfg) (s : St) (acts : List (Aid × Int)) : St × Option GErr :=
  match s.dyn with
  | none => (s, stepPre cfg acts)
  | some d =>
    let r := stepLoop cfg d acts
    ({ s with dyn := some r.1 }, r.2)

/-- what `get_obs` returns: `{'position': [p], 'left': [l], 'right': [r]}`; `member` = the real
observation was a member of the agent's declared observation space (gymnasium's own `contains`; the
model's observation always is: `corridor_observations_in_space`) -/
structure Obs where
  position : Nat
  left     : Bool
  right    : Bool
  member   : Bool := true
deriving Repr, DecidableEq, Inhabited

def obsOf (cfg : Cfg) (d : Dyn) (a : Aid) : Obs :=
  let p := d.pos.getD a 0
  { position := p,
    left := !(decide (p = 0) || (d.cor.getD (p - 1) none).isNone),
    right := !(decide (p + 1 = cfg.endp) || (d.cor.getD (p + 1) none).isNone) }

def getObs (cfg : Cfg) (s : St) (a : Aid) : Except GErr Obs :=
  if cfg.n ≤ a then .error .keyError
  else
    match s.dyn with
    | none => .error .other
    | some d => .ok (obsOf cfg d a)

def doneOf (cfg : Cfg) (d : Dyn) (a : Aid) : Bool := decide (d.pos.getD a 0 + 1 = cfg.endp)

def getDone (cfg : Cfg) (s : St) (a : Aid) : Except GErr Bool :=
  if cfg.n ≤ a then .error .keyError
  else
    match s.dyn with
    | none => .error .other
    | some d => .ok (doneOf cfg d a)

def allDoneOf (cfg : Cfg) (d : Dyn) : Bool := (List.range cfg.n).all (doneOf cfg d)

def getAllDone (cfg : Cfg) (s : St) : Except GErr Bool :=
  match s.dyn with
  | none => if cfg.n = 0 then .ok true else .error .other
  | some d => .ok (allDoneOf cfg d)

/-- `get_reward`: `agent_reward = self.reward[agent_id]; self.reward[agent_id] = 0` -/
def getReward (cfg : Cfg) (s : St) (a : Aid) : Except GErr (Int × St) :=
  match s.dyn with
  | none => .error .other
  | some d =>
    if cfg.n ≤ a then .error .keyError
    else .ok (d.rew.getD a 0, { s with dyn := some { d with rew := d.rew.set a 0 } })

/-! ## Histories of direct calls (what the driver runs and compares) -/

inductive COp where
  | reset   (tape : Tape)
  | step    (acts : List (Aid × Int))
  | obs     (a : Aid)
  | rew     (a : Aid)
  | done    (a : Aid)
  | allDone
deriving Repr, DecidableEq

inductive CRes where
  | unit
  | int  (r : Int)
  | obs  (o : Obs)
  | bool (b : Bool)
  | err  (e : GErr)
deriving Repr, DecidableEq

/-- one call and what can be seen of the object afterwards (read without side effects) — also after a
call that raised -/
structure CEntry where
  res : CRes
  dyn : Option Dyn
deriving Repr, DecidableEq

def resOfBool : Except GErr Bool → CRes
  | .ok b => .bool b
  | .error e => .err e

/-- one call; a `reset` carries the tape it draws from -/
def runOp (cfg : Cfg) (s : St) : COp → CEntry × St
  | .reset tape =>
    match reset cfg { s with tape := tape } with
    | .ok s' => (⟨.unit, s'.dyn⟩, s')
    | .error e => (⟨.err e, s.dyn⟩, s)
  | .step acts =>
    let r := step cfg s acts
    (⟨(match r.2 with | none => .unit | some e => .err e), r.1.dyn⟩, r.1)
  | .obs a =>
    (⟨(match getObs cfg s a with | .ok o => .obs o | .error e => .err e), s.dyn⟩, s)
  | .rew a =>
    match getReward cfg s a with
    | .ok (r, s') => (⟨.int r, s'.dyn⟩, s')
    | .error e => (⟨.err e, s.dyn⟩, s)
  | .done a => (⟨resOfBool (getDone cfg s a), s.dyn⟩, s)
  | .allDone => (⟨resOfBool (getAllDone cfg s), s.dyn⟩, s)

/-- a history (it does NOT end with a call that raises: the state such a call leaves is modelled) -/
def runOps (cfg : Cfg) : St → List COp → List CEntry × St
  | s, [] => ([], s)
  | s, op :: ops =>
    let r := runOp cfg s op
    let rest := runOps cfg r.2 ops
    (r.1 :: rest.1, rest.2)

/-! ## The simulation as a `SimIface` (what the managers drive)

`SimIface` is total.  `reset` that raises leaves the object unchanged (exact); `step` that raises
leaves the state after the items processed so far (exact); a getter that raises is answered by
`done := false`, reward `0`, the observation is the `Except` itself.  Props/Corridor.lean shows that
under the managers' protocol none of this is used (`corridor_step_noRaise`,
`corridor_observations_in_space`). -/

abbrev ObsOut := Except GErr Obs

def pendingOf (cfg : Cfg) (s : St) (a : Aid) : Int :=
  match s.dyn with
  | none => 0
  | some d => if cfg.n ≤ a then 0 else d.rew.getD a 0

def toSimIface (cfg : Cfg) : SimIface St Int ObsOut Unit where
  n := cfg.n
  learning := fun _ => true
  reset := fun s => match reset cfg s with | .ok s' => s' | .error _ => s
  step := fun s acts => (step cfg s acts).1
  obs := fun s a => (getObs cfg s a, s)
  reward := fun s a => match getReward cfg s a with | .ok (x, s') => (x, s') | .error _ => (0, s)
  done := fun s a => match getDone cfg s a with | .ok b => b | .error _ => false
  allDone := fun s => match getAllDone cfg s with | .ok b => b | .error _ => false
  info := fun _ _ => ()
  next := fun _ => []
  pending := pendingOf cfg

end Cor
end Abmarl
