import Abmarl.Model.MgrDriver
import Abmarl.Spec.Trainer
/-!
Driver glue for `generate_episode` (op `trainer`):
request `(trainer kind script horizon (pmap...) implRec)`,
reply   `(modelRec specOnModel specOnImpl)`.
A record is `(observations actions rewards dones allDones trace queries err)`; a trace item is
`(op entry)` with `op = (r) | (s acts)` and `entry` as in the `mgr` op.
The scripted policies are `act pid obs = (3·obs[1] + obs[2] + obs[3] + pid) mod 10`.
-/
namespace Abmarl
namespace TrainerDriver
open MgrDriver

abbrev R := EpRec Int (List Int) (List Int)

def polAct (pid : Nat) (obs : List Int) : Int :=
  (3 * obs.getD 1 0 + obs.getD 2 0 + obs.getD 3 0 + pid) % 10

def encRecs {β : Type} (f : β → Val) (d : List (Aid × List β)) : Val :=
  .list (d.map fun p => .list [Val.ofNat p.1, .list (p.2.map f)])

def encOp : Op Int → Val
  | .reset => .list [.atom "r"]
  | .step acts => .list [.atom "s", encPairs Val.int acts]

def encQuery (q : Query Int (List Int)) : Val :=
  .list [Val.ofNat q.agent, Val.ofNat q.policy, Val.ofInts q.obs, .int q.action]

def encRec (r : R) : Val :=
  .list [encRecs Val.ofInts r.observations, encRecs Val.int r.actions, encRecs Val.int r.rewards,
         encRecs Val.ofBool r.dones, .list (r.allDones.map Val.ofBool),
         .list (r.trace.map fun e => .list [encOp e.op, encEntry e]),
         .list (r.queries.map fun qs => .list (qs.map encQuery)),
         (match r.err with | none => .list [] | some e => .list [.atom (errStr e)])]

def recs? {β : Type} (f : Val → Option β) (v : Val) : Option (List (Aid × List β)) := do
  (← v.list?).mapM fun p => do
    match p with
    | .list [a, l] => pure ((← a.nat?), (← (← l.list?).mapM f))
    | _ => none

def query? (v : Val) : Option (Query Int (List Int)) := do
  match v with
  | .list [a, p, o, x] => pure ⟨← a.nat?, ← p.nat?, ← o.ints?, ← x.int?⟩
  | _ => none

def rec? (v : Val) : Option R := do
  match v with
  | .list [o, a, r, d, ad, tr, qs, er] =>
    let trace ← (← tr.list?).mapM fun it => do
      match it with
      | .list [op, e] => entry? (← op? op) e
      | _ => none
    let err ← match er with
      | .list [] => pure none
      | .list [.atom c] => pure (some (errOf c))
      | _ => none
    pure { observations := ← recs? Val.ints? o, actions := ← recs? Val.int? a,
           rewards := ← recs? Val.int? r, dones := ← recs? Val.bool? d, allDones := ← ad.bools?,
           trace := trace,
           queries := ← (← qs.list?).mapM fun q => do (← q.list?).mapM query?,
           err := err }
  | _ => none

def handle (args : List Val) : Option Val := do
  match args with
  | [k, sc, hz, pm, impl] =>
    let k ← kind? k
    let sc ← script? sc
    let hz ← hz.nat?
    let pm ← pm.nats?
    let S := stubSim sc
    let pmap : Aid → Nat := fun a => pm.getD a 0
    let P : Policies Int (List Int) := { pmap := pmap, act := polAct }
    let r := generateEpisode S k P hz (mgrInit ({} : StubSt) false [])
    let spec := fun (x : R) => specC16 sc.n hz pmap x
    let is : Val := match impl with
      | .list [] => .int (-1)
      | v => match rec? v with
        | some ir => b2i (spec ir)
        | none => .int (-2)
    pure (.list [encRec r, b2i (spec r), is])
  | _ => none

/-- `(train kind script horizon (pmap…) iterations implRecs)`: `DebugTrainer.train` -/
def handleTrain (args : List Val) : Option Val := do
  match args with
  | [k, sc, hz, pm, its, impl] =>
    let k ← kind? k
    let sc ← script? sc
    let hz ← hz.nat?
    let pm ← pm.nats?
    let its ← its.nat?
    let S := stubSim sc
    let pmap : Aid → Nat := fun a => pm.getD a 0
    let P : Policies Int (List Int) := { pmap := pmap, act := polAct }
    let rs := trainEpisodes S k P hz its (mgrInit ({} : StubSt) false [])
    let spec := fun (xs : List R) => xs.length == its && xs.all (fun x => specC16 sc.n hz pmap x)
    let is : Val := match (← impl.list?).mapM rec? with
      | some irs => b2i (spec irs)
      | none => .int (-2)
    pure (.list [.list (rs.map encRec), b2i (spec rs), is])
  | _ => none

end TrainerDriver
end Abmarl
