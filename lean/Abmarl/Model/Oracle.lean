import Abmarl.Model.Managers
/-!
# The oracle tape (DESIGN.md §3.1) — Lean side of `harness/oracle.py`

Every consumer pops naturals from the tape left to right; an exhausted tape yields 0
(`headD 0`), exactly as `oracle.Tape.pop` does.  Theorems quantify over all tapes, hence over
all random draws.  `shuffle` (the selection shuffle standing in for `random.shuffle`) is
defined in `Model/Managers.lean`.
-/
namespace Abmarl
namespace Oracle

def pop (t : Tape) : Nat × Tape := (t.headD 0, t.tail)

/-- `np.random.uniform()` ↦ (v mod 1024)/1024 ∈ [0,1) -/
def uniform (t : Tape) : Rat × Tape :=
  let (v, t') := pop t
  (mkRat (v % 1024 : Nat) 1024, t')

/-- `np.random.uniform(0, 1)` in the regular stream ↦ (v mod 1023 + 1)/1024 ∈ (0,1) -/
def uniform01 (t : Tape) : Rat × Tape :=
  let (v, t') := pop t
  (mkRat (v % 1023 + 1 : Nat) 1024, t')

/-- `np.random.uniform(0, 1)` in the out-of-domain stream (finding K4) ↦ [0,1) -/
def uniform01Closed (t : Tape) : Rat × Tape := uniform t

/-- `np.random.uniform(lo, hi)` for any other bounds (`BroadcastingState.reset` draws `uniform(-1, 1)`) ↦
`lo + (hi − lo)·(v mod 1024)/1024 ∈ [lo, hi)`, numpy's range (`harness/oracle.py: Tape.uniform`) -/
def uniformLH (lo hi : Rat) (t : Tape) : Rat × Tape :=
  let (v, t') := pop t
  (lo + (hi - lo) * mkRat (v % 1024 : Nat) 1024, t')

/-- `np.random.randint(lo, hi)` ↦ lo + v mod (hi − lo)   (requires lo < hi) -/
def randint (lo hi : Int) (t : Tape) : Int × Tape :=
  let (v, t') := pop t
  (lo + ((v : Int) % (hi - lo)), t')

/-- `np.random.choice(seq)` ↦ seq[v mod len]; `none` for an empty sequence (numpy raises ValueError) -/
def choice {β : Type} (l : List β) (t : Tape) : Option β × Tape :=
  let (v, t') := pop t
  match l with
  | [] => (none, t)          -- numpy raises before drawing
  | x :: xs => (some ((x :: xs).getD (v % (xs.length + 1)) x), t')

/-- `np.random.choice(seq, size=k, replace=True)`: k independent indices -/
def choiceRepl {β : Type} (l : List β) : Nat → Tape → List β × Tape
  | 0, t => ([], t)
  | k + 1, t =>
    match l with
    | [] => ([], t)
    | x :: xs =>
      let (v, t') := pop t
      let r := choiceRepl l k t'
      ((x :: xs).getD (v % (xs.length + 1)) x :: r.1, r.2)

/-- `np.random.choice(seq, size=k, replace=False)`: k steps of selection without replacement
(the caller guarantees k ≤ len; numpy raises otherwise) -/
def choiceNoRepl {β : Type} : List β → Nat → Tape → List β × Tape
  | _, 0, t => ([], t)
  | [], _ + 1, t => ([], t)
  | x :: xs, k + 1, t =>
    let (v, t') := pop t
    let i := v % (xs.length + 1)
    let r := choiceNoRepl ((x :: xs).eraseIdx i) k t'
    ((x :: xs).getD i x :: r.1, r.2)
termination_by l k _ => k

end Oracle
end Abmarl
