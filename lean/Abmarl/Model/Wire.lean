/-!
# Wire format of the line protocol (trusted base, see DESIGN.md §4 M5)

One operation per line.  A line is one S-expression `Val`: integers, bare atoms and
parenthesised lists.  The Python harness prints the same format (`harness/wire.py`).
Nothing hash-ordered, no floats, no addresses are ever sent: rationals travel as
`(num den)` pairs, agents/keys/channels as indices.
-/
namespace Abmarl

inductive Val where
  | int  : Int → Val
  | atom : String → Val
  | list : List Val → Val
deriving Repr, Inhabited, BEq

namespace Val

partial def toStr : Val → String
  | .int i => toString i
  | .atom s => s
  | .list vs => "(" ++ " ".intercalate (vs.map toStr) ++ ")"

instance : ToString Val := ⟨toStr⟩

def ofNat (n : Nat) : Val := .int n
def ofBool (b : Bool) : Val := .int (if b then 1 else 0)
def ofInts (l : List Int) : Val := .list (l.map .int)
def ofNats (l : List Nat) : Val := .list (l.map ofNat)

def int? : Val → Option Int
  | .int i => some i
  | _ => none
def nat? : Val → Option Nat
  | .int i => if i < 0 then none else some i.toNat
  | _ => none
def bool? : Val → Option Bool
  | .int 0 => some false
  | .int 1 => some true
  | _ => none
def list? : Val → Option (List Val)
  | .list l => some l
  | _ => none
def atom? : Val → Option String
  | .atom s => some s
  | _ => none
def ints? (v : Val) : Option (List Int) := do (← v.list?).mapM int?
def nats? (v : Val) : Option (List Nat) := do (← v.list?).mapM nat?
def bools? (v : Val) : Option (List Bool) := do (← v.list?).mapM bool?

end Val

/-- tokens: "(" , ")" and maximal runs of other non-blank characters -/
def tokenize (s : String) : List String :=
  let rec go (cs : List Char) (cur : List Char) (acc : List String) : List String :=
    let flush (acc : List String) := if cur.isEmpty then acc else String.ofList cur.reverse :: acc
    match cs with
    | [] => (flush acc).reverse
    | c :: rest =>
      if c == '(' then go rest [] ("(" :: flush acc)
      else if c == ')' then go rest [] (")" :: flush acc)
      else if c == ' ' || c == '\n' || c == '\t' || c == '\r' then go rest [] (flush acc)
      else go rest (c :: cur) acc
  go s.toList [] []

def atomOfToken (t : String) : Val :=
  match t.toInt? with
  | some i => .int i
  | none => .atom t

/-- parse a token list with an explicit stack of open lists (total, no partial recursion) -/
def parseToks : List String → List (List Val) → Option Val
  | [], [[v]] => some v
  | [], _ => none
  | "(" :: rest, st => parseToks rest ([] :: st)
  | ")" :: rest, cur :: parent :: st => parseToks rest ((Val.list cur.reverse :: parent) :: st)
  | ")" :: _, _ => none
  | t :: rest, cur :: st => parseToks rest ((atomOfToken t :: cur) :: st)
  | _ :: _, [] => none

def parseVal (s : String) : Option Val := parseToks (tokenize s) [[]]

end Abmarl
