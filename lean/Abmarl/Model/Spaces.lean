/-!
# M2 — gymnasium spaces, ravelling (C04) and flattening (C05)

Transcribed branch for branch from `abmarl/sim/wrappers/ravel_discrete_wrapper.py`
(`_ravel_helper`, `_nested_dim_helper`, `_nested_dim`, `ravel`, `unravel`, `ravel_space`,
`check_space`) and `abmarl/sim/wrappers/flatten_wrapper.py` (`flatdim`, `flatten`, `unflatten`,
`flatten_space`).

Representation choices (DESIGN.md §3):

* numpy arrays are flat row-major lists; the *shape* of a Box is kept in the space only (it is
  echoed on the wire, and `flatdim` reads it, exactly as the Python reads `space.shape`); the
  reshape / C-order of numpy is on the implementation side of the comparison;
* `np.ravel_multi_index` / `np.unravel_index` are mixed-radix Horner `encode` / `decode`
  (most significant digit first = C order) with numpy's errors modelled as `none`;
* `np.concatenate` is list append with numpy's dtype promotion (`concat`), `np.split(x,
  np.cumsum(dims)[:-1])` is `split` (take/drop, the last chunk takes the rest, no error);
* int64 is unbounded `Nat`/`Int`: the wrap of `np.prod` at 2^63 is *not* modelled, the theorems
  carry the side condition `card s < 2^63` (finding K3);
* a `Dict` is its key list (key *indices*, in gymnasium's sorted key order) and the list of its
  children in that order; a Dict point is the finite map in the same canonical order (Python's
  dict equality ignores insertion order) and `point[key]` reads the entry with the same key;
* an array element is a `Num`: `int` (any numpy integer dtype) or `flt` (any float dtype) —
  exactly the distinction that numpy promotion and gymnasium's `contains` look at;
* `box … wide`: `wide = true` is numpy's `int` (`int64`), `false` any narrower integer dtype
  (`check_space` and `flatten_space` compare the dtype with `int`, so they can tell);
  `ubox` is an integer Box with an infinite bound (only `check_space` is modelled on it).
-/
namespace Abmarl

inductive Num where
  | int : Int → Num
  | flt : Rat → Num
deriving DecidableEq, Repr, Inhabited

namespace Num
def val : Num → Rat
  | .int i => (i : Rat)
  | .flt q => q
def isInt : Num → Bool
  | .int _ => true
  | .flt _ => false
/-- `astype(float)`: exact for the integers in play (|i| < 2^53) -/
def toFlt : Num → Num
  | .int i => .flt (i : Rat)
  | .flt q => .flt q
/-- `astype(int)`: C cast, truncation toward zero -/
def toInt : Num → Num
  | .int i => .int i
  | .flt q => .int (Int.tdiv q.num q.den)
end Num

inductive Space where
  | discrete (n : Nat) (start : Int)
  | multiBinary (n : Nat)
  | multiDiscrete (nvec : List Nat)
  | box (shape : List Nat) (lo hi : List Int) (wide : Bool)
  | fbox (shape : List Nat) (lo hi : List Rat)
  | ubox (shape : List Nat)
  | dict (keys : List Nat) (ss : List Space)
  | tuple (ss : List Space)
deriving Repr, Inhabited

inductive Pt where
  | scalar (v : Num)
  | arr (vs : List Num)
  | dict (keys : List Nat) (ps : List Pt)
  | tuple (ps : List Pt)
deriving Repr, Inhabited

mutual
def Pt.beq : Pt → Pt → Bool
  | .scalar a, .scalar b => decide (a = b)
  | .arr a, .arr b => decide (a = b)
  | .dict k ps, .dict k' qs => decide (k = k') && Pt.beqL ps qs
  | .tuple ps, .tuple qs => Pt.beqL ps qs
  | _, _ => false
def Pt.beqL : List Pt → List Pt → Bool
  | [], [] => true
  | p :: ps, q :: qs => Pt.beq p q && Pt.beqL ps qs
  | _, _ => false
end

instance : BEq Pt := ⟨Pt.beq⟩

/-! ## arithmetic helpers -/

/-- `np.prod` (int64 wrap not modelled) -/
def prod : List Nat → Nat
  | [] => 1
  | r :: rs => r * prod rs

def sum : List Nat → Nat
  | [] => 0
  | r :: rs => r + sum rs

/-- `np.ravel_multi_index(digits, dims)` (C order).  `none` = ValueError: wrong number of
coordinates or an "invalid entry in coordinates array" (negative or `≥ dim`). -/
def encode : List Nat → List Int → Option Nat
  | [], [] => some 0
  | r :: rs, d :: ds =>
    if 0 ≤ d ∧ d < (r : Int) then
      match encode rs ds with
      | some k => some (d.toNat * prod rs + k)
      | none => none
    else none
  | _, _ => none

def decodeAux : List Nat → Nat → List Nat
  | [], _ => []
  | _ :: rs, k => (k / prod rs) :: decodeAux rs (k % prod rs)

/-- `np.unravel_index(k, dims)`; `none` = ValueError "index k is out of bounds" -/
def decode (rs : List Nat) (k : Nat) : Option (List Nat) :=
  if k < prod rs then some (decodeAux rs k) else none

/-- the integers of an integer-typed array; `none` when the array is float-typed
(numpy: TypeError in `ravel_multi_index`) -/
def ints? : List Num → Option (List Int)
  | [] => some []
  | .int i :: vs => match ints? vs with | some is => some (i :: is) | none => none
  | .flt _ :: _ => none

/-- `(space.high + 1 - space.low).flatten()` -/
def radices : List Int → List Int → List Nat
  | l :: ls, h :: hs => (h + 1 - l).toNat :: radices ls hs
  | _, _ => []

/-- `(point - space.low).flatten()`; `none` = shapes cannot be broadcast -/
def subLow : List Int → List Int → Option (List Int)
  | [], [] => some []
  | v :: vs, l :: ls => match subLow vs ls with | some r => some ((v - l) :: r) | none => none
  | _, _ => none

/-- `np.reshape(np.unravel_index(..), shape) + space.low` -/
def addLow : List Nat → List Int → List Num
  | d :: ds, l :: ls => .int ((d : Int) + l) :: addLow ds ls
  | _, _ => []

/-! ## membership (`x in space`, gymnasium's `contains`) -/

def memMD : List Nat → List Num → Bool
  | [], [] => true
  | r :: rs, .int v :: vs => decide (0 ≤ v) && decide (v < (r : Int)) && memMD rs vs
  | _, _ => false

def memMB : Nat → List Num → Bool
  | 0, [] => true
  | n + 1, .int v :: vs => (decide (v = 0) || decide (v = 1)) && memMB n vs
  | _, _ => false

def memBoxI : List Int → List Int → List Num → Bool
  | [], [], [] => true
  | l :: ls, h :: hs, .int v :: vs => decide (l ≤ v) && decide (v ≤ h) && memBoxI ls hs vs
  | _, _, _ => false

/-- a float Box accepts integer arrays too (`np.can_cast(int64, float64)`) -/
def memBoxQ : List Rat → List Rat → List Num → Bool
  | [], [], [] => true
  | l :: ls, h :: hs, v :: vs => decide (l ≤ v.val) && decide (v.val ≤ h) && memBoxQ ls hs vs
  | _, _, _ => false

mutual
def mem : Space → Pt → Bool
  | .discrete n start, .scalar (.int v) => decide (start ≤ v) && decide (v < start + (n : Int))
  | .multiBinary n, .arr vs => memMB n vs
  | .multiDiscrete nvec, .arr vs => memMD nvec vs
  | .box _ lo hi _, .arr vs => memBoxI lo hi vs
  | .fbox _ lo hi, .arr vs => memBoxQ lo hi vs
  | .dict keys ss, .dict pkeys ps => decide (keys = pkeys) && memL ss ps
  | .tuple ss, .tuple ps => memL ss ps
  | _, _ => false
def memL : List Space → List Pt → Bool
  | [], [] => true
  | s :: ss, p :: ps => mem s p && memL ss ps
  | _, _ => false
end

/-! ## C04: ravel / unravel / ravel_space / check_space -/

mutual
/-- `_nested_dim_helper(space)[0]`: the number of points.  Outside the supported class (float
or unbounded Box) the Python multiplies floats / infinities and `Discrete(..)` then fails; the
model returns 0 there, which `ravelSpace` turns into the same error. -/
def card : Space → Nat
  | .discrete n _ => n
  | .multiBinary n => 2 ^ n
  | .multiDiscrete nvec => prod nvec
  | .box _ lo hi _ => prod (radices lo hi)
  | .fbox _ _ _ => 0
  | .ubox _ => 0
  | .dict _ ss => prod (cardL ss)
  | .tuple ss => prod (cardL ss)
/-- `_nested_dim(space)` of a Dict / Tuple: one dimension per child -/
def cardL : List Space → List Nat
  | [] => []
  | s :: ss => card s :: cardL ss
end

mutual
/-- `_ravel_helper(space, point)`: the ravelled value *and* the dimension it recomputes -/
def ravelH : Space → Pt → Option (Int × Nat)
  | .discrete n _, .scalar (.int v) => some (v, n)                    -- `return point, space.n`
  | .multiDiscrete nvec, .arr vs =>
    match ints? vs with
    | some ds => match encode nvec ds with
      | some k => some ((k : Int), prod nvec)
      | none => none
    | none => none
  | .multiBinary n, .arr vs =>
    match ints? vs with
    | some ds => match encode (List.replicate n 2) ds with
      | some k => some ((k : Int), 2 ^ n)
      | none => none
    | none => none
  | .box _ lo hi _, .arr vs =>
    match ints? vs with
    | some is => match subLow is lo with
      | some ds => match encode (radices lo hi) ds with
        | some k => some ((k : Int), prod (radices lo hi))
        | none => none
      | none => none
    | none => none
  | .dict keys ss, .dict pkeys ps =>
    if keys = pkeys then
      match ravelL ss ps with
      | some vd => match encode vd.2 vd.1 with          -- `_ravel_helper(MultiDiscrete(dims), values)`
        | some k => some ((k : Int), prod vd.2)
        | none => none
      | none => none
    else none                                            -- KeyError
  | .tuple ss, .tuple ps =>
    match ravelL ss ps with
    | some vd => match encode vd.2 vd.1 with
      | some k => some ((k : Int), prod vd.2)
      | none => none
    | none => none
  | _, _ => none
/-- the two lists `discretized_values`, `space_dims` (`zip` stops at the shorter argument) -/
def ravelL : List Space → List Pt → Option (List Int × List Nat)
  | [], _ => some ([], [])
  | _ :: _, [] => some ([], [])
  | s :: ss, p :: ps =>
    match ravelH s p with
    | some a => match ravelL ss ps with
      | some r => some (a.1 :: r.1, a.2 :: r.2)
      | none => none
    | none => none
end

def ravel (s : Space) (p : Pt) : Option Int := (ravelH s p).map (·.1)

def natNum (d : Nat) : Num := .int (Int.ofNat d)

def natsToPt (ds : List Nat) : Pt := .arr (ds.map natNum)

mutual
def unravel : Space → Nat → Option Pt
  | .discrete _ _, k => some (.scalar (.int (k : Int)))                -- `return point`
  | .multiDiscrete nvec, k => (decode nvec k).map natsToPt
  | .multiBinary n, k => (decode (List.replicate n 2) k).map natsToPt
  | .box _ lo hi _, k => (decode (radices lo hi) k).map fun ds => .arr (addLow ds lo)
  | .fbox _ _ _, _ => none
  | .ubox _, _ => none
  | .dict keys ss, k =>
    match decode (cardL ss) k with
    | some ds => (unravelL ss ds).map (.dict keys)
    | none => none
  | .tuple ss, k =>
    match decode (cardL ss) k with
    | some ds => (unravelL ss ds).map .tuple
    | none => none
/-- `unravel(child_i, unravelled_point[i])` for every child -/
def unravelL : List Space → List Nat → Option (List Pt)
  | [], _ => some []
  | _ :: _, [] => none                                                  -- IndexError
  | s :: ss, d :: ds =>
    match unravel s d with
    | some p => match unravelL ss ds with
      | some r => some (p :: r)
      | none => none
    | none => none
end

/-- `ravel_space`: `Discrete(dims[0])`; gymnasium's constructor asserts `n > 0` -/
def ravelSpace (s : Space) : Option Space :=
  if 0 < card s then some (.discrete (card s) 0) else none

mutual
def checkSpace : Space → Bool
  | .discrete _ _ => true
  | .multiBinary _ => true
  | .multiDiscrete _ => true
  | .box _ _ _ wide => wide                 -- `np.issubdtype(space, int)` and bounded
  | .fbox _ _ _ => false
  | .ubox _ => false
  | .dict _ ss => checkSpaceL ss
  | .tuple ss => checkSpaceL ss
def checkSpaceL : List Space → Bool
  | [] => true
  | s :: ss => checkSpace s && checkSpaceL ss
end

/-! ## C05: flatdim / flatten / unflatten / flatten_space -/

mutual
def flatdim : Space → Nat
  | .discrete _ _ => 1
  | .multiBinary n => n
  | .multiDiscrete nvec => nvec.length
  | .box shape _ _ _ => prod shape
  | .fbox shape _ _ => prod shape
  | .ubox shape => prod shape
  | .dict _ ss => sum (flatdimL ss)
  | .tuple ss => sum (flatdimL ss)
def flatdimL : List Space → List Nat
  | [] => []
  | s :: ss => flatdim s :: flatdimL ss
end

def join : List (List Num) → List Num
  | [] => []
  | a :: as => a ++ join as

/-- `np.concatenate(parts)`: ValueError on an empty list; the result is float-typed as soon as
one part is (every part the Python produces here is non-empty). -/
def concat (parts : List (List Num)) : Option (List Num) :=
  match parts with
  | [] => none
  | _ :: _ =>
    let j := join parts
    if j.all Num.isInt then some j else some (j.map Num.toFlt)

mutual
def flatten : Space → Pt → Option (List Num)
  | .box _ _ _ _, .arr vs => some (vs.map Num.toInt)      -- `np.asarray(point, dtype).flatten()`
  | .fbox _ _ _, .arr vs => some (vs.map Num.toFlt)
  | .ubox _, .arr vs => some (vs.map Num.toInt)
  | .discrete _ _, .scalar v => some [v.toInt]            -- `np.array([point], dtype=int)`
  | .multiBinary _, .arr vs => some vs                    -- `return point`
  | .multiDiscrete _, .arr vs => some vs
  | .tuple ss, .tuple ps =>
    match flattenL ss ps with
    | some parts => concat parts
    | none => none
  | .dict keys ss, .dict pkeys ps =>
    if keys = pkeys then
      match flattenL ss ps with
      | some parts => concat parts
      | none => none
    else none
  | _, _ => none
def flattenL : List Space → List Pt → Option (List (List Num))
  | [], _ => some []
  | _ :: _, [] => some []
  | s :: ss, p :: ps =>
    match flatten s p with
    | some a => match flattenL ss ps with
      | some r => some (a :: r)
      | none => none
    | none => none
end

/-- `np.split(x, np.cumsum(dims)[:-1])` -/
def split : List Nat → List Num → List (List Num)
  | [], a => [a]
  | [_], a => [a]
  | d :: d' :: ds, a => a.take d :: split (d' :: ds) (a.drop d)

mutual
def unflatten : Space → List Num → Option Pt
  | .box shape _ _ _, a =>                                  -- `np.asarray(point, dtype).reshape(shape)`
    if a.length = prod shape then some (.arr (a.map Num.toInt)) else none
  | .fbox shape _ _, a =>
    if a.length = prod shape then some (.arr (a.map Num.toFlt)) else none
  | .ubox shape, a =>
    if a.length = prod shape then some (.arr (a.map Num.toInt)) else none
  | .discrete _ _, a =>                                     -- `point[0]`: keeps the array's dtype
    match a with
    | v :: _ => some (.scalar v)
    | [] => none
  | .multiBinary _, a => some (.arr a)
  | .multiDiscrete _, a => some (.arr a)
  | .tuple ss, a => (unflattenL ss (split (flatdimL ss) a)).map .tuple
  | .dict keys ss, a => (unflattenL ss (split (flatdimL ss) a)).map (.dict keys)
def unflattenL : List Space → List (List Num) → Option (List Pt)
  | [], _ => some []
  | _ :: _, [] => some []
  | s :: ss, c :: cs =>
    match unflatten s c with
    | some p => match unflattenL ss cs with
      | some r => some (p :: r)
      | none => none
    | none => none
end

/-- dtype of a Box as far as the code under test can tell -/
inductive DKind where
  | i64       -- `dtype == int`
  | narrow    -- another integer dtype
  | f         -- a float dtype
deriving DecidableEq, Repr, Inhabited

/-- a one-dimensional Box (`abmarl.tools.Box`) -/
structure FlatBox where
  kind : DKind
  lo : List Rat
  hi : List Rat
deriving DecidableEq, Repr, Inhabited

def ratOfInt (i : Int) : Rat := (i : Rat)

def ratsOf (l : List Int) : List Rat := l.map ratOfInt

/-- `n - 1` as a bound of the flattened Box -/
def predRat (n : Nat) : Rat := ratOfInt (Int.ofNat n - 1)

def losOf : List FlatBox → List Rat
  | [] => []
  | b :: bs => b.lo ++ losOf bs

def hisOf : List FlatBox → List Rat
  | [] => []
  | b :: bs => b.hi ++ hisOf bs

def allI64 : List FlatBox → Bool
  | [] => true
  | b :: bs => decide (b.kind = .i64) && allI64 bs

/-- `Box(np.concatenate(lows), np.concatenate(highs), dtype = int if all(dtype == int) else float)` -/
def concatBoxes (bs : List FlatBox) : Option FlatBox :=
  match bs with
  | [] => none                                              -- np.concatenate: ValueError
  | _ :: _ => some ⟨if allI64 bs then .i64 else .f, losOf bs, hisOf bs⟩

/-- `x in box` of `abmarl.tools.Box` for a one-dimensional array: `np.can_cast(x.dtype,
box.dtype)`, same shape, within the bounds (integer widths are not distinguished) -/
def memFlat (b : FlatBox) (a : List Num) : Bool :=
  (decide (b.kind = .f) || a.all Num.isInt) && memBoxQ b.lo b.hi a

mutual
def flattenSpace : Space → Option FlatBox
  | .box _ lo hi wide => some ⟨if wide then .i64 else .narrow, ratsOf lo, ratsOf hi⟩
  | .fbox _ lo hi => some ⟨.f, lo, hi⟩
  | .ubox _ => none                                         -- infinite bounds are not modelled
  | .discrete n _ => some ⟨.i64, [0], [predRat n]⟩
  | .multiBinary n => some ⟨.i64, List.replicate n 0, List.replicate n 1⟩
  | .multiDiscrete nvec => some ⟨.i64, nvec.map fun _ => 0, nvec.map predRat⟩
  | .tuple ss => match flattenSpaceL ss with
    | some bs => concatBoxes bs
    | none => none
  | .dict _ ss => match flattenSpaceL ss with
    | some bs => concatBoxes bs
    | none => none
def flattenSpaceL : List Space → Option (List FlatBox)
  | [] => some []
  | s :: ss =>
    match flattenSpace s with
    | some b => match flattenSpaceL ss with
      | some r => some (b :: r)
      | none => none
    | none => none
end

end Abmarl

namespace Abmarl

/-! ## observable outcomes (what the driver prints and the specifications judge) -/

/-- `ravel(space, p)` -/
def outRavel (s : Space) (p : Pt) : Option Int := ravel s p

/-- `unravel(space, k)` and `result in space` -/
def outUnravel (s : Space) (k : Nat) : Option (Pt × Bool) := (unravel s k).map fun q => (q, mem s q)

/-- `ravel_space(space)` as `(n, start)` -/
def outRavelSpace (s : Space) : Option (Nat × Int) :=
  match ravelSpace s with
  | some (.discrete n start) => some (n, start)
  | _ => none

/-- `check_space(space)` -/
def outCheckSpace (s : Space) : Option Bool := some (checkSpace s)

/-- `flatten(space, p)` and `result in flatten_space(space)` -/
def outFlatten (s : Space) (p : Pt) : Option (List Num × Bool) :=
  match flatten s p with
  | some a => some (a, match flattenSpace s with | some b => memFlat b a | none => false)
  | none => none

/-- `unflatten(space, flatten(space, p))` and, when `askIn`, `result in space` (else `2`) -/
def outRoundTrip (s : Space) (p : Pt) (askIn : Bool) : Option (Pt × Int) :=
  match flatten s p with
  | some a =>
    match unflatten s a with
    | some q => some (q, if askIn then (if mem s q then 1 else 0) else 2)
    | none => none
  | none => none

/-- `flatten_space(space)` and `flatdim(space)` -/
def outFlatSpace (s : Space) : Option (FlatBox × Nat) :=
  match flattenSpace s with
  | some b => some (b, flatdim s)
  | none => none

end Abmarl
