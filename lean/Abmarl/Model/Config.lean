/-!
# M3 `Config`, M2 `Box` — configuration validation, the overlap table, Box membership (C19)

Transcribed branch for branch from
* `abmarl/sim/agent_based_simulation.py`  (`PrincipleAgent`, `ActingAgent`, `ObservingAgent`,
  `AgentBasedSimulation.agents`, `finalize`),
* `abmarl/sim/gridworld/agent.py`        (every setter of every agent class),
* `abmarl/sim/gridworld/grid.py`         (`Grid.__init__`, the `overlapping` setter, `query`, `place`),
* `abmarl/sim/gridworld/actor.py`        (`attack_mapping`, `stacked_attacks`),
* `abmarl/sim/gridworld/done.py`         (the three `target_mapping` setters),
* `abmarl/sim/gridworld/state.py`        (`barrier_encodings`, `free_encodings`, the cover assertion in `reset`),
* `abmarl/sim/gridworld/base.py`         (`GridWorldBaseComponent.agents`),
* `abmarl/tools/gym_utils.py`            (`Box.contains`), and gymnasium's `Discrete.contains`
  (needed for the null points only).

Python values are a small universe `PyVal`.  The distinctions the setters make are kept:
`type(x) is int` holds for `PyVal.int` only (not for `bool`, not for numpy scalars), whereas
`x in {1, 2}`, `x in range(1, 5)`, `x == y` are numeric (so `True`, `1.0`, `np.int64(1)` all equal `1`).
Floats are exact rationals or one of `nan`, `+inf`, `-inf`.  numpy arrays carry a dtype tag, a shape
and their flat row-major values.

Where the real code raises, the model says so (`rejAssign`, `rejFinal`, `BoxOut.raises`);
inputs whose real behaviour is platform dependent or is string parsing are `unmodelled` and are
never fed by the harness (numeric strings such as `"1"` handed to `np.asarray(…, dtype=…)`, numpy
float scalars `nan/inf`/beyond int64 cast to an integer dtype, arrays nested inside lists).
-/
namespace Abmarl
namespace Cfg

/-! ## Python values -/

/-- an IEEE double: an exact rational (the harness feeds dyadic rationals only) or a special -/
inductive Flt where
  | fin (q : Rat)
  | nan
  | pinf
  | ninf
deriving DecidableEq, Repr, Inhabited

/-- numpy dtype tags (`int` is int64, `float` is float64; the other three stand for "anything else") -/
inductive DT where
  | i64 | f64 | i32 | f32 | bool
deriving DecidableEq, Repr, Inhabited

inductive PyVal where
  | none
  | bool (b : Bool)
  | int (i : Int)
  | float (f : Flt)
  | str (s : String)
  | list (l : List PyVal)
  | tuple (l : List PyVal)
  | set (l : List PyVal)
  | dict (l : List (PyVal × PyVal))
  | ndarray (dt : DT) (shape : List Nat) (vals : List Flt)
  | npInt (i : Int)                     -- `np.int64`
  | npFloat (f : Flt)                   -- `np.float64`
  | agent (gw : Bool) (id : String)     -- an agent object: `GridWorldAgent` (gw) or a plain `PrincipleAgent`
deriving Repr, Inhabited

def inI64 (i : Int) : Bool := decide (-9223372036854775808 ≤ i) && decide (i ≤ 9223372036854775807)

def b2i (b : Bool) : Int := if b then 1 else 0

/-- `x >= lo` for a double and an exact bound (`nan` compares false with everything) -/
def Flt.geR : Flt → Rat → Bool
  | .fin q, lo => decide (lo ≤ q)
  | .nan, _ => false
  | .pinf, _ => true
  | .ninf, _ => false

/-- `x <= hi` -/
def Flt.leR : Flt → Rat → Bool
  | .fin q, hi => decide (q ≤ hi)
  | .nan, _ => false
  | .pinf, _ => false
  | .ninf, _ => true

/-- `x > lo` -/
def Flt.gtR : Flt → Rat → Bool
  | .fin q, lo => decide (lo < q)
  | .nan, _ => false
  | .pinf, _ => true
  | .ninf, _ => false

/-- the value as an integer when it is one (`2.0 == 2`) -/
def Flt.asInt : Flt → Option Int
  | .fin q => if q.den = 1 then some q.num else none
  | _ => none

/-- the integer a *hashable* Python value equals, if any: what `x in {ints}`, `x in range(..)`
and `x == int` go by (`True == 1`, `1.0 == 1`, `np.int64(1) == 1`) -/
def numKey : PyVal → Option Int
  | .bool b => some (b2i b)
  | .int i => some i
  | .float f => f.asInt
  | .npInt i => some i
  | .npFloat f => f.asInt
  | _ => none

/-- `type(x) is int` -/
def isPyInt : PyVal → Bool
  | .int _ => true
  | _ => false

/-- `x in s` for a set (or dict keys) of ints -/
def pyIn (x : PyVal) (s : List Int) : Bool :=
  match numKey x with
  | some i => s.contains i
  | none => false

/-! ## Agent attributes (`abmarl/sim/agent_based_simulation.py`, `abmarl/sim/gridworld/agent.py`)

Each function answers "does the setter return normally?". -/

/-- `assert type(value) is str` -/
def acceptId : PyVal → Bool
  | .str _ => true
  | _ => false

/-- `assert value is None or type(value) is int` -/
def acceptSeed : PyVal → Bool
  | .none => true
  | .int _ => true
  | _ => false

/-- `assert type(value) is bool` (`active`, `blocking`, `stacked_attacks`, `no_overlap_at_reset`,
`randomize_placement_order`, `cluster_barriers`, `scatter_free_agents`) -/
def acceptFlag : PyVal → Bool
  | .bool _ => true
  | _ => false

/-- `if value is not None: assert type(value) is bool` (`sim_ends_if_one_done`) -/
def acceptOptFlag : PyVal → Bool
  | .none => true
  | .bool _ => true
  | _ => false

/-- `assert type(value) is int; assert value != -2; assert value != -1; assert value != 0` -/
def acceptEncoding : PyVal → Bool
  | .int i => decide (i ≠ -2) && decide (i ≠ -1) && decide (i ≠ 0)
  | _ => false

/-- `None`, or an `np.ndarray` of shape `(2,)` whose dtype is `int` or `float` -/
def acceptInitialPosition : PyVal → Bool
  | .none => true
  | .ndarray dt sh _ => (sh == [2]) && (dt == .i64 || dt == .f64)
  | _ => false

def renderShapes : List String :=
  ["o", "v", "^", "<", ">", "1", "2", "3", "4", "8", "s", "p", "P", "*", "h", "H", "+", "x", "X", "D", "d"]

/-- `assert value in [...]`: list membership goes by `==`; an array operand either compares
false or makes `bool()` raise — rejected both ways -/
def acceptRenderShape : PyVal → Bool
  | .str s => renderShapes.contains s
  | _ => false

/-- no validation at all -/
def acceptRenderColor : PyVal → Bool := fun _ => true

/-- `assert type(value) is int and value > 0` -/
def acceptRenderSize : PyVal → Bool
  | .int i => decide (0 < i)
  | _ => false

/-- `assert type(value) in [int, float]`, then the value is clamped (never rejected) -/
def acceptHealth : PyVal → Bool
  | .int _ => true
  | .float _ => true
  | _ => false

/-- what the `health` setter stores: `min(max(value, 0), 1)` (`nan` stays `nan`) -/
def clampHealth : Flt → Flt
  | .fin q => .fin (if q < 0 then 0 else if 1 < q then 1 else q)
  | .nan => .nan
  | .pinf => .fin 1
  | .ninf => .fin 0

/-- `if value is not None: assert type(value) in [int, float]; assert 0 < value <= 1` -/
def acceptInitialHealth : PyVal → Bool
  | .none => true
  | .int i => (Flt.fin i).gtR 0 && (Flt.fin i).leR 1
  | .float f => f.gtR 0 && f.leR 1
  | _ => false

/-- `assert (value == "FULL") or (type(value) is int and 0 <= value)`
(`view_range`, `move_range`, `attack_range`); `array == "FULL"` is an array whose truth value is
`False` or raises — rejected both ways -/
def acceptRange : PyVal → Bool
  | .str s => s == "FULL"
  | .int i => decide (0 ≤ i)
  | _ => false

/-- `assert type(value) in [int, float]; assert 0 <= value <= 1`
(`attack_strength`, `attack_accuracy`) -/
def acceptUnit : PyVal → Bool
  | .int i => (Flt.fin i).geR 0 && (Flt.fin i).leR 1
  | .float f => f.geR 0 && f.leR 1
  | _ => false

/-- `assert type(value) is int; assert value >= 0` -/
def acceptSimAttacks : PyVal → Bool
  | .int i => decide (0 ≤ i)
  | _ => false

/-- `assert type(value) is int` (`initial_ammo`; also the `ammo` setter, which then clamps below at 0) -/
def acceptAmmo : PyVal → Bool
  | .int _ => true
  | _ => false

def in1to4 (i : Int) : Bool := decide (1 ≤ i) && decide (i ≤ 4)

/-- `value in range(1, 5)`: numeric equality with one of 1..4; a one-element array compares
element-wise and its single truth value is used; other arrays raise -/
def inRange1to4 : PyVal → Bool
  | .ndarray _ _ [x] => (match x.asInt with | some i => in1to4 i | none => false)
  | v => (match numKey v with | some i => in1to4 i | none => false)

/-- `assert value in range(1, 5)` -/
def acceptOrientation : PyVal → Bool := inRange1to4

/-- `if value is not None: assert value in range(1, 5)` -/
def acceptInitialOrientation : PyVal → Bool
  | .none => true
  | v => inRange1to4 v

/-- `AgentBasedSimulation.agents` (`gwOnly = false`) and `GridWorldBaseComponent.agents`
(`gwOnly = true`): a dict, every value an agent (a `GridWorldAgent`), every key `==` the agent's id -/
def acceptAgentEntry (gwOnly : Bool) (kv : PyVal × PyVal) : Bool :=
  match kv.2 with
  | .agent gw id => (!gwOnly || gw) && (match kv.1 with | .str s => s == id | _ => false)
  | _ => false

def acceptAgents (gwOnly : Bool) : PyVal → Bool
  | .dict items => items.all (acceptAgentEntry gwOnly)
  | _ => false

/-! ## Component mappings (checked when assigned, i.e. in the component's constructor) -/

/-- one value of an encoding mapping: `type(v) is int` → `v in encodings`; `type(v) is set` → every
element in; anything else `TypeError` -/
def acceptEncTargets (encs : List Int) : PyVal → Bool
  | .int i => encs.contains i
  | .set elems => elems.all (pyIn · encs)
  | _ => false

/-- `AttackActorBaseComponent.attack_mapping` -/
def acceptAttackMapping (encs : List Int) : PyVal → Bool
  | .dict items => items.all fun kv => pyIn kv.1 encs && acceptEncTargets encs kv.2
  | _ => false

/-- `target != encoding` between two hashable values (numeric equality) -/
def pyNe (a b : PyVal) : Bool :=
  match numKey a, numKey b with
  | some x, some y => decide (x ≠ y)
  | _, _ => true

/-- the value side of `TargetEncodingInactiveDone.target_mapping` for the key `k` -/
def acceptTargetEncVal (encs : List Int) (k : PyVal) : PyVal → Bool
  | .int i => encs.contains i && pyNe (.int i) k
  | .set elems => elems.all fun te => pyIn te encs && pyNe te k
  | _ => false

def acceptTargetEncEntry (encs : List Int) (kv : PyVal × PyVal) : Bool :=
  pyIn kv.1 encs && acceptTargetEncVal encs kv.1 kv.2

/-- `TargetEncodingInactiveDone.target_mapping`: as `attack_mapping`, and nobody targets its own
encoding -/
def acceptTargetEncMapping (encs : List Int) : PyVal → Bool
  | .dict items => items.all (acceptTargetEncEntry encs)
  | _ => false

def strIn (x : PyVal) (ids : List String) : Bool :=
  match x with
  | .str s => ids.contains s
  | _ => false

/-- `TargetAgentOverlapDone.target_mapping`, `TargetAgentInactiveDone.target_mapping`: ids of agents -/
def acceptTargetIdMapping (ids : List String) : PyVal → Bool
  | .dict items => items.all fun kv => strIn kv.1 ids && strIn kv.2 ids
  | _ => false

/-- `barrier_encodings` / `free_encodings` of the two placement states: `None` → empty set -/
def acceptEncSet (encs : List Int) : PyVal → Bool
  | .none => true
  | v => acceptEncTargets encs v

/-- the elements of an accepted barrier/free value -/
def encSetElems : PyVal → List PyVal
  | .int i => [.int i]
  | .set elems => elems
  | _ => []

/-! ## Grid (`abmarl/sim/gridworld/grid.py`) -/

/-- `assert type(rows) is int and rows > 0` -/
def acceptGridDim : PyVal → Bool
  | .int i => decide (0 < i)
  | _ => false

/-- one value of the `overlapping` dict: `type(v) is int`, or a set whose elements all are -/
def acceptOverlapVal : PyVal → Bool
  | .int _ => true
  | .set elems => elems.all isPyInt
  | _ => false

/-- type validation of the `overlapping` argument -/
def acceptOverlapping : PyVal → Bool
  | .none => true
  | .dict items => items.all fun kv => isPyInt kv.1 && acceptOverlapVal kv.2
  | _ => false

/-- a validated overlap table as written by the user: int- or set-valued entries -/
inductive OvVal where
  | int (i : Int)
  | set (s : List Int)
deriving Repr, DecidableEq, Inhabited

abbrev RawTable := List (Int × OvVal)
/-- encoding ↦ set of encodings (sets are lists; association list in dict order) -/
abbrev Table := List (Int × List Int)

/-- `value[ndx] = {overlap_set}` for the int-valued entries -/
def normalise (raw : RawTable) : Table :=
  raw.map fun kv => (kv.1, match kv.2 with | .int i => [i] | .set s => s)

/-- `symmetric_value[k] = {v}` if `k` is a new key, else `symmetric_value[k].add(v)` -/
def addTo : Table → Int → Int → Table
  | [], k, v => [(k, [v])]
  | (k', s) :: rest, k, v =>
    if k' = k then (k', if s.contains v then s else s ++ [v]) :: rest
    else (k', s) :: addTo rest k v

/-- `for overlap_ndx in overlap_set: …[overlap_ndx] ∪= {ndx}` -/
def closeRow (acc : Table) (ndx : Int) : List Int → Table
  | [] => acc
  | o :: os => closeRow (addTo acc o ndx) ndx os

/-- `for ndx, overlap_set in value.items(): …` -/
def closeLoop (acc : Table) : Table → Table
  | [] => acc
  | (ndx, s) :: rest => closeLoop (closeRow acc ndx s) rest

/-- what the `overlapping` setter stores: `symmetric_value = deepcopy(value)`, then the loop -/
def close (t : Table) : Table := closeLoop t t

def closeRaw (raw : RawTable) : Table := close (normalise raw)

/-- `other.encoding in self._overlapping[agent.encoding]`, a `KeyError` giving `False`: is there an
entry for `a` whose set contains `b`.  For a dict (distinct keys) this is the lookup
(`avail_eq_lookup`). -/
def avail (t : Table) (a b : Int) : Bool :=
  t.any fun e => e.1 == a && e.2.contains b

/-- `Grid.query` for an agent of encoding `a` on a cell whose occupants have the encodings `cell` -/
def query (t : Table) (a : Int) (cell : List Int) : Bool :=
  if cell.isEmpty then true else cell.all fun o => avail t a o

/-- `Grid.place`: the new cell content, `none` when the placement is refused -/
def place (t : Table) (a : Int) (cell : List Int) : Option (List Int) :=
  if query t a cell then some (cell ++ [a]) else none

/-- the availability matrix over a universe of encodings, row-major -/
def availMatrix (t : Table) (univ : List Int) : List (Int × Int × Bool) :=
  univ.flatMap fun a => univ.map fun b => (a, b, query t a [b])

/-! ## `abmarl.tools.gym_utils.Box.contains` -/

/-- a Box with scalar bounds (all Boxes Abmarl builds are of this kind) -/
structure BoxSp where
  isInt : Bool            -- dtype `int` (int64) or `float` (float64)
  shape : List Nat
  low : Rat
  high : Rat
deriving Repr, Inhabited

inductive BoxOut where
  | yes | no | raises | unmodelled
deriving DecidableEq, Repr, Inhabited

/-- result of `np.asarray(x, dtype=…)` -/
inductive AsArr where
  | ok (shape : List Nat) (vals : List Flt)
  | raises
  | unmodelled
deriving DecidableEq, Repr, Inhabited

/-- truncation towards zero: `int(1.9) = 1`, `int(-0.5) = 0` -/
def truncQ (q : Rat) : Int := Int.tdiv q.num q.den

/-- conversion of one non-sequence element by `np.asarray(…, dtype=int|float)` -/
def leafConv (isInt : Bool) : PyVal → AsArr
  | .bool b => .ok [] [.fin (b2i b)]
  | .int i => if isInt then (if inI64 i then .ok [] [.fin i] else .raises)   -- OverflowError
              else .ok [] [.fin i]
  | .float f =>
    if isInt then
      match f with
      | .fin q => if inI64 (truncQ q) then .ok [] [.fin (truncQ q)] else .raises  -- `int(x)` truncates
      | _ => .raises                       -- cannot convert float NaN / infinity to integer
    else .ok [] [f]
  | .npInt i => .ok [] [.fin i]
  | .npFloat f =>
    if isInt then
      match f with
      | .fin q => if inI64 (truncQ q) then .ok [] [.fin (truncQ q)] else .unmodelled  -- C cast
      | _ => .unmodelled
    else .ok [] [f]
  | .none => if isInt then .raises else .ok [] [.nan]     -- `float(None)` inside numpy gives nan
  | .str _ => .unmodelled                                -- numpy parses numeric strings
  | .ndarray _ _ _ => .unmodelled                        -- only reached for arrays nested in lists
  | .set _ => .raises
  | .dict _ => .raises
  | .agent _ _ => .raises
  | .list _ => .raises                                   -- not reached (`asArr` recurses)
  | .tuple _ => .raises

def AsArr.isOkShape (sh : List Nat) : AsArr → Bool
  | .ok sh' _ => sh' == sh
  | _ => false

def AsArr.valsOf : AsArr → List Flt
  | .ok _ vs => vs
  | _ => []

/-- a sequence of converted children: all the same shape, else numpy's "inhomogeneous shape" error -/
def combine (rs : List AsArr) : AsArr :=
  if rs.any (· == .unmodelled) then .unmodelled
  else if rs.any (· == .raises) then .raises
  else match rs with
    | [] => .ok [0] []
    | .ok sh _ :: _ =>
      if rs.all (AsArr.isOkShape sh) then .ok (rs.length :: sh) (rs.flatMap AsArr.valsOf)
      else .raises
    | _ => .raises

mutual
/-- `np.asarray(x, dtype=self.dtype)` for anything that is not already an array -/
def asArr (isInt : Bool) : PyVal → AsArr
  | .list l => combine (asArrs isInt l)
  | .tuple l => combine (asArrs isInt l)
  | v => leafConv isInt v
def asArrs (isInt : Bool) : List PyVal → List AsArr
  | [] => []
  | v :: vs => asArr isInt v :: asArrs isInt vs
end

/-- `np.can_cast(src, box dtype)` under numpy's default "safe" rule -/
def canCast (src : DT) (toInt : Bool) : Bool :=
  if toInt then (src == .i64 || src == .i32 || src == .bool) else true

/-- `bool(np.can_cast(x.dtype, self.dtype) and x.shape == self.shape and
np.all(x >= self.low) and np.all(x <= self.high))` -/
def boxTest (b : BoxSp) (dt : DT) (sh : List Nat) (vals : List Flt) : BoxOut :=
  if canCast dt b.isInt && (sh == b.shape) && vals.all (·.geR b.low) && vals.all (·.leR b.high)
  then .yes else .no

def boxDT (b : BoxSp) : DT := if b.isInt then .i64 else .f64

/-- did the conversion of this element to an integer dtype change its value: only a finite float
that is not whole is altered by `int(x)` (bools, ints and whole floats compare equal afterwards) -/
def leafChanged : PyVal → Bool
  | .float (.fin q) => decide (((truncQ q : Int) : Rat) ≠ q)
  | .npFloat (.fin q) => decide (((truncQ q : Int) : Rat) ≠ q)
  | _ => false

mutual
/-- `not np.array_equal(np.asarray(x, dtype=int), np.asarray(x))` for a value whose conversion
succeeded: some element was changed by the cast (shapes agree, so it is element-wise) -/
def castChanged : PyVal → Bool
  | .list l => castChangedL l
  | .tuple l => castChangedL l
  | v => leafChanged v
def castChangedL : List PyVal → Bool
  | [] => false
  | v :: vs => castChanged v || castChangedL vs
end

def boxContains (b : BoxSp) (v : PyVal) : BoxOut :=
  match v with
  | .int i =>                       -- `type(x) is int`: `np.array([x], dtype=int)`
    if inI64 i then boxTest b .i64 [1] [.fin i] else .raises
  | .float f => boxTest b .f64 [1] [f]      -- `type(x) is float`: `np.array([x], dtype=float)`
  | .ndarray dt sh vals => boxTest b dt sh vals
  | v =>                            -- `original = x; x = np.asarray(x, dtype=self.dtype)`
    match asArr b.isInt v with
    | .ok sh vals =>
      -- since 9e72b84: `if self.dtype.kind in 'iu' and not np.array_equal(x, np.asarray(original)):
      --                   return False`
      if b.isInt && castChanged v then .no
      else boxTest b (boxDT b) sh vals
    | .raises => .raises
    | .unmodelled => .unmodelled

/-! ## gymnasium's `Discrete(n).contains` (start = 0), for the null points -/

def inDiscrete (n : Nat) (i : Int) : BoxOut := if decide (0 ≤ i) && decide (i < n) then .yes else .no

def discreteContains (n : Nat) : PyVal → BoxOut
  | .bool b => inDiscrete n (b2i b)                       -- `isinstance(True, int)`
  | .int i => if inI64 i then inDiscrete n i else .raises   -- `np.int64(x)` overflows
  | .npInt i => inDiscrete n i
  | .ndarray dt [] [x] =>                                 -- integer dtype and shape `()`
    if dt == .i64 || dt == .i32 then
      (match x.asInt with | some i => inDiscrete n i | none => .no)
    else .no
  | _ => .no

inductive Space where
  | discrete (n : Nat)
  | box (b : BoxSp)
deriving Repr, Inhabited

def spaceContains : Space → PyVal → BoxOut
  | .discrete n, v => discreteContains n v
  | .box b, v => boxContains b v

/-! ## Outcomes -/

inductive Outcome where
  | accepted      -- the value was taken, and finalize/reset did not object either
  | rejAssign     -- the constructor / setter raised
  | rejFinal      -- accepted when supplied, `finalize()` / `reset()` raised
  | unmodelled
deriving DecidableEq, Repr, Inhabited

/-- is this what the setter stores for "no null point given": `None` becomes `{}`, and `finalize`
skips the membership assertion exactly when `type(x) is dict and len(x) == 0` -/
def noNullPoint : PyVal → Bool
  | .none => true
  | .dict [] => true
  | _ => false

/-- `null_action` / `null_observation`: the setter takes anything (`None` becomes `{}`);
`finalize` does (since fc3584a)
`if not (type(self.null_action) is dict and len(self.null_action) == 0):
     assert self.null_action in self.action_space`
so falsy points (`0`, `0.0`, `False`, `""`, `[]`, …) are checked like any other -/
def nullOutcome (sp : Space) (v : PyVal) : Outcome :=
  if noNullPoint v then .accepted
  else
    match spaceContains sp v with
    | .yes => .accepted
    | .no => .rejFinal
    | .raises => .rejFinal          -- `x in space` itself raised (TypeError, ValueError, OverflowError)
    | .unmodelled => .unmodelled

/-- barrier and free encodings together: both setters at construction, then `reset` asserts
`agent.encoding in {*barrier_encodings, *free_encodings}` for every agent, and builds
`ravelled_positions_available = {**{e: … for e in barrier}, **{e: … for e in free}}`, whose setter
asserts `type(encoding) is int` for every key (so `{1.0}` passes the constructor and fails here);
a free element equal to a barrier element lands on the barrier's key object -/
def barrierFreeOutcome (encs : List Int) (bv fv : PyVal) : Outcome :=
  if !(acceptEncSet encs bv && acceptEncSet encs fv) then .rejAssign
  else
    let bs := encSetElems bv
    let fs := encSetElems fv
    if !(encs.all (((bs ++ fs).filterMap numKey).contains ·)) then .rejFinal
    else
      let keys := bs ++ fs.filter fun e => !((bs.map numKey).contains (numKey e))
      if !(keys.all isPyInt) then .rejFinal else .accepted

inductive Attr where
  | id | seed | active | flag | optFlag | encoding | initialPosition
  | renderShape | renderColor | renderSize | health | initialHealth
  | range | unit | simAttacks | initialAmmo | ammo | orientation | initialOrientation
  | nullPoint | agentsSim | agentsComp
  | attackMapping | targetEncMapping | targetIdMapping | encSet | barrierFree
  | gridDim | overlapping
deriving DecidableEq, Repr, Inhabited

/-- what the value is checked against -/
structure Ctx where
  encs : List Int := []          -- encodings of the agents in the simulation
  ids : List String := []        -- ids of the agents in the simulation
  space : Space := .discrete 0   -- the agent's action / observation space (null points)
deriving Repr, Inhabited

/-- acceptance at assignment -/
def accepts (a : Attr) (c : Ctx) (v : PyVal) : Bool :=
  match a with
  | .id => acceptId v
  | .seed => acceptSeed v
  | .active => acceptFlag v
  | .flag => acceptFlag v
  | .optFlag => acceptOptFlag v
  | .encoding => acceptEncoding v
  | .initialPosition => acceptInitialPosition v
  | .renderShape => acceptRenderShape v
  | .renderColor => acceptRenderColor v
  | .renderSize => acceptRenderSize v
  | .health => acceptHealth v
  | .initialHealth => acceptInitialHealth v
  | .range => acceptRange v
  | .unit => acceptUnit v
  | .simAttacks => acceptSimAttacks v
  | .initialAmmo => acceptAmmo v
  | .ammo => acceptAmmo v
  | .orientation => acceptOrientation v
  | .initialOrientation => acceptInitialOrientation v
  | .nullPoint => true
  | .agentsSim => acceptAgents false v
  | .agentsComp => acceptAgents true v
  | .attackMapping => acceptAttackMapping c.encs v
  | .targetEncMapping => acceptTargetEncMapping c.encs v
  | .targetIdMapping => acceptTargetIdMapping c.ids v
  | .encSet => acceptEncSet c.encs v
  | .barrierFree =>
    (match v with
     | .tuple [bv, fv] => acceptEncSet c.encs bv && acceptEncSet c.encs fv
     | _ => false)
  | .gridDim => acceptGridDim v
  | .overlapping => acceptOverlapping v

/-- accepted / rejected when supplied / rejected at finalize (reset) -/
def outcome (a : Attr) (c : Ctx) (v : PyVal) : Outcome :=
  match a with
  | .nullPoint => nullOutcome c.space v
  | .barrierFree =>
    (match v with
     | .tuple [bv, fv] => barrierFreeOutcome c.encs bv fv
     | _ => .rejAssign)
  | a => if accepts a c v then .accepted else .rejAssign

end Cfg
end Abmarl
