import Abmarl.Model.Wire
import Abmarl.Model.Managers
import Abmarl.Model.StubSim
import Abmarl.Spec.Managers
import Abmarl.Model.MgrDriver
